//! C12 - page enumeration is the depth-first order of the page tree (DESIGN §4 C12).
//!
//! Valid trees: every ordered rooted tree up to a node bound, every typing of the leaves (Page /
//! empty Pages), Kids direct or behind a reference per node, ids ascending or reversed; deep
//! chains around the documented limit. Malformed trees: every single mutation of every small
//! valid tree. `get_pages()` on trees with an extreme /Count runs in child processes of this
//! binary (`--part child <file> <from>`) under an address-space limit, never in the main process.
//! Wide trees (hundreds to thousands of kids). History: one Document value is enumerated, edited
//! through its public fields (whole trees exchanged, or single edits) or by its mutating methods,
//! and enumerated again - every enumeration must describe the tree the document has at that
//! moment. Reference chains: every link of the tree reached through 0..128 hops of bare-reference
//! objects (exact verdict) and beyond the documented limit (termination and type safety only).
//! Every document of the valid / malformed / chain / wide / reference-chain families is enumerated
//! through every form a caller uses (check_forms) and all forms must agree with the step-by-step
//! run. Kid cycles with fan-out >= 2 x any Count run in child processes under a CPU budget per
//! case, so that a form that never returns becomes a failing case with a replay. /Type behind a
//! reference: exact verdict (open finding pagetree-indirect-type). Stale max_id: every valid tree with
//! every link / Type / Count behind 1-2 references under max_id 0, 1, median, highest-1, highest,
//! highest+100 in four numberings (exact verdict). Near-miss /Type names (Page<NUL>, "Page ", page,
//! Pag, Pagee ..) in memory and in files written by the harness's own serializer and loaded with
//! load_mem (type safety judged by the /Type as written); valid trees respelled with #xx escapes
//! and odd separators, loaded (exact verdict).
use lopdf::{Dictionary, Document, Object, ObjectId};
use serde_json::{json, Value};
use std::collections::BTreeMap;
use std::sync::atomic::{AtomicU64, Ordering};
use std::sync::Mutex;
use vharness::objjson::doc_to_json;
use vharness::{util, Mode, Run};

const SIZEHINT: &str = "pagetree-sizehint-count";
/// the code's documented limit on its stack of pending sibling lists
const LIMIT: usize = 256;

// ---------------------------------------------------------------------------------------------
// tree descriptors

#[derive(Clone, Copy, PartialEq, Debug)]
enum Kind {
    Page,
    /// Pages node with a direct Kids array
    Pages,
    /// Pages node whose Kids entry is a reference to an array object
    PagesInd,
}

impl Kind {
    fn code(self) -> &'static str {
        match self {
            Kind::Page => "Page",
            Kind::Pages => "Pages",
            Kind::PagesInd => "PagesInd",
        }
    }
    fn parse(s: &str) -> Kind {
        match s {
            "Page" => Kind::Page,
            "Pages" => Kind::Pages,
            "PagesInd" => Kind::PagesInd,
            _ => machinery(&format!("unknown node kind {}", s)),
        }
    }
}

fn machinery(msg: &str) -> ! {
    eprintln!("MACHINERY: {}", msg);
    std::process::exit(3)
}

/// Nodes in preorder; `parent[0]` is None.
#[derive(Clone, Debug)]
struct Tree {
    parent: Vec<Option<usize>>,
    kids: Vec<Vec<usize>>,
    kind: Vec<Kind>,
}

impl Tree {
    fn from_parents(parent: &[Option<usize>], kind: Vec<Kind>) -> Tree {
        let mut kids = vec![vec![]; parent.len()];
        for (i, p) in parent.iter().enumerate() {
            if let Some(p) = p {
                kids[*p].push(i);
            }
        }
        Tree { parent: parent.to_vec(), kids, kind }
    }
    fn len(&self) -> usize {
        self.parent.len()
    }
    fn is_pages(&self, i: usize) -> bool {
        self.kind[i] != Kind::Page
    }
    /// number of Page leaves below (or at) node i
    fn count(&self, i: usize) -> i64 {
        if self.kind[i] == Kind::Page {
            1
        } else {
            self.kids[i].iter().map(|k| self.count(*k)).sum()
        }
    }
    fn ancestors(&self, i: usize) -> Vec<usize> {
        let mut v = vec![];
        let mut c = self.parent[i];
        while let Some(p) = c {
            v.push(p);
            c = self.parent[p];
        }
        v
    }
    fn has_intermediate(&self) -> bool {
        (1..self.len()).any(|i| self.is_pages(i))
    }
    fn to_json(&self) -> Value {
        json!({"parents": self.parent.iter().map(|p| p.map(|x| x as i64).unwrap_or(-1)).collect::<Vec<_>>(),
               "kinds": self.kind.iter().map(|k| k.code()).collect::<Vec<_>>()})
    }
    fn from_json(v: &Value) -> Tree {
        let parent: Vec<Option<usize>> = v["parents"].as_array().unwrap().iter().map(|x| x.as_i64().filter(|x| *x >= 0).map(|x| x as usize)).collect();
        let kind = v["kinds"].as_array().unwrap().iter().map(|k| Kind::parse(k.as_str().unwrap())).collect();
        Tree::from_parents(&parent, kind)
    }
}

/// All parent vectors (preorder) of ordered rooted trees with n nodes: node i hangs under a node
/// of the rightmost path of the tree built from nodes 0..i.
fn shapes(n: usize) -> Vec<Vec<Option<usize>>> {
    fn rec(cur: &mut Vec<Option<usize>>, n: usize, out: &mut Vec<Vec<Option<usize>>>) {
        if cur.len() == n {
            out.push(cur.clone());
            return;
        }
        let mut cand = Some(cur.len() - 1);
        while let Some(c) = cand {
            cur.push(Some(c));
            rec(cur, n, out);
            cur.pop();
            cand = cur[c];
        }
    }
    let mut out = vec![];
    rec(&mut vec![None], n, &mut out);
    out
}

/// Options per node: a leaf is Page / empty Pages (Kids direct or indirect), the root and every
/// inner node is Pages (direct or indirect).
fn options(parent: &[Option<usize>]) -> Vec<Vec<Kind>> {
    let n = parent.len();
    let mut has_kid = vec![false; n];
    for p in parent.iter().flatten() {
        has_kid[*p] = true;
    }
    (0..n)
        .map(|i| if has_kid[i] || i == 0 { vec![Kind::Pages, Kind::PagesInd] } else { vec![Kind::Page, Kind::Pages, Kind::PagesInd] })
        .collect()
}

fn n_variants(opts: &[Vec<Kind>]) -> usize {
    opts.iter().map(|o| o.len()).product()
}

fn variant(opts: &[Vec<Kind>], mut idx: usize) -> Vec<Kind> {
    opts.iter()
        .map(|o| {
            let k = o[idx % o.len()];
            idx /= o.len();
            k
        })
        .collect()
}

// ---------------------------------------------------------------------------------------------
// documents

struct Built {
    doc: Document,
    cat: ObjectId,
    node: Vec<ObjectId>,
    arr: Vec<Option<ObjectId>>,
}

fn name(s: &str) -> Object {
    Object::Name(s.as_bytes().to_vec())
}

/// Slots in canonical order: catalog, the nodes in preorder, then the Kids arrays of the
/// indirect nodes in preorder. Ascending: slot j has number j+1; reversed: total-j.
fn build(t: &Tree, rev: bool) -> Built {
    let n = t.len();
    let n_ind = t.kind.iter().filter(|k| **k == Kind::PagesInd).count();
    let total = 1 + n + n_ind;
    let id = |slot: usize| -> ObjectId { (if rev { (total - slot) as u32 } else { slot as u32 + 1 }, 0) };
    let cat = id(0);
    let node: Vec<ObjectId> = (0..n).map(|i| id(1 + i)).collect();
    let mut arr = vec![None; n];
    let mut next = 1 + n;
    for i in 0..n {
        if t.kind[i] == Kind::PagesInd {
            arr[i] = Some(id(next));
            next += 1;
        }
    }
    let mut doc = Document::with_version("1.5");
    let mut c = Dictionary::new();
    c.set("Type", name("Catalog"));
    c.set("Pages", Object::Reference(node[0]));
    doc.objects.insert(cat, Object::Dictionary(c));
    for i in 0..n {
        let mut d = Dictionary::new();
        if t.kind[i] == Kind::Page {
            d.set("Type", name("Page"));
        } else {
            d.set("Type", name("Pages"));
            let kids: Vec<Object> = t.kids[i].iter().map(|k| Object::Reference(node[*k])).collect();
            match arr[i] {
                Some(a) => {
                    doc.objects.insert(a, Object::Array(kids));
                    d.set("Kids", Object::Reference(a));
                }
                None => d.set("Kids", Object::Array(kids)),
            }
            d.set("Count", Object::Integer(t.count(i)));
        }
        if let Some(p) = t.parent[i] {
            d.set("Parent", Object::Reference(node[p]));
        }
        doc.objects.insert(node[i], Object::Dictionary(d));
    }
    doc.trailer.set("Root", Object::Reference(cat));
    doc.max_id = total as u32;
    Built { doc, cat, node, arr }
}

/// The reference: Page leaves in depth-first, left-to-right order.
fn expected_pages(t: &Tree, b: &Built) -> Vec<ObjectId> {
    fn walk(t: &Tree, i: usize, b: &Built, out: &mut Vec<ObjectId>) {
        if t.kind[i] == Kind::Page {
            out.push(b.node[i]);
        } else {
            for k in &t.kids[i] {
                walk(t, *k, b, out);
            }
        }
    }
    let mut out = vec![];
    walk(t, 0, b, &mut out);
    out
}

// ---------------------------------------------------------------------------------------------
// single mutations

const COUNT_EXTREME: [&str; 4] = ["2^62", "10^12", "i64max", "indirect_2^62"];

fn is_count_extreme(m: &Value) -> bool {
    m["m"] == "count" && COUNT_EXTREME.contains(&m["what"].as_str().unwrap_or(""))
}

/// Every single mutation of a valid tree, as descriptors.
fn mutations(t: &Tree) -> Vec<Value> {
    let mut out = vec![];
    let n = t.len();
    let first_page = (0..n).find(|i| t.kind[*i] == Kind::Page);
    for i in 0..n {
        for what in ["missing", "Foo", "swap", "int", "ref_wrong_gen", "ref_dangling", "ref_int", "ref_near_nul", "ref_alias_wrong_gen"] {
            out.push(json!({"m": "type", "node": i, "what": what}));
        }
        // Parent pointers that disagree with Kids (the enumeration follows Kids)
        for what in ["missing", "self", "root", "first_page", "catalog", "dangling", "wrong_gen", "int"] {
            if i == 0 && what == "missing" {
                continue; // the root has none
            }
            out.push(json!({"m": "parent", "node": i, "what": what}));
        }
        if !t.is_pages(i) {
            continue;
        }
        let l = t.kids[i].len();
        let anc = t.ancestors(i);
        for pos in 0..=l {
            for a in &anc {
                out.push(json!({"m": "kid_insert", "node": i, "pos": pos, "what": "ancestor", "arg": a}));
            }
            for j in 0..l {
                out.push(json!({"m": "kid_insert", "node": i, "pos": pos, "what": "dup", "arg": j}));
            }
            for what in ["self", "int", "dict", "dangling", "null", "catalog", "page_stream", "pages_stream", "ref_to_int", "ref_to_array", "wrong_gen_catalog"] {
                out.push(json!({"m": "kid_insert", "node": i, "pos": pos, "what": what}));
            }
            for j in 0..n {
                // a node that is neither this one, nor an ancestor, nor one of its kids: a node with two parents
                if j != i && !anc.contains(&j) && !t.kids[i].contains(&j) {
                    out.push(json!({"m": "kid_insert", "node": i, "pos": pos, "what": "other", "arg": j}));
                }
                // the right object number with a generation no object has: such a reference names nothing
                out.push(json!({"m": "kid_insert", "node": i, "pos": pos, "what": "wrong_gen", "arg": j, "gen": 1}));
            }
            if let Some(fp) = first_page {
                out.push(json!({"m": "kid_insert", "node": i, "pos": pos, "what": "wrong_gen", "arg": fp, "gen": 65535}));
            }
        }
        for pos in 0..l {
            for a in &anc {
                out.push(json!({"m": "kid_replace", "node": i, "pos": pos, "what": "ancestor", "arg": a}));
            }
            for j in 0..l {
                if j != pos {
                    out.push(json!({"m": "kid_replace", "node": i, "pos": pos, "what": "dup", "arg": j}));
                }
            }
            for what in ["self", "int", "dict", "dangling", "null", "catalog", "page_stream", "pages_stream", "ref_to_int", "ref_to_array", "wrong_gen_catalog"] {
                out.push(json!({"m": "kid_replace", "node": i, "pos": pos, "what": what}));
            }
            // the kid itself under a stale generation (2 R, 65535 R), and this node, the root, the first page under generation 1
            let kid = t.kids[i][pos];
            out.push(json!({"m": "kid_replace", "node": i, "pos": pos, "what": "wrong_gen", "arg": kid, "gen": 2}));
            out.push(json!({"m": "kid_replace", "node": i, "pos": pos, "what": "wrong_gen", "arg": kid, "gen": 65535}));
            let mut js = vec![kid, i, 0];
            js.extend(first_page);
            js.sort();
            js.dedup();
            for j in js {
                out.push(json!({"m": "kid_replace", "node": i, "pos": pos, "what": "wrong_gen", "arg": j, "gen": 1}));
            }
        }
        for what in ["missing", "int", "dict", "ref_to_dict", "dangling", "nested_array"] {
            out.push(json!({"m": "kids", "node": i, "what": what}));
        }
        for what in ["plus1", "minus1", "negative", "real", "name", "missing", "2^62", "10^12", "i64max", "indirect_2^62"] {
            out.push(json!({"m": "count", "node": i, "what": what}));
        }
    }
    for what in ["pages_missing", "pages_int", "pages_direct_dict", "pages_dangling", "root_missing", "root_dangling"] {
        out.push(json!({"m": "catalog", "what": what}));
    }
    if first_page.is_some() {
        out.push(json!({"m": "catalog", "what": "pages_to_page"}));
    }
    out
}

fn dict_mut(doc: &mut Document, id: ObjectId) -> &mut Dictionary {
    match doc.objects.get_mut(&id) {
        Some(Object::Dictionary(d)) => d,
        _ => machinery("mutation target is not a dictionary"),
    }
}

fn kids_mut<'a>(b: &'a mut Built, i: usize) -> &'a mut Vec<Object> {
    match b.arr[i] {
        Some(a) => match b.doc.objects.get_mut(&a) {
            Some(Object::Array(v)) => v,
            _ => machinery("indirect Kids array missing"),
        },
        None => match dict_mut(&mut b.doc, b.node[i]).get_mut(b"Kids") {
            Ok(Object::Array(v)) => v,
            _ => machinery("direct Kids array missing"),
        },
    }
}

fn apply_mutation(t: &Tree, b: &mut Built, m: &Value) {
    let dangling = Object::Reference((9999, 0));
    let what = m["what"].as_str().unwrap_or("");
    let node = m["node"].as_u64().map(|x| x as usize);
    match m["m"].as_str().unwrap_or("") {
        "type" if what.starts_with("ref_") => {
            // /Type behind a reference that does not lead to the name Page / Pages: the right number under a generation
            // no object has, a missing object, an integer, a near-miss name, an alias whose own target is stale
            let i = node.unwrap();
            let cur = match dict_mut(&mut b.doc, b.node[i]).get(b"Type") {
                Ok(o) => o.clone(),
                Err(_) => machinery("node without Type"),
            };
            let id = fresh_id(&mut b.doc);
            let val = match what {
                "ref_wrong_gen" => {
                    b.doc.objects.insert(id, cur);
                    Object::Reference((id.0, 1))
                }
                "ref_dangling" => {
                    b.doc.max_id -= 1;
                    dangling
                }
                "ref_int" => {
                    b.doc.objects.insert(id, Object::Integer(3));
                    Object::Reference(id)
                }
                "ref_near_nul" => {
                    let mut n = cur.as_name().map(|n| n.to_vec()).unwrap_or_default();
                    n.push(0);
                    b.doc.objects.insert(id, Object::Name(n));
                    Object::Reference(id)
                }
                "ref_alias_wrong_gen" => {
                    b.doc.objects.insert(id, cur);
                    let alias = fresh_id(&mut b.doc);
                    b.doc.objects.insert(alias, Object::Reference((id.0, 7)));
                    Object::Reference(alias)
                }
                _ => machinery("unknown type mutation"),
            };
            dict_mut(&mut b.doc, b.node[i]).set("Type", val);
        }
        "type" => {
            let i = node.unwrap();
            let d = dict_mut(&mut b.doc, b.node[i]);
            match what {
                "missing" => {
                    d.remove(b"Type");
                }
                "Foo" => d.set("Type", name("Foo")),
                "swap" => d.set("Type", name(if t.kind[i] == Kind::Page { "Pages" } else { "Page" })),
                "int" => d.set("Type", Object::Integer(3)),
                _ => machinery("unknown type mutation"),
            }
        }
        "kid_insert" | "kid_replace" => {
            let i = node.unwrap();
            let pos = m["pos"].as_u64().unwrap() as usize;
            let arg = m["arg"].as_u64().map(|x| x as usize);
            let mut page = Dictionary::new();
            page.set("Type", name("Page"));
            let val = match what {
                "ancestor" => Object::Reference(b.node[arg.unwrap()]),
                "dup" => Object::Reference(b.node[t.kids[i][arg.unwrap()]]),
                "self" => Object::Reference(b.node[i]),
                "other" => Object::Reference(b.node[arg.unwrap()]),
                "wrong_gen" => Object::Reference((b.node[arg.unwrap()].0, m["gen"].as_u64().unwrap_or(1) as u16)),
                "wrong_gen_catalog" => Object::Reference((b.cat.0, 1)),
                "int" => Object::Integer(5),
                "dict" => Object::Dictionary(page),
                "dangling" => dangling,
                "null" => Object::Null,
                "catalog" => Object::Reference(b.cat),
                // indirect objects of the wrong kind that nevertheless claim a page-tree type
                "page_stream" | "pages_stream" | "ref_to_int" | "ref_to_array" => {
                    let id = (b.doc.max_id + 1, 0);
                    b.doc.max_id += 1;
                    let o = match what {
                        "page_stream" => Object::Stream(lopdf::Stream::new(page.clone(), b"q Q".to_vec())),
                        "pages_stream" => {
                            let mut d = Dictionary::new();
                            d.set("Type", name("Pages"));
                            d.set("Kids", Object::Array(vec![Object::Reference(b.node[i])]));
                            d.set("Count", Object::Integer(1));
                            Object::Stream(lopdf::Stream::new(d, vec![]))
                        }
                        "ref_to_int" => Object::Integer(7),
                        _ => Object::Array(vec![Object::Dictionary(page.clone())]),
                    };
                    b.doc.objects.insert(id, o);
                    Object::Reference(id)
                }
                _ => machinery("unknown kid mutation"),
            };
            let kids = kids_mut(b, i);
            if m["m"] == "kid_insert" {
                kids.insert(pos, val);
            } else {
                kids[pos] = val;
            }
        }
        "parent" => {
            let i = node.unwrap();
            let first_page = (0..t.len()).find(|i| t.kind[*i] == Kind::Page);
            let val = match what {
                "missing" => None,
                "self" => Some(Object::Reference(b.node[i])),
                "root" => Some(Object::Reference(b.node[0])),
                "first_page" => Some(Object::Reference(b.node[first_page.unwrap_or(0)])),
                "catalog" => Some(Object::Reference(b.cat)),
                "dangling" => Some(dangling),
                "wrong_gen" => Some(Object::Reference((b.node[t.parent[i].unwrap_or(0)].0, 1))),
                "int" => Some(Object::Integer(4)),
                _ => machinery("unknown parent mutation"),
            };
            let d = dict_mut(&mut b.doc, b.node[i]);
            match val {
                Some(v) => d.set("Parent", v),
                None => {
                    d.remove(b"Parent");
                }
            }
        }
        "kids" => {
            let i = node.unwrap();
            let cat = b.cat;
            let inner = kids_mut(b, i).clone();
            let d = dict_mut(&mut b.doc, b.node[i]);
            match what {
                "missing" => {
                    d.remove(b"Kids");
                }
                "int" => d.set("Kids", Object::Integer(1)),
                "dict" => d.set("Kids", Object::Dictionary(Dictionary::new())),
                "ref_to_dict" => d.set("Kids", Object::Reference(cat)),
                "dangling" => d.set("Kids", dangling),
                "nested_array" => d.set("Kids", Object::Array(vec![Object::Array(inner)])),
                _ => machinery("unknown kids mutation"),
            }
        }
        "count" => {
            let i = node.unwrap();
            let correct = t.count(i);
            let extra = (b.doc.objects.keys().map(|k| k.0).max().unwrap() + 1, 0);
            let d = dict_mut(&mut b.doc, b.node[i]);
            match what {
                "plus1" => d.set("Count", Object::Integer(correct + 1)),
                "minus1" => d.set("Count", Object::Integer(correct - 1)),
                "negative" => d.set("Count", Object::Integer(-7)),
                "real" => d.set("Count", Object::Real(1.5)),
                "name" => d.set("Count", name("Many")),
                "missing" => {
                    d.remove(b"Count");
                }
                "2^62" => d.set("Count", Object::Integer(1 << 62)),
                "10^12" => d.set("Count", Object::Integer(1_000_000_000_000)),
                "i64max" => d.set("Count", Object::Integer(i64::MAX)),
                "indirect_2^62" => {
                    d.set("Count", Object::Reference(extra));
                    b.doc.objects.insert(extra, Object::Integer(1 << 62));
                    b.doc.max_id = extra.0;
                }
                _ => machinery("unknown count mutation"),
            }
        }
        "catalog" => {
            let first_page = (0..t.len()).find(|i| t.kind[*i] == Kind::Page);
            match what {
                "root_missing" => {
                    b.doc.trailer.remove(b"Root");
                }
                "root_dangling" => b.doc.trailer.set("Root", dangling),
                _ => {
                    let root_dict = match b.doc.objects.get(&b.node[0]) {
                        Some(Object::Dictionary(d)) => d.clone(),
                        _ => machinery("root is not a dictionary"),
                    };
                    let page_id = first_page.map(|i| b.node[i]);
                    let c = dict_mut(&mut b.doc, b.cat);
                    match what {
                        "pages_missing" => {
                            c.remove(b"Pages");
                        }
                        "pages_int" => c.set("Pages", Object::Integer(2)),
                        "pages_direct_dict" => c.set("Pages", Object::Dictionary(root_dict)),
                        "pages_dangling" => c.set("Pages", dangling),
                        "pages_to_page" => c.set("Pages", Object::Reference(page_id.unwrap())),
                        _ => machinery("unknown catalog mutation"),
                    }
                }
            }
        }
        _ => machinery("unknown mutation"),
    }
}

// ---------------------------------------------------------------------------------------------
// deep chains

/// Root R0; R_i has Kids [R_{i+1}] plus one sibling Page before or after it; R_depth holds one leaf.
#[derive(Clone, Debug)]
struct Chain {
    depth: usize,
    /// "none" | "after" | "before"
    siblings: String,
    indirect: bool,
    rev: bool,
}

impl Chain {
    fn to_json(&self) -> Value {
        json!({"kind": "chain", "depth": self.depth, "siblings": self.siblings, "indirect": self.indirect, "rev": self.rev})
    }
    fn from_json(v: &Value) -> Chain {
        Chain {
            depth: v["depth"].as_u64().unwrap() as usize,
            siblings: v["siblings"].as_str().unwrap().to_string(),
            indirect: v["indirect"].as_bool().unwrap(),
            rev: v["rev"].as_bool().unwrap(),
        }
    }
    fn tree(&self) -> Tree {
        let mut parent: Vec<Option<usize>> = vec![None];
        let mut kind = vec![if self.indirect { Kind::PagesInd } else { Kind::Pages }];
        let mut cur = 0usize;
        for _ in 0..self.depth {
            if self.siblings == "before" {
                parent.push(Some(cur));
                kind.push(Kind::Page);
            }
            parent.push(Some(cur));
            kind.push(if self.indirect { Kind::PagesInd } else { Kind::Pages });
            let next = parent.len() - 1;
            // preorder: an "after" sibling comes after the whole subtree; fixed up below
            cur = next;
        }
        parent.push(Some(cur));
        kind.push(Kind::Page);
        if self.siblings == "after" {
            // siblings appended in preorder position: after the subtree of R_{i+1}, deepest first
            let chain_nodes: Vec<usize> = (0..self.depth).collect();
            for i in chain_nodes.into_iter().rev() {
                // R_i is node i in this layout (no "before" siblings)
                parent.push(Some(i));
                kind.push(Kind::Page);
            }
        }
        Tree::from_parents(&parent, kind)
    }
    /// the largest number of sibling lists that are pending at once during a depth-first walk
    fn max_pending(&self) -> usize {
        if self.siblings == "after" {
            self.depth
        } else {
            0
        }
    }
}

// ---------------------------------------------------------------------------------------------
// watchdog: a call that never returns (e.g. next() spinning on a kid cycle) must become a
// failing outcome, not a stalled check

const HANG_SECS: u64 = 20;

struct Watch {
    slots: Vec<Mutex<Option<(std::time::Instant, Value)>>>,
    done: std::sync::atomic::AtomicBool,
}

impl Watch {
    fn new() -> Watch {
        Watch { slots: (0..rayon::current_num_threads() + 1).map(|_| Mutex::new(None)).collect(), done: std::sync::atomic::AtomicBool::new(false) }
    }
    fn slot(&self) -> &Mutex<Option<(std::time::Instant, Value)>> {
        &self.slots[rayon::current_thread_index().map(|i| i + 1).unwrap_or(0).min(self.slots.len() - 1)]
    }
    /// Run `f` on `case`; while it runs the watchdog knows which case this thread is executing.
    fn guarded<T>(&self, case: &Value, f: impl FnOnce() -> T) -> T {
        *self.slot().lock().unwrap() = Some((std::time::Instant::now(), case.clone()));
        let r = f();
        *self.slot().lock().unwrap() = None;
        r
    }
    /// Body of the watchdog thread: a case running longer than HANG_SECS is reported and the check ends with exit code 1.
    fn patrol(&self, run: &Run) {
        while !self.done.load(Ordering::SeqCst) {
            std::thread::sleep(std::time::Duration::from_millis(250));
            for s in &self.slots {
                let stuck = match &*s.lock().unwrap() {
                    Some((t, case)) if t.elapsed().as_secs() >= HANG_SECS => Some(case.clone()),
                    _ => None,
                };
                if let Some(case) = stuck {
                    let stuck_text = case.to_string();
                    run.fail(None, case, &format!("page enumeration did not return within {} s (the check stops here)", HANG_SECS), "enumeration terminates within objects.len()+1 calls of next()");
                    println!("C12 stopped by its watchdog: a call into lopdf did not return; case: {}", stuck_text);
                    std::process::exit(1);
                }
            }
        }
    }
}

// ---------------------------------------------------------------------------------------------
// oracles (main process)

struct Drive {
    yielded: Vec<ObjectId>,
    calls: usize,
    finished: bool,
}

/// Call next() until None, at most objects.len()+2 times.
fn drive(doc: &Document) -> Result<Drive, String> {
    util::guard(|| {
        let cap = doc.objects.len() + 2;
        let mut it = doc.page_iter();
        let mut d = Drive { yielded: vec![], calls: 0, finished: false };
        while d.calls < cap {
            d.calls += 1;
            match it.next() {
                Some(id) => d.yielded.push(id),
                None => {
                    d.finished = true;
                    break;
                }
            }
        }
        d
    })
}

fn is_page_object(doc: &Document, id: ObjectId) -> bool {
    match doc.objects.get(&id) {
        // the value of Type may sit behind references (harness's own walk over the public map, <= 128 hops)
        Some(Object::Dictionary(d)) => {
            let mut t = d.get(b"Type").ok();
            for _ in 0..128 {
                match t {
                    Some(Object::Reference(r)) => t = doc.objects.get(r),
                    _ => break,
                }
            }
            matches!(t, Some(Object::Name(n)) if n == b"Page")
        }
        _ => false,
    }
}

fn ids_str(v: &[ObjectId]) -> String {
    if v.len() > 24 {
        format!("{} ids, first {:?} last {:?}", v.len(), &v[..3], &v[v.len() - 3..])
    } else {
        if v.iter().any(|i| i.1 != 0) {
            return format!("{:?}", v);
        }
        format!("{:?}", v.iter().map(|i| i.0).collect::<Vec<_>>())
    }
}

/// Termination within objects.len()+1 calls and only page objects; returns the yield list.
fn check_lenient(doc: &Document, max_calls: &AtomicU64) -> Result<Vec<ObjectId>, String> {
    let d = drive(doc).map_err(|e| format!("page_iter: {}", e))?;
    max_calls.fetch_max(d.calls as u64, Ordering::Relaxed);
    if !d.finished || d.calls > doc.objects.len() + 1 {
        return Err(format!("page_iter did not finish within objects.len()+1 = {} calls of next()", doc.objects.len() + 1));
    }
    for id in &d.yielded {
        if !is_page_object(doc, *id) {
            return Err(format!("page_iter yields {} {} R which is not an existing dictionary of /Type /Page", id.0, id.1));
        }
    }
    Ok(d.yielded)
}

/// get_pages(): no panic, keys 1..n, every value a page object. Only for documents without an extreme Count.
fn check_get_pages_lenient(doc: &Document) -> Result<BTreeMap<u32, ObjectId>, String> {
    let m = util::guard(|| doc.get_pages()).map_err(|e| format!("get_pages: {}", e))?;
    validate_numbering(doc, &m)?;
    Ok(m)
}

fn validate_numbering(doc: &Document, m: &BTreeMap<u32, ObjectId>) -> Result<(), String> {
    for (i, (k, v)) in m.iter().enumerate() {
        if *k != i as u32 + 1 {
            return Err(format!("get_pages keys are not 1..n: {:?}", m.keys().collect::<Vec<_>>()));
        }
        if !is_page_object(doc, *v) {
            return Err(format!("get_pages maps {} to {} {} R which is not an existing dictionary of /Type /Page", k, v.0, v.1));
        }
    }
    Ok(())
}

/// The step-by-step enumeration and get_pages() against the expected leaf list.
fn check_valid_basic(doc: &Document, want: &[ObjectId], max_calls: &AtomicU64) -> Result<(), String> {
    let got = check_lenient(doc, max_calls)?;
    if got != want {
        return Err(format!("page_iter yields {}, depth-first left-to-right leaf pages are {}", ids_str(&got), ids_str(want)));
    }
    let m = check_get_pages_lenient(doc)?;
    let numbered: BTreeMap<u32, ObjectId> = want.iter().enumerate().map(|(i, p)| (i as u32 + 1, *p)).collect();
    if m != numbered {
        return Err(format!("get_pages is {:?}, expected the leaf pages numbered 1..{}: {}", m, want.len(), ids_str(want)));
    }
    Ok(())
}

/// check_valid_basic plus every other form of the same enumeration.
fn check_valid(doc: &Document, want: &[ObjectId], max_calls: &AtomicU64) -> Result<(), String> {
    check_valid_basic(doc, want, max_calls)?;
    check_forms(doc, want, true, true, &|_| {})
}

/// Malformed tree, in process: the step-by-step run (termination, only page objects), then every other form.
fn check_lenient_all(doc: &Document, max_calls: &AtomicU64, collecting: bool) -> Result<Vec<ObjectId>, String> {
    let got = check_lenient(doc, max_calls)?;
    check_forms(doc, &got, false, collecting, &|_| {})?;
    Ok(got)
}

const FORMS: [&str; 11] = ["for", "size_hint_around_every_next", "count", "last", "nth(k)", "nth(1)_repeated", "collect_vec", "extend_vec", "next_k_times_then_collect", "get_pages", "next_after_none"];

/// The same enumeration through every form a caller uses: `for`, size_hint() before and after
/// every next(), count(), last(), nth(k) for every k, nth(1) repeated on one iterator, and - when
/// `collecting` - collect::<Vec>, Vec::extend, k x next() followed by collect, get_pages(). Every
/// form must give what the step-by-step run `stepped` gave. `exact` (well-formed tree with correct
/// Counts): size_hint() must enclose the number of pages still to come; otherwise it only has to
/// return with lower <= upper. `stage` is told which form starts (a child process reports it, so
/// that a form that never returns can be named).
fn check_forms(doc: &Document, stepped: &[ObjectId], exact: bool, collecting: bool, stage: &dyn Fn(&str)) -> Result<(), String> {
    let n = stepped.len();
    let cap = doc.objects.len() + 2;
    let differs = |form: &str, got: &str| format!("{} gives {} but stepping with next() gave {}", form, got, ids_str(stepped));
    stage(FORMS[0]);
    let got = util::guard(|| {
        let mut v = vec![];
        for id in doc.page_iter() {
            v.push(id);
            if v.len() > cap {
                break;
            }
        }
        v
    })
    .map_err(|e| format!("for id in page_iter(): {}", e))?;
    if got != stepped {
        return Err(differs("for id in page_iter()", &ids_str(&got)));
    }
    stage(FORMS[1]);
    // on very long lists size_hint() (linear in the pending kids) is asked at the ends and at every 97th step
    // (beyond 30,000 pages: every 4099th step)
    let stride = if n > 30_000 { 4099 } else { 97 };
    let ask = |i: usize| n <= 2000 || i < 3 || i + 3 >= n || i % stride == 0;
    util::guard(|| -> Result<(), String> {
        let mut it = doc.page_iter();
        for i in 0..=n {
            let remaining = n - i;
            if ask(i) {
                let (lo, hi) = it.size_hint();
                if hi.is_some_and(|h| lo > h) {
                    return Err(format!("size_hint() before next() #{} is ({}, {:?}): lower above upper", i + 1, lo, hi));
                }
                if exact && (lo > remaining || hi.is_some_and(|h| h < remaining)) {
                    return Err(format!("size_hint() before next() #{} is ({}, {:?}) but {} pages are still to come (well-formed tree, correct Counts)", i + 1, lo, hi, remaining));
                }
            }
            let x = it.next();
            if x != stepped.get(i).copied() {
                return Err(format!("next() #{} in a run with size_hint() calls in between gives {:?}, without them {:?}", i + 1, x, stepped.get(i)));
            }
        }
        let (lo, hi) = it.size_hint();
        if lo > 0 && exact {
            return Err(format!("size_hint() after the end is ({}, {:?})", lo, hi));
        }
        Ok(())
    })
    .map_err(|e| format!("size_hint(): {}", e))??;
    stage(FORMS[2]);
    let c = util::guard(|| doc.page_iter().count()).map_err(|e| format!("page_iter().count(): {}", e))?;
    if c != n {
        return Err(differs("page_iter().count()", &c.to_string()));
    }
    stage(FORMS[3]);
    let l = util::guard(|| doc.page_iter().last()).map_err(|e| format!("page_iter().last(): {}", e))?;
    if l != stepped.last().copied() {
        return Err(differs("page_iter().last()", &format!("{:?}", l)));
    }
    stage(FORMS[4]);
    let ks: Vec<usize> = if n <= 40 { (0..=n + 1).collect() } else { vec![0, 1, 2, n / 2, n - 2, n - 1, n, n + 1] };
    for k in ks {
        let x = util::guard(|| doc.page_iter().nth(k)).map_err(|e| format!("page_iter().nth({}): {}", k, e))?;
        if x != stepped.get(k).copied() {
            return Err(differs(&format!("page_iter().nth({})", k), &format!("{:?}", x)));
        }
    }
    stage(FORMS[5]);
    let got = util::guard(|| {
        let mut it = doc.page_iter();
        let mut v = vec![];
        while let Some(x) = it.nth(1) {
            v.push(x);
            if v.len() > cap {
                break;
            }
        }
        v
    })
    .map_err(|e| format!("nth(1) repeated: {}", e))?;
    if got != stepped.iter().skip(1).step_by(2).cloned().collect::<Vec<_>>() {
        return Err(differs("nth(1) repeated on one iterator (every second page)", &ids_str(&got)));
    }
    if collecting {
        stage(FORMS[6]);
        let got = util::guard(|| doc.page_iter().collect::<Vec<ObjectId>>()).map_err(|e| format!("page_iter().collect::<Vec<_>>(): {}", e))?;
        if got != stepped {
            return Err(differs("page_iter().collect::<Vec<_>>()", &ids_str(&got)));
        }
        stage(FORMS[7]);
        let got = util::guard(|| {
            let mut v: Vec<ObjectId> = Vec::new();
            v.extend(doc.page_iter());
            v
        })
        .map_err(|e| format!("Vec::extend(page_iter()): {}", e))?;
        if got != stepped {
            return Err(differs("Vec::extend(page_iter())", &ids_str(&got)));
        }
        stage(FORMS[8]);
        let mut splits = vec![1usize, 2, n / 2, n.saturating_sub(1)];
        splits.retain(|k| *k >= 1 && *k <= n);
        splits.sort();
        splits.dedup();
        for k in splits {
            let got = util::guard(|| {
                let mut it = doc.page_iter();
                for _ in 0..k {
                    it.next();
                }
                it.collect::<Vec<ObjectId>>()
            })
            .map_err(|e| format!("{} x next() then collect(): {}", k, e))?;
            if got != stepped[k..] {
                return Err(format!("{} x next() then collect() gives {} but stepping with next() gave {}", k, ids_str(&got), ids_str(stepped)));
            }
        }
        stage(FORMS[9]);
        let m = util::guard(|| doc.get_pages()).map_err(|e| format!("get_pages(): {}", e))?;
        let numbered: BTreeMap<u32, ObjectId> = stepped.iter().enumerate().map(|(i, p)| (i as u32 + 1, *p)).collect();
        if m != numbered {
            return Err(format!("get_pages() is {:?} but stepping with next() gave {}", m, ids_str(stepped)));
        }
    }
    stage(FORMS[10]);
    let again = util::guard(|| {
        let mut it = doc.page_iter();
        let mut left = cap;
        while left > 0 && it.next().is_some() {
            left -= 1;
        }
        (it.next(), it.next())
    })
    .map_err(|e| format!("next() after None: {}", e))?;
    if left_some(&again) {
        return Err(format!("next() after the first None yields again: {:?} (the iterator is declared fused)", again));
    }
    Ok(())
}

fn left_some(x: &(Option<ObjectId>, Option<ObjectId>)) -> bool {
    x.0.is_some() || x.1.is_some()
}

// ---------------------------------------------------------------------------------------------
// child process: get_pages() on documents with an extreme /Count

fn doc_of_case(case: &Value) -> (Document, Option<Tree>) {
    match case["kind"].as_str() {
        Some("tree") => {
            let t = Tree::from_json(&case["tree"]);
            let mut b = build(&t, case["rev"].as_bool().unwrap_or(false));
            if !case["mutation"].is_null() {
                apply_mutation(&t, &mut b, &case["mutation"]);
            }
            if let Some(m) = case["max_id"].as_u64() {
                b.doc.max_id = m as u32;
            }
            if let Some(scheme) = case["numbering"].as_str() {
                return (shared_number_doc(&b.doc, scheme), Some(t));
            }
            (b.doc, Some(t))
        }
        Some("chain") => {
            let c = Chain::from_json(case);
            let t = c.tree();
            (build(&t, c.rev).doc, Some(t))
        }
        Some("cyc") => (build_cyc(case), None),
        _ => machinery("unknown case kind"),
    }
}

/// CPU time one case may use in a child process before the child is killed (SIGPROF). The
/// unchanged tree needs microseconds per case; CPU time rather than wall time so that a busy
/// machine cannot turn a slow case into a verdict.
const CASE_CPU_MS: i64 = 500;

fn cpu_budget(ms: i64) {
    let v = libc::itimerval { it_interval: libc::timeval { tv_sec: 0, tv_usec: 0 }, it_value: libc::timeval { tv_sec: ms / 1000, tv_usec: (ms % 1000) * 1000 } };
    unsafe {
        libc::setitimer(libc::ITIMER_PROF, &v, std::ptr::null_mut());
    }
}

/// Child process: every form of the enumeration on every case of the file, each case under a CPU
/// budget and the whole process under an address-space limit. Protocol on stdout: `B i` case i
/// begins, `S i form` that form begins, `E i result` case i is done.
fn child_main(file: &str, from: usize) -> ! {
    unsafe {
        let lim = libc::rlimit { rlim_cur: 2 << 30, rlim_max: 2 << 30 };
        libc::setrlimit(libc::RLIMIT_AS, &lim);
        // backstop in wall time for a call that blocks without using the CPU
        libc::alarm(120);
    }
    util::quiet_panics();
    let text = std::fs::read_to_string(file).unwrap_or_else(|e| machinery(&format!("child cannot read {}: {}", file, e)));
    use std::io::Write;
    let out = std::io::stdout();
    let say = |line: String| {
        let mut o = out.lock();
        let _ = writeln!(o, "{}", line);
        let _ = o.flush();
    };
    for (i, line) in text.lines().enumerate().skip(from) {
        let case: Value = serde_json::from_str(line).unwrap_or_else(|e| machinery(&format!("child: bad case line: {}", e)));
        let (doc, _) = doc_of_case(&case);
        say(format!("B {}", i));
        cpu_budget(CASE_CPU_MS);
        say(format!("S {} next()_until_None", i));
        let dummy = AtomicU64::new(0);
        let res = match check_lenient(&doc, &dummy).and_then(|got| check_forms(&doc, &got, false, true, &|form| say(format!("S {} {}", i, form))).map(|_| got)) {
            Ok(got) => format!("ok {}", got.len()),
            Err(e) => format!("bad {}", e),
        };
        cpu_budget(0);
        say(format!("E {} {}", i, res.replace('\n', " ")));
    }
    std::process::exit(0)
}

/// Run every form of the enumeration of every case in child processes; a child that dies is restarted after the
/// case it died on. Returns one outcome string per case: "ok n" | "bad .." | "died ..".
/// After `max_deaths` dead children the remaining cases are not run: their outcome is "skipped".
fn run_in_children(cases: &[Value], label: &str, max_deaths: usize) -> Vec<String> {
    let exe = std::env::current_exe().unwrap_or_else(|e| machinery(&format!("current_exe: {}", e)));
    let file = std::env::temp_dir().join(format!("c12-{}-{}.jsonl", std::process::id(), label));
    let text: String = cases.iter().map(|c| c.to_string() + "\n").collect();
    std::fs::write(&file, text).unwrap_or_else(|e| machinery(&format!("cannot write {}: {}", file.display(), e)));
    let mut res: Vec<Option<String>> = vec![None; cases.len()];
    let mut from = 0usize;
    let mut spawns = 0;
    let mut deaths = 0usize;
    while from < cases.len() {
        if deaths >= max_deaths {
            res.iter_mut().skip(from).for_each(|r| *r = Some("skipped".to_string()));
            break;
        }
        spawns += 1;
        if spawns > cases.len() + 2 {
            machinery("child restart loop");
        }
        let out = std::process::Command::new(&exe)
            .args(["--part", "child", &file.to_string_lossy(), &from.to_string()])
            .output()
            .unwrap_or_else(|e| machinery(&format!("cannot start child: {}", e)));
        let stdout = String::from_utf8_lossy(&out.stdout);
        let mut begun: Option<usize> = None;
        let mut form = String::new();
        for line in stdout.lines() {
            if let Some(r) = line.strip_prefix("B ") {
                begun = r.trim().parse().ok();
                form.clear();
            } else if let Some(r) = line.strip_prefix("S ") {
                form = r.splitn(2, ' ').nth(1).unwrap_or("").to_string();
            } else if let Some(r) = line.strip_prefix("E ") {
                let mut it = r.splitn(2, ' ');
                let i: usize = it.next().unwrap_or("").parse().unwrap_or(usize::MAX);
                if i < res.len() {
                    res[i] = Some(it.next().unwrap_or("").to_string());
                }
                begun = None;
            }
        }
        let done = res.iter().take_while(|r| r.is_some()).count();
        if out.status.success() && begun.is_none() && done == cases.len() {
            break;
        }
        match begun {
            Some(i) if i < res.len() && res[i].is_none() => {
                use std::os::unix::process::ExitStatusExt;
                let how = match (out.status.signal(), out.status.code()) {
                    (Some(s), _) if s == libc::SIGPROF => format!("signal {} = more than {} ms of CPU time in this one case, in the form {} (it did not return)", s, CASE_CPU_MS, form),
                    (Some(s), _) => format!("signal {} in the form {}", s, form),
                    (_, Some(c)) => format!("exit code {}", c),
                    _ => "unknown status".to_string(),
                };
                let err = String::from_utf8_lossy(&out.stderr);
                let err = err.trim().lines().next().unwrap_or("").to_string();
                res[i] = Some(format!("died {} {}", how, vharness::run::truncate(&err, 200)));
                from = i + 1;
                deaths += 1;
            }
            _ => machinery(&format!("child ended (status {:?}) without a case in progress; stderr: {}", out.status, String::from_utf8_lossy(&out.stderr))),
        }
    }
    let _ = std::fs::remove_file(&file);
    res.into_iter().map(|r| r.unwrap_or_else(|| machinery("child result missing"))).collect()
}

// ---------------------------------------------------------------------------------------------
// kid cycles with fan-out: a node that lists itself (or its partner, or the root) several times,
// pages before / between / after the cyclic entries, any Count on the nodes of the cycle

const CYC_COUNTS: [&str; 6] = ["absent", "0", "-1", "1", "2^62", "name"];

/// Every string over {P (a fresh page), S (the back edge)} of length 1..=max with at least one S.
fn cyc_strings(max: usize) -> Vec<String> {
    let mut out = vec![];
    for len in 1..=max {
        for mask in 0u32..(1 << len) {
            if mask != 0 {
                out.push((0..len).map(|i| if mask & (1 << i) != 0 { 'S' } else { 'P' }).collect());
            }
        }
    }
    out
}

/// catalog 1, root 2, M1 3, (M2 4), then the pages in order of first appearance.
///   form "self":   root Kids [pre x P, M1, post x P];      M1 Kids = m1 with S -> M1
///   form "mutual": root Kids [pre x P, M1, post x P];      M1 Kids = m1 with S -> M2;  M2 Kids = m2 with S -> M1
///   form "root":   root Kids [pre x P, M1, post x P];      M1 Kids = m1 with S -> root (Count variant also on the root)
/// `count` is the Count of every node on the cycle; `indirect`: their Kids arrays are separate objects.
fn build_cyc(case: &Value) -> Document {
    let form = case["form"].as_str().unwrap_or("");
    let (pre, post) = (case["pre"].as_u64().unwrap_or(0), case["post"].as_u64().unwrap_or(0));
    let (m1s, m2s) = (case["m1"].as_str().unwrap_or(""), case["m2"].as_str().unwrap_or(""));
    let count = case["count"].as_str().unwrap_or("absent");
    let indirect = case["indirect"].as_bool().unwrap_or(false);
    let (cat, root, m1, m2) = ((1u32, 0u16), (2u32, 0u16), (3u32, 0u16), (4u32, 0u16));
    let mut doc = Document::with_version("1.5");
    let mut next = if form == "mutual" { 5u32 } else { 4u32 };
    let mut fresh = |doc: &mut Document, o: Object| -> ObjectId {
        let id = (next, 0);
        next += 1;
        doc.objects.insert(id, o);
        id
    };
    let page = |parent: ObjectId| {
        let mut d = Dictionary::new();
        d.set("Type", name("Page"));
        d.set("Parent", Object::Reference(parent));
        Object::Dictionary(d)
    };
    let set_count = |d: &mut Dictionary| match count {
        "absent" => {}
        "0" => d.set("Count", Object::Integer(0)),
        "-1" => d.set("Count", Object::Integer(-1)),
        "1" => d.set("Count", Object::Integer(1)),
        "2^62" => d.set("Count", Object::Integer(1 << 62)),
        "name" => d.set("Count", name("Many")),
        _ => machinery("unknown cyc count"),
    };
    let mut c = Dictionary::new();
    c.set("Type", name("Catalog"));
    c.set("Pages", Object::Reference(root));
    doc.objects.insert(cat, Object::Dictionary(c));
    let mut n_pages = 0i64;
    // root
    let mut kids = vec![];
    for _ in 0..pre {
        kids.push(Object::Reference(fresh(&mut doc, page(root))));
        n_pages += 1;
    }
    kids.push(Object::Reference(m1));
    let post_at = kids.len();
    // cyclic nodes
    let mut node = |doc: &mut Document, me: ObjectId, parent: ObjectId, pattern: &str, back: ObjectId, n_pages: &mut i64| {
        let mut kids = vec![];
        for ch in pattern.chars() {
            if ch == 'S' {
                kids.push(Object::Reference(back));
            } else {
                kids.push(Object::Reference(fresh(doc, page(me))));
                *n_pages += 1;
            }
        }
        let mut d = Dictionary::new();
        d.set("Type", name("Pages"));
        d.set("Parent", Object::Reference(parent));
        if indirect {
            let a = fresh(doc, Object::Array(kids));
            d.set("Kids", Object::Reference(a));
        } else {
            d.set("Kids", Object::Array(kids));
        }
        set_count(&mut d);
        doc.objects.insert(me, Object::Dictionary(d));
    };
    match form {
        "self" => node(&mut doc, m1, root, m1s, m1, &mut n_pages),
        "mutual" => {
            node(&mut doc, m1, root, m1s, m2, &mut n_pages);
            node(&mut doc, m2, m1, m2s, m1, &mut n_pages);
        }
        "root" => node(&mut doc, m1, root, m1s, root, &mut n_pages),
        _ => machinery("unknown cyc form"),
    }
    let mut tail = vec![];
    for _ in 0..post {
        tail.push(Object::Reference(fresh(&mut doc, page(root))));
        n_pages += 1;
    }
    kids.splice(post_at..post_at, tail);
    let mut r = Dictionary::new();
    r.set("Type", name("Pages"));
    r.set("Kids", Object::Array(kids));
    if form == "root" {
        set_count(&mut r);
    } else {
        r.set("Count", Object::Integer(n_pages));
    }
    doc.objects.insert(root, Object::Dictionary(r));
    doc.trailer.set("Root", Object::Reference(cat));
    doc.max_id = doc.objects.keys().map(|k| k.0).max().unwrap_or(0);
    doc
}

const CYC_EXPECTED: &str = "on a kid cycle - whatever its fan-out and whatever the Counts say - every form of the enumeration (next() until None, for, size_hint() around every next(), count(), last(), nth(k), collect, Vec::extend, k x next() then collect, get_pages()) returns within the CPU budget, stepping ends within objects.len()+1 calls, every yielded id is the key of a dictionary of /Type /Page in doc.objects, and all forms agree with the step-by-step run";

/// How many children may die per group before the rest of the group is skipped (a change that
/// makes every such case spin would otherwise cost CASE_CPU_MS for each of thousands of cases).
const CYC_MAX_DEATHS: usize = 6;

fn explore_cycles(run: &Run) {
    let mut cases: Vec<Value> = vec![];
    let maxlen = if run.thorough { 5 } else { 4 };
    let mutual_len = if run.thorough { 4 } else { 3 };
    for count in CYC_COUNTS {
        for pre in 0..2 {
            for post in 0..2 {
                for indirect in [false, true] {
                    for form in ["self", "root"] {
                        for m1 in cyc_strings(maxlen) {
                            cases.push(json!({"kind": "cyc", "form": form, "pre": pre, "post": post, "m1": m1, "count": count, "indirect": indirect}));
                        }
                    }
                    for m1 in cyc_strings(mutual_len) {
                        for m2 in cyc_strings(mutual_len) {
                            cases.push(json!({"kind": "cyc", "form": "mutual", "pre": pre, "post": post, "m1": m1, "m2": m2, "count": count, "indirect": indirect}));
                        }
                    }
                }
            }
        }
    }
    // interleave so that every group holds every kind of case
    let groups_n = 16usize;
    let groups: Vec<Vec<Value>> = (0..groups_n).map(|g| cases.iter().skip(g).step_by(groups_n).cloned().collect()).collect();
    let fanout2 = cases.iter().filter(|c| c["m1"].as_str().unwrap_or("").matches('S').count() >= 2 || c["m2"].as_str().unwrap_or("").matches('S').count() >= 2).count();
    let skipped = AtomicU64::new(0);
    let yielded_some = AtomicU64::new(0);
    util::par_for(groups.len(), |g| {
        let outs = run_in_children(&groups[g], &format!("cyc{}", g), CYC_MAX_DEATHS);
        let mut ran = 0u64;
        for (case, out) in groups[g].iter().zip(outs.iter()) {
            if out == "skipped" {
                skipped.fetch_add(1, Ordering::Relaxed);
                continue;
            }
            ran += 1;
            run.nontrivial_hash(run_hash(case));
            match out.strip_prefix("ok ") {
                Some(n) => {
                    if n.trim() != "0" {
                        yielded_some.fetch_add(1, Ordering::Relaxed);
                    }
                }
                None => run.fail(None, with_doc(case.clone(), &build_cyc(case)), &format!("in a child process: {}", out), CYC_EXPECTED),
            }
        }
        // per case: the step-by-step run + 10 further forms
        run.eval(ran * (1 + FORMS.len() as u64));
        run.add("cycle_cases", ran);
    });
    run.add("cycle_cases_with_fan_out_2_or_more", fanout2 as u64);
    run.add("cycle_cases_yielding_pages", yielded_some.load(Ordering::Relaxed));
    let sk = skipped.load(Ordering::Relaxed);
    if sk > 0 {
        run.add("cycle_cases_skipped_after_dead_children", sk);
        run.cap_hit(&format!("{} kid-cycle cases not run: a group stops after {} children were killed", sk, CYC_MAX_DEATHS));
    }
    run.sample(cases[cases.len() / 3].clone());
}

// ---------------------------------------------------------------------------------------------
// /Type held behind a reference (legal: any dictionary value may be an indirect reference)

const INDTYPE: &str = "pagetree-indirect-type";

/// Move the /Type of the listed nodes into objects of their own, `hops` references away.
fn apply_indirect_type(b: &mut Built, nodes: &[usize], hops: usize) {
    for &i in nodes {
        let ty = match dict_mut(&mut b.doc, b.node[i]).get(b"Type") {
            Ok(o) => o.clone(),
            Err(_) => machinery("node without Type"),
        };
        let id = fresh_id(&mut b.doc);
        b.doc.objects.insert(id, ty);
        let head = add_chain(&mut b.doc, id, hops - 1);
        dict_mut(&mut b.doc, b.node[i]).set("Type", Object::Reference(head));
    }
}

fn indtype_nodes(t: &Tree, which: &Value) -> Vec<usize> {
    match which.as_str() {
        Some("all") => (0..t.len()).collect(),
        Some("pages_leaves") => (0..t.len()).filter(|i| t.kind[*i] == Kind::Page).collect(),
        _ => vec![which.as_u64().unwrap_or(0) as usize],
    }
}

fn run_indtype(t: &Tree, rev: bool, which: &Value, hops: usize, mc: &AtomicU64) -> Result<(), String> {
    let mut b = build(t, rev);
    let want = expected_pages(t, &b);
    apply_indirect_type(&mut b, &indtype_nodes(t, which), hops);
    check_valid(&b.doc, &want, mc)
}

/// Predicate of `pagetree-indirect-type`: the step-by-step enumeration yields exactly the leaves
/// that remain when every non-root node with an indirect /Type is skipped together with its
/// subtree (and that is not the full list), every other form agrees with that run, and the same
/// tree with direct /Type entries passes everything.
fn indtype_predicate(t: &Tree, rev: bool, which: &Value, doc: &Document) -> bool {
    let b = build(t, rev);
    let want = expected_pages(t, &b);
    let dummy = AtomicU64::new(0);
    if check_valid(&b.doc, &want, &dummy).is_err() {
        return false;
    }
    let skipped = indtype_nodes(t, which);
    fn walk(t: &Tree, i: usize, b: &Built, skipped: &[usize], out: &mut Vec<ObjectId>) {
        if i != 0 && skipped.contains(&i) {
            return;
        }
        if t.kind[i] == Kind::Page {
            out.push(b.node[i]);
        } else {
            for k in &t.kids[i] {
                walk(t, *k, b, skipped, out);
            }
        }
    }
    let mut model = vec![];
    walk(t, 0, &b, &skipped, &mut model);
    if model == want {
        return false;
    }
    match check_lenient_all(doc, &dummy, true) {
        Ok(got) => got == model,
        Err(_) => false,
    }
}

const INDTYPE_EXPECTED: &str = "a page tree whose nodes hold /Type behind a reference (`/Type 9 0 R`, 9 0 obj /Page) is the same page tree: page_iter() = depth-first left-to-right Page leaves, get_pages() = that list numbered 1..n, in every form";

fn explore_indirect_type(run: &Run, max_calls: &AtomicU64, watch: &Watch) {
    let nodes = if run.thorough { 5 } else { 4 };
    let mut work: Vec<Vec<Option<usize>>> = vec![];
    for n in (1..=nodes).rev() {
        work.extend(shapes(n));
    }
    let sampled = AtomicU64::new(0);
    util::par_for(work.len(), |w| {
        let parent = &work[w];
        let opts = options(parent);
        let mut cases = 0u64;
        for v in 0..n_variants(&opts) {
            let t = Tree::from_parents(parent, variant(&opts, v));
            let mut whichs: Vec<Value> = (0..t.len()).map(|i| json!(i)).collect();
            whichs.push(json!("all"));
            whichs.push(json!("pages_leaves"));
            for rev in [false, true] {
                for which in &whichs {
                    for hops in [1usize, 2] {
                        let case = json!({"kind": "indirect_type", "tree": t.to_json(), "rev": rev, "nodes": which, "hops": hops});
                        cases += 1;
                        run.nontrivial_hash(run_hash(&case));
                        if let Err(e) = watch.guarded(&case, || run_indtype(&t, rev, which, hops, max_calls)) {
                            let mut bb = build(&t, rev);
                            apply_indirect_type(&mut bb, &indtype_nodes(&t, which), hops);
                            let finding = if indtype_predicate(&t, rev, which, &bb.doc) { Some(INDTYPE) } else { None };
                            run.fail(finding, with_doc(case.clone(), &bb.doc), &e, INDTYPE_EXPECTED);
                        }
                        if t.len() == 3 && hops == 1 && which == "pages_leaves" && sampled.fetch_add(1, Ordering::Relaxed) < 1 {
                            run.sample(case);
                        }
                    }
                }
            }
        }
        run.eval(cases * (2 + FORMS.len() as u64));
        run.add("indirect_type_cases", cases);
    });
}

/// Predicate of `pagetree-sizehint-count`: the mutated node is a Pages node that is pending as a
/// not-yet-visited sibling when the first page has been returned (it sits to the right of a node
/// on the path from the root to the first page), and its Count exceeds the number of objects.
fn sizehint_predicate(t: &Tree, m: &Value, n_objects: usize) -> bool {
    if !is_count_extreme(m) {
        return false;
    }
    let x = m["node"].as_u64().unwrap() as usize;
    let Some(first) = (0..t.len()).find(|i| t.kind[*i] == Kind::Page) else { return false };
    // every extreme value exceeds the number of objects
    if n_objects as u64 >= 1_000_000_000_000 {
        return false;
    }
    let mut y = first;
    while let Some(p) = t.parent[y] {
        let sibs = &t.kids[p];
        let at = sibs.iter().position(|s| *s == y).unwrap();
        if sibs[at + 1..].contains(&x) {
            return true;
        }
        y = p;
    }
    false
}

// ---------------------------------------------------------------------------------------------

fn tree_case(t: &Tree, rev: bool, m: Option<&Value>) -> Value {
    json!({"kind": "tree", "tree": t.to_json(), "rev": rev, "mutation": m})
}

fn with_doc(mut case: Value, doc: &Document) -> Value {
    if doc.objects.len() <= 40 {
        case["zz_doc_for_reading"] = doc_to_json(doc);
    }
    case
}

struct Bounds {
    valid_nodes: usize,
    mutated_nodes: usize,
}

fn explore_valid(run: &Run, b: &Bounds, max_calls: &AtomicU64, watch: &Watch) {
    let mut work: Vec<Vec<Option<usize>>> = vec![];
    let mut per_size = vec![];
    for n in (1..=b.valid_nodes).rev() {
        let s = shapes(n);
        per_size.push(json!([n, s.len()]));
        work.extend(s);
    }
    run.set("tree_shapes_by_nodes", json!(per_size));
    let sampled = AtomicU64::new(0);
    util::par_for(work.len(), |w| {
        let parent = &work[w];
        let opts = options(parent);
        let nv = n_variants(&opts);
        let (mut cases, mut nontrivial) = (0u64, Vec::<u64>::new());
        let mut stale = 0u64;
        let mut shared = 0u64;
        for v in 0..nv {
            let t = Tree::from_parents(parent, variant(&opts, v));
            for rev in [false, true] {
                let b = build(&t, rev);
                let want = expected_pages(&t, &b);
                cases += 1;
                if t.has_intermediate() {
                    nontrivial.push(vharness::cmp::digest_doc(&b.doc));
                }
                let case = tree_case(&t, rev, None);
                if let Err(e) = watch.guarded(&case, || check_valid(&b.doc, &want, max_calls)) {
                    run.fail(None, with_doc(case, &b.doc), &e, "page_iter() = depth-first left-to-right Page leaves; get_pages() = that list numbered 1..n");
                }
                // the same document under one stale max_id (the four values in rotation over the typings)
                let m = stale_values(&b.doc)[v % 4];
                let mut d = b.doc.clone();
                d.max_id = m;
                let mut case = tree_case(&t, rev, None);
                case["max_id"] = json!(m);
                stale += 1;
                if let Err(e) = watch.guarded(&case, || check_valid_basic(&d, &want, max_calls)) {
                    run.fail(None, with_doc(case, &d), &format!("max_id = {}: {}", m, e), STALE_EXPECTED);
                }
                // the same document under numberings in which several objects share an object NUMBER
                // and differ in generation only (every scheme: stepping + get_pages(); one of them,
                // in rotation over the typings, through every form)
                for (si, scheme) in SHARED_NUMBERINGS.iter().enumerate() {
                    let d = shared_number_doc(&b.doc, scheme);
                    let want_s: Vec<ObjectId> = want.iter().map(|p| shared_number_id(scheme, *p)).collect();
                    let mut case = tree_case(&t, rev, None);
                    case["numbering"] = json!(scheme);
                    shared += 1;
                    if t.has_intermediate() {
                        nontrivial.push(vharness::cmp::digest_doc(&d));
                    }
                    let all_forms = (v + si) % SHARED_NUMBERINGS.len() == 0;
                    if let Err(e) = watch.guarded(&case, || if all_forms { check_valid(&d, &want_s, max_calls) } else { check_valid_basic(&d, &want_s, max_calls) }) {
                        run.fail(None, with_doc(case, &d), &format!("numbering {}: {}", scheme, e), SHARED_EXPECTED);
                    }
                }
                if t.len() >= 6 && rev && want.len() >= 3 && t.kind.iter().filter(|k| **k == Kind::PagesInd).count() == 1 && t.has_intermediate() && v > nv / 2
                    && sampled.fetch_add(1, Ordering::Relaxed) < 2
                {
                    run.sample(json!({"case": with_doc(tree_case(&t, rev, None), &b.doc), "expected_pages": want.iter().map(|p| p.0).collect::<Vec<_>>()}));
                }
            }
        }
        run.eval(cases * 2 + stale * 2 + shared * 2);
        nontrivial.iter().for_each(|h| run.nontrivial_hash(*h));
        run.add("valid", cases);
        run.add("valid_with_stale_max_id", stale);
        run.add("valid_with_shared_object_numbers", shared);
    });
}

/// Numberings of a document built by `build` (numbers 1..total, generation 0; j = number - 1) in
/// which objects share an object NUMBER and differ in generation only - legal keys of the public
/// `objects` map of an in-memory document:
/// "one_number": every object is (20, j) - catalog, root, every Pages node, every page and every
/// Kids array object share number 20;
/// "pairs": (20 + j/2, j%2) - neighbours in number order share a number (ascending ids: catalog
/// and root, then node 1 and node 2, ..);
/// "pairs_odd": (20 + (j+1)/2, (j+1)%2) - the other pairing (ascending ids: root and its first
/// kid, ..);
/// "gen_high": (20 + j/3, [0, 1, 65535][j%3]) - triples, the third with the highest generation.
const SHARED_NUMBERINGS: [&str; 4] = ["one_number", "pairs", "pairs_odd", "gen_high"];

const SHARED_EXPECTED: &str = "an ObjectId is the pair (number, generation) and Document::objects is keyed by the pair: in an in-memory document (20, 0) and (20, 1) are two different objects, each of which may be a Pages node or a page of one well-formed tree. page_iter() = depth-first left-to-right Page leaves; get_pages() = that list numbered 1..n";

fn shared_number_id(scheme: &str, id: ObjectId) -> ObjectId {
    let j = id.0.saturating_sub(1);
    match scheme {
        "one_number" => (20, j as u16),
        "pairs" => (20 + j / 2, (j % 2) as u16),
        "pairs_odd" => (20 + (j + 1) / 2, ((j + 1) % 2) as u16),
        "gen_high" => (20 + j / 3, [0u16, 1, 65535][(j % 3) as usize]),
        _ => machinery("unknown shared-number numbering"),
    }
}

fn shared_number_doc(doc: &Document, scheme: &str) -> Document {
    let mut d = renumbered(doc, &|id| shared_number_id(scheme, id));
    d.max_id = d.objects.keys().map(|k| k.0).max().unwrap_or(0);
    d
}

/// Stale values of max_id for a document: 0, 1, highest number - 1, highest number + 100.
fn stale_values(doc: &Document) -> Vec<u32> {
    let hi = doc.objects.keys().map(|k| k.0).max().unwrap_or(1);
    vec![0, 1, hi - 1, hi + 100]
}

fn explore_chains(run: &Run, max_calls: &AtomicU64, watch: &Watch) {
    let mut chains = vec![];
    for depth in [255usize, 256, 257, 300] {
        for siblings in ["none", "after", "before"] {
            for indirect in [false, true] {
                for rev in [false, true] {
                    chains.push(Chain { depth, siblings: siblings.to_string(), indirect, rev });
                }
            }
        }
    }
    let beyond = Mutex::new(vec![]);
    util::par_for(chains.len(), |i| {
        let c = &chains[i];
        let t = c.tree();
        let b = build(&t, c.rev);
        let want = expected_pages(&t, &b);
        run.eval(2);
        run.nontrivial(1);
        if c.max_pending() <= LIMIT {
            run.add("chains_exact", 1);
            if let Err(e) = watch.guarded(&c.to_json(), || check_valid(&b.doc, &want, max_calls)) {
                run.fail(None, c.to_json(), &e, "page_iter() = depth-first left-to-right Page leaves; get_pages() numbered 1..n (at most 256 sibling lists pending)");
            }
            // the same tree under a stale max_id
            for m in stale_values(&b.doc) {
                let mut d = b.doc.clone();
                d.max_id = m;
                let mut case = c.to_json();
                case["max_id"] = json!(m);
                run.eval(2);
                run.add("chains_and_wide_trees_with_stale_max_id", 1);
                if let Err(e) = watch.guarded(&case, || check_valid_basic(&d, &want, max_calls)) {
                    run.fail(None, case, &format!("max_id = {}: {}", m, e), STALE_EXPECTED);
                }
            }
        } else {
            // more pending sibling lists than the documented limit: termination and type safety only
            run.add("chains_beyond_limit", 1);
            match watch.guarded(&c.to_json(), || check_lenient_all(&b.doc, max_calls, true).and_then(|got| check_get_pages_lenient(&b.doc).map(|_| got))) {
                Ok(got) => beyond.lock().unwrap().push(json!({"chain": c.to_json(), "pages_in_tree": want.len(), "pages_yielded": got.len()})),
                Err(e) => run.fail(None, c.to_json(), &e, "terminates within objects.len()+1 calls and yields only page objects"),
            }
        }
    });
    let mut v = beyond.into_inner().unwrap();
    v.sort_by_key(|x| x.to_string());
    v.truncate(4);
    run.set("beyond_limit_observed", json!(v));
    run.sample(chains[13].to_json());
}

// ---------------------------------------------------------------------------------------------
// wide trees: many kids per node

/// "flat": the root holds `width` pages; "two_level": the root holds ceil(sqrt(width)) Pages nodes
/// that share `width` pages, each followed by one page of the root; "mixed": pages and empty
/// Pages nodes alternate under the root.
fn wide_tree(form: &str, width: usize, indirect: bool) -> Tree {
    let pk = if indirect { Kind::PagesInd } else { Kind::Pages };
    let mut parent: Vec<Option<usize>> = vec![None];
    let mut kind = vec![pk];
    match form {
        "flat" => {
            for _ in 0..width {
                parent.push(Some(0));
                kind.push(Kind::Page);
            }
        }
        "two_level" => {
            let groups = (width as f64).sqrt().ceil() as usize;
            let mut left = width;
            for g in 0..groups {
                let take = left.div_ceil(groups - g);
                left -= take;
                parent.push(Some(0));
                kind.push(pk);
                let me = parent.len() - 1;
                for _ in 0..take {
                    parent.push(Some(me));
                    kind.push(Kind::Page);
                }
                parent.push(Some(0));
                kind.push(Kind::Page);
            }
        }
        "mixed" => {
            for i in 0..width {
                parent.push(Some(0));
                kind.push(if i % 2 == 0 { Kind::Page } else { pk });
            }
        }
        _ => machinery("unknown wide form"),
    }
    Tree::from_parents(&parent, kind)
}

/// A complete tree: the root holds dims[0] kids, every node of level i holds dims[i] kids, the
/// kids of the last level are pages. Nodes in preorder.
fn level_tree(dims: &[usize], indirect: bool) -> Tree {
    fn rec(me: usize, level: usize, dims: &[usize], pk: Kind, parent: &mut Vec<Option<usize>>, kind: &mut Vec<Kind>) {
        for _ in 0..dims[level] {
            parent.push(Some(me));
            if level + 1 == dims.len() {
                kind.push(Kind::Page);
            } else {
                kind.push(pk);
                let id = parent.len() - 1;
                rec(id, level + 1, dims, pk, parent, kind);
            }
        }
    }
    if dims.is_empty() || dims.len() > 8 {
        machinery("level tree: 1..8 levels");
    }
    let pk = if indirect { Kind::PagesInd } else { Kind::Pages };
    let mut parent: Vec<Option<usize>> = vec![None];
    let mut kind = vec![pk];
    rec(0, 0, dims, pk, &mut parent, &mut kind);
    Tree::from_parents(&parent, kind)
}

fn dims_of(case: &Value) -> Vec<usize> {
    case["dims"].as_array().map(|a| a.iter().map(|x| x.as_u64().unwrap_or(1) as usize).collect()).unwrap_or_default()
}

/// A failure text about a tree of tens of thousands of pages stays readable.
fn clip(e: String) -> String {
    if e.len() > 700 {
        let mut cut = 700;
        while !e.is_char_boundary(cut) {
            cut -= 1;
        }
        format!("{} ... ({} characters)", &e[..cut], e.len())
    } else {
        e
    }
}

const LEVELS_EXPECTED: &str = "a well-formed tree is enumerated completely however many nodes it has: page_iter() = all depth-first left-to-right Page leaves, get_pages() = that list numbered 1..n, count() = n, in every form";

/// Well-formed trees with more than 2^16 nodes below the root (and flat ones around 2^16 kids):
/// built once per case from the generator parameters, which are all the replay stores.
fn explore_levels(run: &Run, max_calls: &AtomicU64, watch: &Watch) {
    let mut dims: Vec<Vec<usize>> = vec![vec![70_000], vec![65_536], vec![65_537], vec![280, 250], vec![41, 41, 41], vec![2, 3, 5, 7, 11, 31]];
    if run.thorough {
        dims.extend([vec![200_000], vec![131_073], vec![65_535], vec![600, 400], vec![250, 280], vec![2, 70_000], vec![70_000, 1], vec![60, 60, 60], vec![17, 17, 17, 17], vec![4; 8]]);
    }
    let mut work = vec![];
    for d in &dims {
        for indirect in [false, true] {
            for rev in [false, true] {
                // quick: the two flat trees right at 2^16 kids only as (direct, ascending) and (indirect, reversed)
                if !run.thorough && (d == &[65_536] || d == &[65_537]) && indirect != rev {
                    continue;
                }
                work.push((d.clone(), indirect, rev));
            }
        }
    }
    let sizes = Mutex::new(vec![]);
    util::par_for(work.len(), |i| {
        let (d, indirect, rev) = &work[i];
        let t = level_tree(d, *indirect);
        let b = build(&t, *rev);
        let want = expected_pages(&t, &b);
        let case = json!({"kind": "levels", "dims": d, "indirect": indirect, "rev": rev});
        run.eval(2);
        run.nontrivial(1);
        run.add("level_trees", 1);
        if !*indirect && !*rev {
            sizes.lock().unwrap().push(json!({"dims": d, "nodes_below_root": t.len() - 1, "pages": want.len(), "objects": b.doc.objects.len()}));
        }
        if let Err(e) = watch.guarded(&case, || check_valid(&b.doc, &want, max_calls)) {
            run.fail(None, case.clone(), &clip(e), LEVELS_EXPECTED);
        }
        // the same tree with max_id 0 (stepping + get_pages())
        let mut b = b;
        b.doc.max_id = 0;
        let mut case = case.clone();
        case["max_id"] = json!(0);
        run.eval(2);
        if let Err(e) = watch.guarded(&case, || check_valid_basic(&b.doc, &want, max_calls)) {
            run.fail(None, case, &clip(format!("max_id = 0: {}", e)), LEVELS_EXPECTED);
        }
    });
    let mut v = sizes.into_inner().unwrap();
    v.sort_by_key(|x| x["objects"].as_u64());
    run.set("level_tree_sizes", json!(v));
    run.sample(json!({"kind": "levels", "dims": [41, 41, 41], "indirect": true, "rev": true}));
}

fn explore_wide(run: &Run, max_calls: &AtomicU64, watch: &Watch) {
    let mut widths = vec![255usize, 256, 257, 1000];
    if run.thorough {
        widths.extend([1023, 1024, 1025, 4096, 20000]);
    }
    let mut work = vec![];
    for &w in &widths {
        for form in ["flat", "two_level", "mixed"] {
            for indirect in [false, true] {
                for rev in [false, true] {
                    work.push((form, w, indirect, rev));
                }
            }
        }
    }
    util::par_for(work.len(), |i| {
        let (form, w, indirect, rev) = work[i];
        let t = wide_tree(form, w, indirect);
        let b = build(&t, rev);
        let want = expected_pages(&t, &b);
        let case = json!({"kind": "wide", "form": form, "width": w, "indirect": indirect, "rev": rev});
        run.eval(2);
        run.nontrivial(1);
        run.add("wide_trees", 1);
        if let Err(e) = watch.guarded(&case, || check_valid(&b.doc, &want, max_calls)) {
            run.fail(None, case.clone(), &e, "page_iter() = depth-first left-to-right Page leaves; get_pages() = that list numbered 1..n");
        }
        for m in stale_values(&b.doc) {
            let mut d = b.doc.clone();
            d.max_id = m;
            let mut case = case.clone();
            case["max_id"] = json!(m);
            run.eval(2);
            run.add("chains_and_wide_trees_with_stale_max_id", 1);
            if let Err(e) = watch.guarded(&case, || check_valid_basic(&d, &want, max_calls)) {
                run.fail(None, case, &format!("max_id = {}: {}", m, e), STALE_EXPECTED);
            }
        }
    });
}

// ---------------------------------------------------------------------------------------------
// document-level reference model: reads the public `objects` / `trailer` maps only (none of
// lopdf's lookup helpers), so it can describe a document after any edit

/// the documented number of reference hops lopdf follows (Document::DEREF_LIMIT)
const DEREF: usize = 128;

/// Follow objects that are bare references, at most DEREF hops. Returns the last id and the value.
fn resolve<'a>(doc: &'a Document, mut o: &'a Object) -> Result<(Option<ObjectId>, &'a Object), String> {
    let mut id = None;
    let mut hops = 0usize;
    while let Object::Reference(r) = o {
        hops += 1;
        if hops > DEREF {
            return Err(format!("more than {} reference hops", DEREF));
        }
        o = doc.objects.get(r).ok_or_else(|| format!("reference {} {} R to a missing object", r.0, r.1))?;
        id = Some(*r);
    }
    Ok((id, o))
}

/// An entry naming an object (a kid, the catalog's Pages, the trailer's Root): the named object is
/// looked up, and if it is itself a bare reference up to DEREF further hops are followed - the
/// way Document::get_object counts. Returns the id of the final object and its value.
fn resolve_entry<'a>(doc: &'a Document, entry: &'a Object) -> Result<(ObjectId, &'a Object), String> {
    let Object::Reference(r) = entry else { return Err("entry that is not a reference".into()) };
    let o = doc.objects.get(r).ok_or_else(|| format!("reference {} {} R to a missing object", r.0, r.1))?;
    let (id, v) = resolve(doc, o)?;
    Ok((id.unwrap_or(*r), v))
}

/// The id a yielded id stands for: the object itself, or the end of the chain of bare references stored under it.
fn resolve_id(doc: &Document, id: ObjectId) -> ObjectId {
    match doc.objects.get(&id) {
        Some(o @ Object::Reference(_)) => resolve(doc, o).ok().and_then(|r| r.0).unwrap_or(id),
        _ => id,
    }
}

/// Leaf pages of the document's page tree, depth-first, left to right (ids of the Page
/// dictionaries). Err = the tree is not well-formed in the sense of the valid families.
fn model_pages(doc: &Document) -> Result<Vec<ObjectId>, String> {
    fn walk(doc: &Document, entry: &Object, out: &mut Vec<ObjectId>, depth: usize) -> Result<(), String> {
        if depth > 2000 {
            return Err("page tree deeper than 2000 levels (cycle?)".into());
        }
        let (id, node) = resolve_entry(doc, entry)?;
        let Object::Dictionary(d) = node else { return Err("page tree node that is not a dictionary".into()) };
        // the value of Type may sit behind references like any other value
        let ty = d.get(b"Type").map_err(|_| "page tree node without Type".to_string()).and_then(|o| resolve(doc, o)).map(|r| r.1);
        match ty {
            Ok(Object::Name(n)) if n == b"Page" => {
                out.push(id);
                Ok(())
            }
            Ok(Object::Name(n)) if n == b"Pages" => {
                let kids = d.get(b"Kids").map_err(|_| "Pages node without Kids".to_string())?;
                let (_, arr) = resolve(doc, kids)?;
                let Object::Array(a) = arr else { return Err("Kids is not an array".into()) };
                for k in a {
                    walk(doc, k, out, depth + 1)?;
                }
                Ok(())
            }
            _ => Err("page tree node without Type Page / Pages".into()),
        }
    }
    let root = doc.trailer.get(b"Root").map_err(|_| "trailer without Root".to_string())?;
    let (_, cat) = resolve_entry(doc, root)?;
    let Object::Dictionary(cat) = cat else { return Err("catalog is not a dictionary".into()) };
    let pages = cat.get(b"Pages").map_err(|_| "catalog without Pages".to_string())?;
    let mut out = vec![];
    walk(doc, pages, &mut out, 0)?;
    Ok(out)
}

/// A document assembled from scratch out of the same objects and trailer (no history).
fn fresh_copy(doc: &Document) -> Document {
    let mut f = Document::with_version("1.5");
    for (id, o) in &doc.objects {
        f.objects.insert(*id, o.clone());
    }
    for (k, v) in doc.trailer.iter() {
        f.trailer.set(k.clone(), v.clone());
    }
    f.max_id = doc.max_id;
    f
}

/// check_valid on `doc` plus agreement of get_pages() with a history-free copy of the same document.
fn check_now(doc: &Document, want: &[ObjectId], what: &str, max_calls: &AtomicU64) -> Result<(), String> {
    check_valid_basic(doc, want, max_calls).map_err(|e| format!("{}: {}", what, e))?;
    let fresh = fresh_copy(doc);
    let (a, b) = (util::guard(|| doc.get_pages()), util::guard(|| fresh.get_pages()));
    if a != b {
        return Err(format!("{}: get_pages() is {:?} but a document assembled from the same objects and trailer gives {:?}", what, a, b));
    }
    Ok(())
}

// ---------------------------------------------------------------------------------------------
// history family: the SAME Document value is enumerated, edited through its public fields, and
// enumerated again

struct Spec {
    t: Tree,
    rev: bool,
    b: Built,
    want: Vec<ObjectId>,
}

fn all_specs(max_nodes: usize) -> Vec<Spec> {
    let mut out = vec![];
    for n in 1..=max_nodes {
        for parent in shapes(n) {
            let opts = options(&parent);
            for v in 0..n_variants(&opts) {
                let t = Tree::from_parents(&parent, variant(&opts, v));
                for rev in [false, true] {
                    let b = build(&t, rev);
                    let want = expected_pages(&t, &b);
                    out.push(Spec { t: t.clone(), rev, b, want });
                }
            }
        }
    }
    out
}

/// Turn `doc` into `target` entry by entry through the public fields.
fn morph_entrywise(doc: &mut Document, target: &Document) {
    let gone: Vec<ObjectId> = doc.objects.keys().filter(|k| !target.objects.contains_key(k)).cloned().collect();
    for id in gone {
        doc.objects.remove(&id);
    }
    for (id, o) in &target.objects {
        match doc.objects.get_mut(id) {
            Some(slot) => *slot = o.clone(),
            None => {
                doc.objects.insert(*id, o.clone());
            }
        }
    }
    for (k, v) in target.trailer.iter() {
        doc.trailer.set(k.clone(), v.clone());
    }
    doc.max_id = target.max_id;
}

/// Turn `doc` into `target` by assigning the public fields wholesale.
fn morph_assign(doc: &mut Document, target: &Document) {
    doc.objects = target.objects.clone();
    doc.trailer = target.trailer.clone();
    doc.max_id = target.max_id;
}

/// Turn `doc` into `target` with the document's own mutating methods where one exists.
fn morph_methods(doc: &mut Document, target: &Document) {
    let gone: Vec<ObjectId> = doc.objects.keys().filter(|k| !target.objects.contains_key(k)).cloned().collect();
    for id in gone {
        doc.delete_object(id);
    }
    for (id, o) in &target.objects {
        doc.set_object(*id, o.clone());
    }
    for (k, v) in target.trailer.iter() {
        doc.trailer.set(k.clone(), v.clone());
    }
    doc.max_id = target.max_id;
}

const HISTORY_MODES: [&str; 8] = ["entrywise", "assign", "iter_only_before", "clone_then_edit_clone", "edit_then_clone", "there_and_back", "methods_then_fields", "get_pages_twice_then_edit"];

fn run_history(a: &Spec, b: &Spec, mode: &str, mc: &AtomicU64) -> Result<(), String> {
    let (da, db) = (&a.b.doc, &b.b.doc);
    let mut doc = da.clone();
    let before = "tree A before any edit";
    let after = "after doc.objects / doc.trailer were edited into tree B";
    match mode {
        "entrywise" => {
            check_now(&doc, &a.want, before, mc)?;
            morph_entrywise(&mut doc, db);
            check_now(&doc, &b.want, after, mc)
        }
        "assign" => {
            check_now(&doc, &a.want, before, mc)?;
            morph_assign(&mut doc, db);
            check_now(&doc, &b.want, after, mc)
        }
        "iter_only_before" => {
            let d = drive(&doc)?;
            if d.yielded != a.want {
                return Err(format!("{}: page_iter yields {}", before, ids_str(&d.yielded)));
            }
            morph_entrywise(&mut doc, db);
            check_now(&doc, &b.want, after, mc)
        }
        "clone_then_edit_clone" => {
            check_now(&doc, &a.want, before, mc)?;
            let mut c = doc.clone();
            morph_entrywise(&mut c, db);
            check_now(&c, &b.want, "clone of the enumerated document, edited into tree B", mc)?;
            check_now(&doc, &a.want, "the original after its clone was edited", mc)
        }
        "edit_then_clone" => {
            check_now(&doc, &a.want, before, mc)?;
            morph_entrywise(&mut doc, db);
            let c = doc.clone();
            check_now(&c, &b.want, "clone taken after the edit into tree B", mc)?;
            check_now(&doc, &b.want, after, mc)
        }
        "there_and_back" => {
            check_now(&doc, &a.want, before, mc)?;
            morph_entrywise(&mut doc, db);
            check_now(&doc, &b.want, after, mc)?;
            morph_assign(&mut doc, da);
            check_now(&doc, &a.want, "after editing back into tree A", mc)
        }
        "methods_then_fields" => {
            check_now(&doc, &a.want, before, mc)?;
            morph_methods(&mut doc, db);
            check_now(&doc, &b.want, "after delete_object / set_object turned the document into tree B", mc)?;
            morph_entrywise(&mut doc, da);
            check_now(&doc, &a.want, "after doc.objects / doc.trailer were edited back into tree A", mc)
        }
        "get_pages_twice_then_edit" => {
            let first = util::guard(|| doc.get_pages())?;
            let second = util::guard(|| doc.get_pages())?;
            if first != second {
                return Err(format!("two get_pages() calls on the unchanged document differ: {:?} vs {:?}", first, second));
            }
            morph_assign(&mut doc, db);
            check_now(&doc, &b.want, after, mc)
        }
        _ => machinery("unknown history mode"),
    }
}

fn history_case(a: &Spec, b: &Spec, mode: &str) -> Value {
    json!({"kind": "history", "a": a.t.to_json(), "a_rev": a.rev, "b": b.t.to_json(), "b_rev": b.rev, "mode": mode})
}

const HISTORY_EXPECTED: &str = "every enumeration describes the page tree the document has at that moment: page_iter() = depth-first left-to-right Page leaves, get_pages() = that list numbered 1..n, equal to what a document assembled from the same objects gives";

fn explore_history(run: &Run, max_calls: &AtomicU64, watch: &Watch) {
    // all ordered pairs with every mode up to `full`; up to `wide` with the first two modes only
    let (full, wide) = if run.thorough { (4, 5) } else { (3, 4) };
    let specs = all_specs(wide);
    let n_full = all_specs(full).len();
    run.set("history_trees", json!({"all_modes_nodes": full, "all_modes_documents": n_full, "two_modes_nodes": wide, "two_modes_documents": specs.len()}));
    let sampled = AtomicU64::new(0);
    util::par_for(specs.len(), |i| {
        let a = &specs[i];
        let (mut seqs, mut nontrivial) = (0u64, 0u64);
        for (j, b) in specs.iter().enumerate() {
            let modes: &[&str] = if i < n_full && j < n_full { &HISTORY_MODES } else { &HISTORY_MODES[..2] };
            let case0 = history_case(a, b, "(any)");
            watch.guarded(&case0, || {
                for mode in modes {
                    seqs += 1;
                    if a.want != b.want {
                        nontrivial += 1;
                    }
                    if let Err(e) = run_history(a, b, mode, max_calls) {
                        run.fail(None, with_doc(history_case(a, b, mode), &b.b.doc), &e, HISTORY_EXPECTED);
                    }
                }
            });
            if a.t.len() == 4 && b.t.len() == 4 && a.want.len() == 2 && b.want.len() == 3 && a.rev && !b.rev && sampled.fetch_add(1, Ordering::Relaxed) < 1 {
                run.sample(history_case(a, b, "there_and_back"));
            }
        }
        run.eval(seqs * 4);
        run.nontrivial(nontrivial);
        run.add("history_sequences", seqs);
        run.add_traces(seqs);
    });
}

// --- single edits of one document through the public fields ------------------------------------

fn fresh_id(doc: &mut Document) -> ObjectId {
    doc.max_id += 1;
    (doc.max_id, 0)
}

/// Every single edit of a valid tree that leaves a valid tree, as descriptors.
fn edits(t: &Tree) -> Vec<Value> {
    let mut out = vec![];
    let n = t.len();
    let in_subtree = |x: usize, root: usize| x == root || t.ancestors(x).contains(&root);
    for i in (0..n).filter(|i| t.is_pages(*i)) {
        let l = t.kids[i].len();
        for pos in 0..=l {
            out.push(json!({"e": "add_page", "node": i, "pos": pos}));
        }
        for pos in 0..l {
            out.push(json!({"e": "remove_kid", "node": i, "pos": pos}));
            for j in (0..n).filter(|j| t.is_pages(*j) && !in_subtree(*j, t.kids[i][pos])) {
                if j == i && pos + 1 == l {
                    continue; // moving the last kid to the end changes nothing
                }
                out.push(json!({"e": "move_kid", "node": i, "pos": pos, "to": j}));
            }
        }
        if l >= 2 {
            out.push(json!({"e": "reverse_kids", "node": i}));
        }
        if i >= 1 {
            out.push(json!({"e": "catalog_pages_to", "node": i}));
        }
        out.push(json!({"e": "new_catalog_for", "node": i}));
    }
    out
}

/// Set every reachable Pages node's Count to its number of leaf pages (public fields only).
fn fix_counts(doc: &mut Document, id: ObjectId, depth: usize) -> i64 {
    if depth > 64 {
        machinery("fix_counts: tree too deep");
    }
    let (is_page, kids): (bool, Vec<ObjectId>) = match doc.objects.get(&id) {
        Some(Object::Dictionary(d)) => {
            let is_page = matches!(d.get(b"Type"), Ok(Object::Name(n)) if n == b"Page");
            let kids = match d.get(b"Kids") {
                Ok(Object::Array(a)) => a.clone(),
                Ok(Object::Reference(r)) => match doc.objects.get(r) {
                    Some(Object::Array(a)) => a.clone(),
                    _ => vec![],
                },
                _ => vec![],
            };
            (is_page, kids.iter().filter_map(|k| k.as_reference().ok()).collect())
        }
        _ => machinery("fix_counts: node is not a dictionary"),
    };
    if is_page {
        return 1;
    }
    let c: i64 = kids.iter().map(|k| fix_counts(doc, *k, depth + 1)).sum();
    dict_mut(doc, id).set("Count", Object::Integer(c));
    c
}

fn apply_edit(t: &Tree, b: &mut Built, e: &Value) {
    let i = e["node"].as_u64().unwrap() as usize;
    let pos = e["pos"].as_u64().map(|x| x as usize);
    let mut new_root = b.node[0];
    match e["e"].as_str().unwrap_or("") {
        "add_page" => {
            let id = fresh_id(&mut b.doc);
            let mut d = Dictionary::new();
            d.set("Type", name("Page"));
            d.set("Parent", Object::Reference(b.node[i]));
            b.doc.objects.insert(id, Object::Dictionary(d));
            kids_mut(b, i).insert(pos.unwrap(), Object::Reference(id));
        }
        "remove_kid" => {
            let kid = t.kids[i][pos.unwrap()];
            kids_mut(b, i).remove(pos.unwrap());
            if t.kids[kid].is_empty() {
                b.doc.objects.remove(&b.node[kid]);
                if let Some(a) = b.arr[kid] {
                    b.doc.objects.remove(&a);
                }
            }
        }
        "move_kid" => {
            let to = e["to"].as_u64().unwrap() as usize;
            let kid = t.kids[i][pos.unwrap()];
            let entry = kids_mut(b, i).remove(pos.unwrap());
            kids_mut(b, to).push(entry);
            let parent = Object::Reference(b.node[to]);
            dict_mut(&mut b.doc, b.node[kid]).set("Parent", parent);
        }
        "reverse_kids" => kids_mut(b, i).reverse(),
        "catalog_pages_to" => {
            let target = Object::Reference(b.node[i]);
            dict_mut(&mut b.doc, b.cat).set("Pages", target);
            dict_mut(&mut b.doc, b.node[i]).remove(b"Parent");
            new_root = b.node[i];
        }
        "new_catalog_for" => {
            let id = fresh_id(&mut b.doc);
            let mut c = Dictionary::new();
            c.set("Type", name("Catalog"));
            c.set("Pages", Object::Reference(b.node[i]));
            b.doc.objects.insert(id, Object::Dictionary(c));
            b.doc.trailer.set("Root", Object::Reference(id));
            dict_mut(&mut b.doc, b.node[i]).remove(b"Parent");
            new_root = b.node[i];
        }
        _ => machinery("unknown edit"),
    }
    fix_counts(&mut b.doc, new_root, 0);
}

const EDIT_MODES: [&str; 3] = ["in_place", "edit_a_clone", "iter_only_before"];

fn run_edit(t: &Tree, rev: bool, e: &Value, mode: &str, mc: &AtomicU64) -> Result<(), String> {
    let mut b = build(t, rev);
    let want_a = expected_pages(t, &b);
    match model_pages(&b.doc) {
        Ok(m) if m == want_a => {}
        other => machinery(&format!("document-level model {:?} disagrees with the tree-level model {:?}", other, want_a)),
    }
    let original = if mode == "edit_a_clone" {
        check_now(&b.doc, &want_a, "before the edit", mc)?;
        let c = b.doc.clone();
        Some(std::mem::replace(&mut b.doc, c))
    } else if mode == "iter_only_before" {
        let d = drive(&b.doc)?;
        if d.yielded != want_a {
            return Err(format!("before the edit: page_iter yields {}", ids_str(&d.yielded)));
        }
        None
    } else {
        check_now(&b.doc, &want_a, "before the edit", mc)?;
        None
    };
    apply_edit(t, &mut b, e);
    let want_b = model_pages(&b.doc).unwrap_or_else(|m| machinery(&format!("edit {} left a tree the model rejects: {}", e, m)));
    check_now(&b.doc, &want_b, "after the edit through doc.objects / doc.trailer", mc)?;
    if let Some(o) = original {
        check_now(&o, &want_a, "the original after its clone was edited", mc)?;
    }
    Ok(())
}

fn edit_case(t: &Tree, rev: bool, e: &Value, mode: &str) -> Value {
    json!({"kind": "edit", "tree": t.to_json(), "rev": rev, "edit": e, "mode": mode})
}

// --- mutating methods after an enumeration ------------------------------------------------------

const METHOD_OPS: [&str; 16] = [
    "renumber_objects", "renumber_objects_with_7", "renumber_twice", "delete_pages_first", "delete_pages_last", "delete_pages_all", "delete_object_first_page",
    "prune_objects", "add_object", "new_object_id", "compress", "set_object_reversed_root_kids", "get_object_mut_reversed_root_kids",
    "clone_only", "add_page_by_methods", "renumber_then_field_edit",
];

fn reversed_root_kids(b: &Built) -> (ObjectId, Object) {
    match b.arr[0] {
        Some(a) => match b.doc.objects.get(&a) {
            Some(Object::Array(v)) => (a, Object::Array(v.iter().rev().cloned().collect())),
            _ => machinery("indirect root Kids missing"),
        },
        None => match b.doc.objects.get(&b.node[0]) {
            Some(Object::Dictionary(d)) => {
                let mut d = d.clone();
                if let Ok(Object::Array(v)) = d.get_mut(b"Kids") {
                    v.reverse();
                }
                (b.node[0], Object::Dictionary(d))
            }
            _ => machinery("root missing"),
        },
    }
}

fn run_method(t: &Tree, rev: bool, op: &str, mc: &AtomicU64) -> Result<(), String> {
    let mut b = build(t, rev);
    let want_a = expected_pages(t, &b);
    check_now(&b.doc, &want_a, "before the call", mc)?;
    let n_pages = want_a.len() as u32;
    let doc = &mut b.doc;
    let mut same_count = None;
    let r = util::guard(|| match op {
        "renumber_objects" => {
            doc.renumber_objects();
            same_count = Some(n_pages);
        }
        "renumber_objects_with_7" => {
            doc.renumber_objects_with(7);
            same_count = Some(n_pages);
        }
        "renumber_twice" => {
            doc.renumber_objects_with(20);
            let _ = doc.get_pages();
            doc.renumber_objects_with(2);
            same_count = Some(n_pages);
        }
        "delete_pages_first" => doc.delete_pages(&[1]),
        "delete_pages_last" => doc.delete_pages(&[n_pages]),
        "delete_pages_all" => doc.delete_pages(&(1..=n_pages).collect::<Vec<u32>>()),
        "delete_object_first_page" => {
            if let Some(p) = want_a.first() {
                doc.delete_object(*p);
            }
        }
        "prune_objects" => {
            doc.prune_objects();
            same_count = Some(n_pages);
        }
        "add_object" => {
            let mut d = Dictionary::new();
            d.set("Type", name("Page"));
            doc.add_object(Object::Dictionary(d));
            same_count = Some(n_pages);
        }
        "new_object_id" => {
            doc.new_object_id();
            same_count = Some(n_pages);
        }
        "compress" => {
            doc.compress();
            same_count = Some(n_pages);
        }
        "set_object_reversed_root_kids" | "get_object_mut_reversed_root_kids" => {}
        "clone_only" => same_count = Some(n_pages),
        "add_page_by_methods" | "renumber_then_field_edit" => {}
        _ => machinery("unknown method op"),
    });
    r.map_err(|e| format!("{}: {}", op, e))?;
    match op {
        "set_object_reversed_root_kids" => {
            let (id, o) = reversed_root_kids(&b);
            b.doc.set_object(id, o);
        }
        "get_object_mut_reversed_root_kids" => {
            let (id, o) = reversed_root_kids(&b);
            match util::guard(|| b.doc.get_object_mut(id).map(|slot| *slot = o)) {
                Ok(Ok(())) => {}
                other => return Err(format!("get_object_mut on an existing object: {:?}", other.map(|r| r.map_err(|e| e.to_string())))),
            }
        }
        "add_page_by_methods" => {
            let mut d = Dictionary::new();
            d.set("Type", name("Page"));
            d.set("Parent", Object::Reference(b.node[0]));
            let id = b.doc.add_object(Object::Dictionary(d));
            kids_mut(&mut b, 0).insert(0, Object::Reference(id));
            let root = b.node[0];
            fix_counts(&mut b.doc, root, 0);
        }
        "renumber_then_field_edit" => {
            b.doc.renumber_objects_with(3);
            let after = model_pages(&b.doc).map_err(|e| format!("after renumber_objects_with(3): {}", e))?;
            check_now(&b.doc, &after, "after renumber_objects_with(3)", mc)?;
            // drop the first kid of the root through the public fields
            let root = match b.doc.catalog().ok().and_then(|c| c.get(b"Pages").ok()).and_then(|p| p.as_reference().ok()) {
                Some(r) => r,
                None => return Err("catalog lost its Pages reference under renumbering".into()),
            };
            let arr_id = match b.doc.objects.get(&root) {
                Some(Object::Dictionary(d)) => match d.get(b"Kids") {
                    Ok(Object::Reference(r)) => Some(*r),
                    _ => None,
                },
                _ => None,
            };
            let kids = match arr_id {
                Some(a) => match b.doc.objects.get_mut(&a) {
                    Some(Object::Array(v)) => Some(v),
                    _ => None,
                },
                None => match b.doc.objects.get_mut(&root) {
                    Some(Object::Dictionary(d)) => match d.get_mut(b"Kids") {
                        Ok(Object::Array(v)) => Some(v),
                        _ => None,
                    },
                    _ => None,
                },
            };
            match kids {
                Some(v) if !v.is_empty() => {
                    v.remove(0);
                }
                Some(_) => {}
                None => return Err("root Kids not found after renumbering".into()),
            }
            fix_counts(&mut b.doc, root, 0);
        }
        _ => {}
    }
    let target = if op == "clone_only" { b.doc.clone() } else { b.doc };
    // the document is now what lopdf's own methods made of it: a tree the model rejects is a failure of those methods
    let want_b = model_pages(&target).map_err(|e| format!("after {}: the page tree is no longer well-formed: {}", op, e))?;
    if let Some(n) = same_count {
        if want_b.len() as u32 != n {
            return Err(format!("after {}: the page tree has {} leaf pages, had {}", op, want_b.len(), n));
        }
    }
    check_now(&target, &want_b, &format!("after {}", op), mc)
}

fn method_case(t: &Tree, rev: bool, op: &str) -> Value {
    json!({"kind": "method", "tree": t.to_json(), "rev": rev, "op": op})
}

fn explore_edits(run: &Run, max_calls: &AtomicU64, watch: &Watch) {
    let nodes = if run.thorough { 6 } else { 5 };
    let mut work: Vec<Vec<Option<usize>>> = vec![];
    for n in (1..=nodes).rev() {
        work.extend(shapes(n));
    }
    let sampled = AtomicU64::new(0);
    util::par_for(work.len(), |w| {
        let parent = &work[w];
        let opts = options(parent);
        let (mut n_edit, mut n_method, mut nontrivial) = (0u64, 0u64, 0u64);
        for v in 0..n_variants(&opts) {
            let t = Tree::from_parents(parent, variant(&opts, v));
            let es = edits(&t);
            for rev in [false, true] {
                for e in &es {
                    for mode in EDIT_MODES {
                        let case = edit_case(&t, rev, e, mode);
                        n_edit += 1;
                        nontrivial += 1;
                        if let Err(msg) = watch.guarded(&case, || run_edit(&t, rev, e, mode, max_calls)) {
                            run.fail(None, case.clone(), &msg, HISTORY_EXPECTED);
                        }
                        if t.len() == 5 && e["e"] == "move_kid" && rev && mode == "edit_a_clone" && sampled.fetch_add(1, Ordering::Relaxed) < 1 {
                            run.sample(case);
                        }
                    }
                }
                for op in METHOD_OPS {
                    let case = method_case(&t, rev, op);
                    n_method += 1;
                    if t.has_intermediate() {
                        nontrivial += 1;
                    }
                    if let Err(msg) = watch.guarded(&case, || run_method(&t, rev, op, max_calls)) {
                        run.fail(None, case, &msg, HISTORY_EXPECTED);
                    }
                }
            }
        }
        run.eval((n_edit + n_method) * 4);
        run.nontrivial(nontrivial);
        run.add("single_edit_sequences", n_edit);
        run.add("method_sequences", n_method);
        run.add_traces(n_edit + n_method);
    });
}

// ---------------------------------------------------------------------------------------------
// reference-chain family: a link of the page tree is reached through a chain of indirect
// references (objects whose whole value is a reference)

/// hop counts with an exact verdict (lopdf follows up to DEREF hops) and beyond (outside the domain)
const HOPS: [usize; 10] = [0, 1, 2, 3, 16, 64, 126, 127, 128, 129];
const HOPS_MORE: [usize; 8] = [4, 32, 100, 125, 130, 131, 200, 300];

#[derive(Clone, Debug, PartialEq)]
enum Site {
    /// the Kids value of Pages node i reaches its array after `hops` hops (0 = direct array)
    Kids(usize),
    /// the entry for node i in its parent's Kids reaches the node's dictionary after `hops` extra hops
    KidEntry(usize),
    CatalogPages,
    TrailerRoot,
    Count(usize),
    Parent(usize),
    /// every Kids value, the catalog's Pages and the trailer's Root at once
    AllLinks,
    /// every kid entry at once
    AllEntries,
}

impl Site {
    fn to_json(&self) -> Value {
        match self {
            Site::Kids(i) => json!({"site": "kids", "node": i}),
            Site::KidEntry(i) => json!({"site": "kid_entry", "node": i}),
            Site::CatalogPages => json!({"site": "catalog_pages"}),
            Site::TrailerRoot => json!({"site": "trailer_root"}),
            Site::Count(i) => json!({"site": "count", "node": i}),
            Site::Parent(i) => json!({"site": "parent", "node": i}),
            Site::AllLinks => json!({"site": "all_links"}),
            Site::AllEntries => json!({"site": "all_entries"}),
        }
    }
    fn from_json(v: &Value) -> Site {
        let i = v["node"].as_u64().unwrap_or(0) as usize;
        match v["site"].as_str().unwrap_or("") {
            "kids" => Site::Kids(i),
            "kid_entry" => Site::KidEntry(i),
            "catalog_pages" => Site::CatalogPages,
            "trailer_root" => Site::TrailerRoot,
            "count" => Site::Count(i),
            "parent" => Site::Parent(i),
            "all_links" => Site::AllLinks,
            "all_entries" => Site::AllEntries,
            _ => machinery("unknown chain site"),
        }
    }
    /// ids yielded for this site may be the head of a chain that ends at the Page dictionary
    fn entries_chained(&self) -> bool {
        matches!(self, Site::KidEntry(_) | Site::AllEntries)
    }
}

fn sites(t: &Tree) -> Vec<Site> {
    let mut v = vec![Site::CatalogPages, Site::TrailerRoot, Site::AllLinks];
    if t.len() > 1 {
        v.push(Site::AllEntries);
    }
    for i in 0..t.len() {
        if t.is_pages(i) {
            v.push(Site::Kids(i));
            v.push(Site::Count(i));
        }
        if i >= 1 {
            v.push(Site::KidEntry(i));
            v.push(Site::Parent(i));
        }
    }
    v
}

/// `extra` new objects, each a bare reference to the previous one, ending at `target`; returns the head.
fn add_chain(doc: &mut Document, target: ObjectId, extra: usize) -> ObjectId {
    let mut head = target;
    for _ in 0..extra {
        let id = fresh_id(doc);
        doc.objects.insert(id, Object::Reference(head));
        head = id;
    }
    head
}

fn apply_chain(t: &Tree, b: &mut Built, site: &Site, hops: usize) {
    match site {
        Site::Kids(i) => {
            let i = *i;
            if hops == 0 {
                if let Some(a) = b.arr[i].take() {
                    let arr = b.doc.objects.remove(&a).unwrap_or_else(|| machinery("indirect Kids array missing"));
                    dict_mut(&mut b.doc, b.node[i]).set("Kids", arr);
                }
            } else {
                let a = match b.arr[i] {
                    Some(a) => a,
                    None => {
                        let arr = dict_mut(&mut b.doc, b.node[i]).remove(b"Kids").unwrap_or_else(|| machinery("direct Kids missing"));
                        let a = fresh_id(&mut b.doc);
                        b.doc.objects.insert(a, arr);
                        b.arr[i] = Some(a);
                        a
                    }
                };
                let head = add_chain(&mut b.doc, a, hops - 1);
                dict_mut(&mut b.doc, b.node[i]).set("Kids", Object::Reference(head));
            }
        }
        Site::KidEntry(i) => {
            let p = t.parent[*i].unwrap_or_else(|| machinery("kid_entry on the root"));
            let pos = t.kids[p].iter().position(|k| k == i).unwrap();
            let head = add_chain(&mut b.doc, b.node[*i], hops);
            kids_mut(b, p)[pos] = Object::Reference(head);
        }
        Site::CatalogPages => {
            let head = add_chain(&mut b.doc, b.node[0], hops);
            dict_mut(&mut b.doc, b.cat).set("Pages", Object::Reference(head));
        }
        Site::TrailerRoot => {
            let head = add_chain(&mut b.doc, b.cat, hops);
            b.doc.trailer.set("Root", Object::Reference(head));
        }
        Site::Count(i) => {
            if hops >= 1 {
                let c = fresh_id(&mut b.doc);
                b.doc.objects.insert(c, Object::Integer(t.count(*i)));
                let head = add_chain(&mut b.doc, c, hops - 1);
                dict_mut(&mut b.doc, b.node[*i]).set("Count", Object::Reference(head));
            }
        }
        Site::Parent(i) => {
            let p = t.parent[*i].unwrap_or_else(|| machinery("parent on the root"));
            let head = add_chain(&mut b.doc, b.node[p], hops);
            dict_mut(&mut b.doc, b.node[*i]).set("Parent", Object::Reference(head));
        }
        Site::AllLinks => {
            for i in (0..t.len()).filter(|i| t.is_pages(*i)) {
                apply_chain(t, b, &Site::Kids(i), hops);
            }
            apply_chain(t, b, &Site::CatalogPages, hops);
            apply_chain(t, b, &Site::TrailerRoot, hops);
        }
        Site::AllEntries => {
            for i in 1..t.len() {
                apply_chain(t, b, &Site::KidEntry(i), hops);
            }
        }
    }
}

/// Like check_valid, with yielded ids read through chains of bare references when `chained`
/// (an id whose object is such a chain denotes the object at its end).
fn check_valid_chained(doc: &Document, want: &[ObjectId], chained: bool, max_calls: &AtomicU64) -> Result<(), String> {
    if !chained {
        return check_valid(doc, want, max_calls);
    }
    let d = drive(doc).map_err(|e| format!("page_iter: {}", e))?;
    max_calls.fetch_max(d.calls as u64, Ordering::Relaxed);
    if !d.finished || d.calls > doc.objects.len() + 1 {
        return Err(format!("page_iter did not finish within objects.len()+1 = {} calls of next()", doc.objects.len() + 1));
    }
    let got: Vec<ObjectId> = d.yielded.iter().map(|id| resolve_id(doc, *id)).collect();
    if got != want {
        return Err(format!("page_iter yields {} which denote {}, depth-first left-to-right leaf pages are {}", ids_str(&d.yielded), ids_str(&got), ids_str(want)));
    }
    check_forms(doc, &d.yielded, true, true, &|_| {})?;
    let m = util::guard(|| doc.get_pages()).map_err(|e| format!("get_pages: {}", e))?;
    let keys: Vec<u32> = m.keys().cloned().collect();
    let vals: Vec<ObjectId> = m.values().map(|id| resolve_id(doc, *id)).collect();
    if keys != (1..=want.len() as u32).collect::<Vec<u32>>() || vals != want {
        return Err(format!("get_pages is {:?}, expected (ids denoting) the leaf pages numbered 1..{}: {}", m, want.len(), ids_str(want)));
    }
    Ok(())
}

/// check_valid / check_valid_chained, with the forms other than stepping and get_pages() optional.
fn check_chained(doc: &Document, want: &[ObjectId], chained: bool, forms: bool, max_calls: &AtomicU64) -> Result<(), String> {
    if forms {
        return check_valid_chained(doc, want, chained, max_calls);
    }
    if !chained {
        return check_valid_basic(doc, want, max_calls);
    }
    let d = drive(doc).map_err(|e| format!("page_iter: {}", e))?;
    max_calls.fetch_max(d.calls as u64, Ordering::Relaxed);
    if !d.finished || d.calls > doc.objects.len() + 1 {
        return Err(format!("page_iter did not finish within objects.len()+1 = {} calls of next()", doc.objects.len() + 1));
    }
    let got: Vec<ObjectId> = d.yielded.iter().map(|id| resolve_id(doc, *id)).collect();
    if got != want {
        return Err(format!("page_iter yields {} which denote {}, depth-first left-to-right leaf pages are {}", ids_str(&d.yielded), ids_str(&got), ids_str(want)));
    }
    let m = util::guard(|| doc.get_pages()).map_err(|e| format!("get_pages: {}", e))?;
    let keys: Vec<u32> = m.keys().cloned().collect();
    let vals: Vec<ObjectId> = m.values().map(|id| resolve_id(doc, *id)).collect();
    if keys != (1..=want.len() as u32).collect::<Vec<u32>>() || vals != want {
        return Err(format!("get_pages is {:?}, expected (ids denoting) the leaf pages numbered 1..{}: {}", m, want.len(), ids_str(want)));
    }
    Ok(())
}

/// Termination and type safety only (used beyond the dereference limit).
fn check_lenient_chained(doc: &Document, max_calls: &AtomicU64) -> Result<usize, String> {
    let d = drive(doc).map_err(|e| format!("page_iter: {}", e))?;
    max_calls.fetch_max(d.calls as u64, Ordering::Relaxed);
    if !d.finished || d.calls > doc.objects.len() + 1 {
        return Err(format!("page_iter did not finish within objects.len()+1 = {} calls of next()", doc.objects.len() + 1));
    }
    for id in &d.yielded {
        if !is_page_object(doc, resolve_id(doc, *id)) {
            return Err(format!("page_iter yields {} {} R which does not denote a dictionary of /Type /Page", id.0, id.1));
        }
    }
    util::guard(|| doc.get_pages()).map_err(|e| format!("get_pages: {}", e))?;
    Ok(d.yielded.len())
}

/// Ok(true) = exact verdict given, Ok(false) = beyond the limit (termination / type safety only).
fn run_refchain(t: &Tree, rev: bool, site: &Site, hops: usize, mc: &AtomicU64) -> Result<bool, String> {
    let mut b = build(t, rev);
    let want = expected_pages(t, &b);
    apply_chain(t, &mut b, site, hops);
    if hops <= DEREF {
        match model_pages(&b.doc) {
            Ok(m) if m == want => {}
            other => machinery(&format!("document-level model {:?} disagrees with the tree-level model {:?} ({:?}, {} hops)", other, want, site, hops)),
        }
        check_valid_chained(&b.doc, &want, site.entries_chained(), mc)?;
        // the same answer from a clone
        let c = b.doc.clone();
        check_valid_chained(&c, &want, site.entries_chained(), mc).map_err(|e| format!("clone of the document: {}", e))?;
        Ok(true)
    } else {
        check_lenient_chained(&b.doc, mc)?;
        Ok(false)
    }
}

fn refchain_case(t: &Tree, rev: bool, site: &Site, hops: usize) -> Value {
    json!({"kind": "refchain", "tree": t.to_json(), "rev": rev, "link": site.to_json(), "hops": hops})
}

const REFCHAIN_EXPECTED: &str = "the same enumeration as with direct links: page_iter() = (ids denoting) the depth-first left-to-right Page leaves, get_pages() numbered 1..n, for every chain of at most 128 reference hops; beyond that only termination and type safety";

fn explore_refchains(run: &Run, max_calls: &AtomicU64, watch: &Watch) {
    let nodes = if run.thorough { 5 } else { 4 };
    let mut hops: Vec<usize> = HOPS.to_vec();
    if run.thorough {
        hops.extend(HOPS_MORE);
        hops.sort();
    }
    let mut work: Vec<Vec<Option<usize>>> = vec![];
    for n in (1..=nodes).rev() {
        work.extend(shapes(n));
    }
    // the limit as observed on this build, per kind of link (a note for the reader, not a verdict)
    {
        let t = Tree::from_parents(&[None, Some(0), Some(1), Some(0)], vec![Kind::Pages, Kind::Pages, Kind::Page, Kind::Page]);
        let mut seen = serde_json::Map::new();
        for site in [Site::Kids(0), Site::Kids(1), Site::KidEntry(1), Site::KidEntry(2), Site::CatalogPages, Site::TrailerRoot] {
            let mut last_ok = None;
            for h in 0..=140usize {
                let mut b = build(&t, false);
                let want = expected_pages(&t, &b);
                apply_chain(&t, &mut b, &site, h);
                let dummy = AtomicU64::new(0);
                if check_valid_chained(&b.doc, &want, site.entries_chained(), &dummy).is_ok() {
                    last_ok = Some(h);
                }
            }
            seen.insert(site.to_json().to_string(), json!(last_ok));
        }
        run.set("largest_hop_count_with_full_enumeration_observed", Value::Object(seen));
    }
    let sampled = AtomicU64::new(0);
    util::par_for(work.len(), |w| {
        let parent = &work[w];
        let opts = options(parent);
        let (mut exact, mut beyond) = (0u64, 0u64);
        let mut nontrivial = Vec::<u64>::new();
        for v in 0..n_variants(&opts) {
            let t = Tree::from_parents(parent, variant(&opts, v));
            for rev in [false, true] {
                for site in sites(&t) {
                    for &h in &hops {
                        if h == 0 && !matches!(site, Site::Kids(_)) {
                            continue; // 0 hops is the plain document of the valid family
                        }
                        let case = refchain_case(&t, rev, &site, h);
                        match watch.guarded(&case, || run_refchain(&t, rev, &site, h, max_calls)) {
                            Ok(true) => exact += 1,
                            Ok(false) => beyond += 1,
                            Err(e) => run.fail(None, case.clone(), &e, REFCHAIN_EXPECTED),
                        }
                        if h >= 2 {
                            nontrivial.push(run_hash(&case));
                        }
                        if t.len() == 4 && h == 128 && site == Site::Kids(1) && rev && sampled.fetch_add(1, Ordering::Relaxed) < 1 {
                            run.sample(case);
                        }
                    }
                }
            }
        }
        run.eval((exact + beyond) * 2 + exact * 2);
        nontrivial.iter().for_each(|h| run.nontrivial_hash(*h));
        run.add("refchain_exact", exact);
        run.add("refchain_beyond_deref_limit_no_verdict", beyond);
    });
}

fn run_hash(case: &Value) -> u64 {
    vharness::run::fnv(case.to_string().as_bytes())
}

// ---------------------------------------------------------------------------------------------
// stale max_id family: a well-formed tree is a well-formed tree whatever Document::max_id says.
// The objects are placed through the public `objects` map, every link of the tree (and /Type,
// /Count) sits directly or behind 1-2 references, the numbers are dense / flipped / sparse, and
// max_id is 0, 1, a number in the middle of the numbers in use, highest-1, highest, highest+100.

/// "gens": dense ascending numbers, generation 0 / 7 / 14 by number (max_id 0 and highest only)
const STALE_NUMBERINGS: [&str; 5] = ["asc", "rev", "flip", "sparse", "gens"];
const STALE_MAX: [&str; 6] = ["zero", "one", "median", "highest_minus_1", "highest", "highest_plus_100"];

/// The kinds of indirection of one tree: the plain tree, every link of the reference-chain family,
/// /Type of each node / all nodes / all leaf pages, and everything at once.
fn stale_links(t: &Tree) -> Vec<Value> {
    let mut v = vec![json!({"site": "none"})];
    v.extend(sites(t).iter().filter(|s| !matches!(s, Site::Parent(_))).map(|s| s.to_json()));
    for i in 0..t.len() {
        v.push(json!({"site": "type", "nodes": i}));
    }
    v.push(json!({"site": "type", "nodes": "all"}));
    v.push(json!({"site": "everything"}));
    v
}

/// Returns true when yielded ids may be heads of reference chains.
fn apply_stale_link(t: &Tree, b: &mut Built, link: &Value, hops: usize) -> bool {
    match link["site"].as_str().unwrap_or("") {
        "none" => false,
        "type" => {
            apply_indirect_type(b, &indtype_nodes(t, &link["nodes"]), hops);
            false
        }
        "everything" => {
            apply_chain(t, b, &Site::AllLinks, hops);
            for i in (0..t.len()).filter(|i| t.is_pages(*i)) {
                apply_chain(t, b, &Site::Count(i), hops);
            }
            if t.len() > 1 {
                apply_chain(t, b, &Site::AllEntries, hops);
            }
            apply_indirect_type(b, &(0..t.len()).collect::<Vec<_>>(), hops);
            t.len() > 1
        }
        _ => {
            let site = Site::from_json(link);
            apply_chain(t, b, &site, hops);
            site.entries_chained()
        }
    }
}

fn map_refs(o: &mut Object, f: &dyn Fn(ObjectId) -> ObjectId) {
    match o {
        Object::Reference(r) => *r = f(*r),
        Object::Array(a) => a.iter_mut().for_each(|x| map_refs(x, f)),
        Object::Dictionary(d) => d.iter_mut().for_each(|(_, v)| map_refs(v, f)),
        Object::Stream(s) => s.dict.iter_mut().for_each(|(_, v)| map_refs(v, f)),
        _ => {}
    }
}

/// The same document under another numbering (public fields only). max_id is left for the caller.
fn renumbered(doc: &Document, f: &dyn Fn(ObjectId) -> ObjectId) -> Document {
    let mut d = Document::with_version("1.5");
    for (id, o) in &doc.objects {
        let mut o = o.clone();
        map_refs(&mut o, f);
        if d.objects.insert(f(*id), o).is_some() {
            machinery("renumbering map is not one-to-one");
        }
    }
    let mut tr = Object::Dictionary(doc.trailer.clone());
    map_refs(&mut tr, f);
    if let Object::Dictionary(tr) = tr {
        d.trailer = tr;
    }
    d
}

/// The document of a stale-max_id case and its expected pages. `via` = "objects_insert": every object placed
/// through the public map and max_id set by hand; "add_object": the document is assembled with
/// new_object_id / add_object only, so max_id is whatever lopdf keeps (numbering asc, max mode ignored).
fn stale_doc(t: &Tree, numbering: &str, link: &Value, hops: usize, max_mode: &str, via: &str) -> (Document, Vec<ObjectId>, bool) {
    let mut b = build(t, numbering == "rev");
    let want = expected_pages(t, &b);
    let chained = apply_stale_link(t, &mut b, link, hops);
    let highest = b.doc.objects.keys().map(|k| k.0).max().unwrap_or(0);
    let f: Box<dyn Fn(ObjectId) -> ObjectId> = match numbering {
        "asc" | "rev" => Box::new(|id| id),
        "flip" => Box::new(move |id: ObjectId| (highest + 1 - id.0.min(highest), id.1)),
        "sparse" => Box::new(|id: ObjectId| (id.0 * 997 + 3, id.1)),
        "gens" => Box::new(|id: ObjectId| (id.0, (id.0 % 3) as u16 * 7)),
        _ => machinery("unknown numbering"),
    };
    let mut doc = renumbered(&b.doc, &*f);
    let want: Vec<ObjectId> = want.iter().map(|p| f(*p)).collect();
    let nums: Vec<u32> = doc.objects.keys().map(|k| k.0).collect();
    let hi = *nums.last().unwrap();
    if via == "add_object" {
        let mut d = Document::with_version("1.5");
        for (id, o) in &doc.objects {
            while d.max_id + 1 < id.0 {
                d.new_object_id();
            }
            let got = d.add_object(o.clone());
            if got != *id {
                machinery(&format!("add_object handed out {:?} where {:?} was planned", got, id));
            }
        }
        d.trailer = doc.trailer.clone();
        return (d, want, chained);
    }
    doc.max_id = match max_mode {
        "zero" => 0,
        "one" => 1,
        "median" => nums[nums.len() / 2],
        "highest_minus_1" => hi - 1,
        "highest" => hi,
        "highest_plus_100" => hi + 100,
        _ => machinery("unknown max_id mode"),
    };
    (doc, want, chained)
}

fn stale_case(t: &Tree, numbering: &str, link: &Value, hops: usize, max_mode: &str, via: &str) -> Value {
    json!({"kind": "stale_max_id", "tree": t.to_json(), "numbering": numbering, "link": link, "hops": hops, "max_id": max_mode, "via": via})
}

fn run_stale(case: &Value, forms: bool, mc: &AtomicU64) -> Result<(), String> {
    let t = Tree::from_json(&case["tree"]);
    let (doc, want, chained) = stale_doc(
        &t,
        case["numbering"].as_str().unwrap_or("asc"),
        &case["link"],
        case["hops"].as_u64().unwrap_or(1) as usize,
        case["max_id"].as_str().unwrap_or("highest"),
        case["via"].as_str().unwrap_or("objects_insert"),
    );
    match model_pages(&doc) {
        Ok(m) if m == want => {}
        other => machinery(&format!("stale family: document-level model {:?} disagrees with the tree-level model {:?} ({})", other, want, case)),
    }
    check_chained(&doc, &want, chained, forms, mc).map_err(|e| format!("max_id = {}, object numbers {:?}: {}", doc.max_id, doc.objects.keys().map(|k| k.0).collect::<Vec<_>>(), e))
}

const STALE_EXPECTED: &str = "Document::max_id is bookkeeping for handing out new ids; the page tree is what doc.objects and doc.trailer hold. Whatever max_id says (0, 1, a number in the middle, highest-1, highest, highest+100) and however the objects were placed (doc.objects.insert or add_object), a well-formed tree - links, /Type and /Count direct or behind 1-2 references - enumerates as page_iter() = depth-first left-to-right Page leaves, get_pages() = that list numbered 1..n";

fn explore_stale(run: &Run, max_calls: &AtomicU64, watch: &Watch) {
    let nodes = if run.thorough { 5 } else { 4 };
    let mut work: Vec<Vec<Option<usize>>> = vec![];
    for n in (1..=nodes).rev() {
        work.extend(shapes(n));
    }
    let sampled = AtomicU64::new(0);
    util::par_for(work.len(), |w| {
        let parent = &work[w];
        let opts = options(parent);
        let mut cases = 0u64;
        let mut nontrivial = Vec::<u64>::new();
        for v in 0..n_variants(&opts) {
            let t = Tree::from_parents(parent, variant(&opts, v));
            for link in stale_links(&t) {
                let hop_list: &[usize] = if link["site"] == "none" { &[1] } else { &[1, 2] };
                for &hops in hop_list {
                    let mut todo: Vec<Value> = vec![stale_case(&t, "asc", &link, hops, "kept_by_lopdf", "add_object")];
                    for numbering in STALE_NUMBERINGS {
                        for max_mode in STALE_MAX {
                            if numbering == "gens" && max_mode != "zero" && max_mode != "highest" {
                                continue;
                            }
                            todo.push(stale_case(&t, numbering, &link, hops, max_mode, "objects_insert"));
                        }
                    }
                    for case in todo {
                        cases += 1;
                        // every form of the enumeration for the two extreme values, stepping + get_pages() for the others
                        let forms = matches!(case["max_id"].as_str(), Some("zero") | Some("highest_minus_1") | Some("kept_by_lopdf"));
                        if case["max_id"] != "highest" {
                            nontrivial.push(run_hash(&case));
                        }
                        if let Err(e) = watch.guarded(&case, || run_stale(&case, forms, max_calls)) {
                            run.fail(None, case.clone(), &e, STALE_EXPECTED);
                        }
                        if t.len() == 4 && hops == 2 && link["site"] == "everything" && case["max_id"] == "median" && case["numbering"] == "flip" && sampled.fetch_add(1, Ordering::Relaxed) < 1 {
                            run.sample(case);
                        }
                    }
                }
            }
        }
        run.eval(cases * 2);
        nontrivial.iter().for_each(|h| run.nontrivial_hash(*h));
        run.add("stale_max_id_cases", cases);
    });
}

// ---------------------------------------------------------------------------------------------
// near-miss /Type names, in memory and in documents LOADED FROM BYTES written by the harness's own
// serializer (classic cross-reference table), so that every spelling survives a load

/// Names that are almost, but not exactly, Page or Pages.
fn near_miss_names(full: bool) -> Vec<Vec<u8>> {
    let mut v: Vec<Vec<u8>> = vec![];
    for base in [&b"Page"[..], &b"Pages"[..]] {
        let cat = |parts: &[&[u8]]| parts.concat();
        v.push(cat(&[base, b"\0"]));
        v.push(cat(&[base, b" "]));
        v.push(base.to_ascii_lowercase());
        v.push(cat(&[&base[..2], b"\0", &base[2..]]));
        v.push(cat(&[base, b"#00"]));
        if full {
            for tail in [&b"\t"[..], b"\n", b"\r", b"\x0c", b"\0\0", b"\0X", b"#20", b"/", b"(", b"%", b"\xff", b"\x80", b"X", b"."] {
                v.push(cat(&[base, tail]));
            }
            v.push(cat(&[b"\0", base]));
            v.push(cat(&[b" ", base]));
            v.push(cat(&[b"X", base]));
            v.push(cat(&[&base[..2], b" ", &base[2..]]));
            v.push(base.to_ascii_uppercase());
            v.push(cat(&[base, base]));
        }
    }
    v.push(b"Pag".to_vec());
    v.push(b"Pagee".to_vec());
    v.push(b"Pagess".to_vec());
    if full {
        v.push(b"Pa".to_vec());
        v.push(b"P".to_vec());
        v.push(vec![]);
        v.push(b"Pages\0Page".to_vec());
        v.push(b"Page\0s".to_vec());
    }
    v.retain(|n| n != b"Page" && n != b"Pages");
    let mut seen = std::collections::BTreeSet::new();
    v.retain(|n| seen.insert(n.clone()));
    v
}

/// How the harness's serializer spells names.
#[derive(Clone, Copy, PartialEq, Debug)]
struct Spelling {
    /// the Name that is the value of a /Type entry (or a whole object): "plain" | "second" (second
    /// byte as #xx: /P#61ge) | "first" (/#50age) | "last" | "all" (every byte as #xx) | "lower_hex"
    /// (every byte as #xx with lower-case hex digits)
    type_value: &'static str,
    /// dictionary keys with their second byte as #xx (/T#79pe, /K#69ds, /C#6Fount)
    keys: bool,
    /// what follows the /Type value: "space" | "nul" | "tab" | "ff" | "cr" | "crlf" | "comment" | "none"
    /// (the next token starts with a delimiter, so no white space is needed)
    after: &'static str,
}

const PLAIN: Spelling = Spelling { type_value: "plain", keys: false, after: "space" };

impl Spelling {
    fn to_json(self) -> Value {
        json!({"type_value": self.type_value, "keys": self.keys, "after": self.after})
    }
    fn from_json(v: &Value) -> Spelling {
        let pick = |s: &str, all: &[&'static str]| -> &'static str { all.iter().find(|x| **x == s).copied().unwrap_or_else(|| machinery("unknown spelling")) };
        Spelling {
            type_value: pick(v["type_value"].as_str().unwrap_or("plain"), &["plain", "second", "first", "last", "all", "lower_hex"]),
            keys: v["keys"].as_bool().unwrap_or(false),
            after: pick(v["after"].as_str().unwrap_or("space"), &["space", "nul", "tab", "ff", "cr", "crlf", "comment", "none"]),
        }
    }
}

/// A name token: bytes outside '!'..='~', delimiters and '#' always as #XX (ISO 32000-1 7.3.5); `force(i)` = also byte i.
fn ser_name(out: &mut Vec<u8>, n: &[u8], force: &dyn Fn(usize) -> bool, lower: bool) {
    out.push(b'/');
    for (i, &c) in n.iter().enumerate() {
        if force(i) || !(33..=126).contains(&c) || b"()<>[]{}/%#".contains(&c) {
            out.extend_from_slice(if lower { format!("#{:02x}", c) } else { format!("#{:02X}", c) }.as_bytes());
        } else {
            out.push(c);
        }
    }
}

fn ser_type_value(out: &mut Vec<u8>, n: &[u8], sp: Spelling) {
    let len = n.len();
    match sp.type_value {
        "plain" => ser_name(out, n, &|_| false, false),
        "second" => ser_name(out, n, &|i| i == 1, false),
        "first" => ser_name(out, n, &|i| i == 0, false),
        "last" => ser_name(out, n, &|i| i + 1 == len, false),
        "all" => ser_name(out, n, &|_| true, false),
        "lower_hex" => ser_name(out, n, &|_| true, true),
        _ => machinery("unknown type spelling"),
    }
}

fn ser_object(out: &mut Vec<u8>, o: &Object, sp: Spelling, is_type_value: bool) {
    match o {
        Object::Null => out.extend_from_slice(b"null"),
        Object::Boolean(b) => out.extend_from_slice(if *b { b"true" } else { b"false" }),
        Object::Integer(i) => out.extend_from_slice(i.to_string().as_bytes()),
        Object::Name(n) if is_type_value => ser_type_value(out, n, sp),
        Object::Name(n) => ser_name(out, n, &|_| false, false),
        Object::Reference(r) => out.extend_from_slice(format!("{} {} R", r.0, r.1).as_bytes()),
        Object::Array(a) => {
            out.push(b'[');
            for (i, x) in a.iter().enumerate() {
                if i > 0 {
                    out.push(b' ');
                }
                ser_object(out, x, sp, false);
            }
            out.push(b']');
        }
        Object::Dictionary(d) => {
            out.extend_from_slice(b"<<");
            // /Type last when nothing is to follow its value
            let mut entries: Vec<(&Vec<u8>, &Object)> = d.iter().collect();
            if sp.after == "none" {
                entries.sort_by_key(|(k, _)| k.as_slice() == b"Type");
            }
            for (k, v) in entries {
                out.push(b' ');
                ser_name(out, k, &|i| sp.keys && i == 1, false);
                out.push(b' ');
                let ty = k.as_slice() == b"Type";
                ser_object(out, v, sp, ty);
                if ty && matches!(v, Object::Name(_)) {
                    match sp.after {
                        "space" | "none" => {}
                        "nul" => out.push(0),
                        "tab" => out.push(b'\t'),
                        "ff" => out.push(0x0c),
                        "cr" => out.push(b'\r'),
                        "crlf" => out.extend_from_slice(b"\r\n"),
                        "comment" => out.extend_from_slice(b"% /Foo\n"),
                        _ => machinery("unknown separator"),
                    }
                }
            }
            out.extend_from_slice(if sp.after == "none" { b">>" } else { b" >>" });
        }
        _ => machinery("the harness's serializer writes null, booleans, integers, names, references, arrays and dictionaries only"),
    }
}

/// One file for several documents with disjoint object numbers, each written in its own spelling: header, the
/// objects in ascending order, a classic cross-reference table with free entries for unused numbers, a trailer
/// with /Size and the trailer entries of the first document.
fn ser_file(parts: &[(&Document, Spelling)]) -> Vec<u8> {
    let mut out = b"%PDF-1.5\n%\xE2\xE3\xCF\xD3\n".to_vec();
    let max = parts.iter().flat_map(|p| p.0.objects.keys()).map(|k| k.0).max().unwrap_or(0) as usize;
    let mut offsets: Vec<Option<(usize, u16)>> = vec![None; max + 1];
    for (doc, sp) in parts {
        for (id, o) in &doc.objects {
            if offsets[id.0 as usize].is_some() {
                machinery("ser_file: object number used twice");
            }
            offsets[id.0 as usize] = Some((out.len(), id.1));
            out.extend_from_slice(format!("{} {} obj\n", id.0, id.1).as_bytes());
            // a whole object that is a name (the target of an indirect /Type) is spelled like a /Type value
            ser_object(&mut out, o, *sp, true);
            out.extend_from_slice(b"\nendobj\n");
        }
    }
    let xref_at = out.len();
    out.extend_from_slice(format!("xref\n0 {}\n", max + 1).as_bytes());
    out.extend_from_slice(b"0000000000 65535 f \n");
    for e in offsets.iter().skip(1) {
        match e {
            Some((off, g)) => out.extend_from_slice(format!("{:010} {:05} n \n", off, g).as_bytes()),
            None => out.extend_from_slice(b"0000000000 00000 f \n"),
        }
    }
    out.extend_from_slice(format!("trailer\n<< /Size {}", max + 1).as_bytes());
    if let Some((doc, _)) = parts.first() {
        for (k, v) in doc.trailer.iter() {
            out.push(b' ');
            ser_name(&mut out, k, &|_| false, false);
            out.push(b' ');
            ser_object(&mut out, v, PLAIN, false);
        }
    }
    out.extend_from_slice(format!(" >>\nstartxref\n{}\n%%EOF\n", xref_at).as_bytes());
    out
}

fn show_bytes(bytes: &[u8]) -> String {
    let mut s = String::new();
    for &c in bytes {
        match c {
            b'\n' => s.push('\n'),
            32..=126 => s.push(c as char),
            _ => s.push_str(&format!("<{:02X}>", c)),
        }
    }
    s
}

/// Type safety against the document AS WRITTEN: termination, every form agrees, and every yielded id is a page
/// object of `mem` (the in-memory document the file was written from), not merely of what the loader made of it.
fn check_loaded_lenient(mem: &Document, loaded: &Document, mc: &AtomicU64) -> Result<Vec<ObjectId>, String> {
    let d = drive(loaded).map_err(|e| format!("page_iter: {}", e))?;
    mc.fetch_max(d.calls as u64, Ordering::Relaxed);
    if !d.finished || d.calls > loaded.objects.len() + 1 {
        return Err(format!("page_iter did not finish within objects.len()+1 = {} calls of next()", loaded.objects.len() + 1));
    }
    for id in &d.yielded {
        if !is_page_object(mem, *id) {
            let ty = match mem.objects.get(id) {
                Some(Object::Dictionary(dd)) => match dd.get(b"Type") {
                    Ok(Object::Name(n)) => format!("the {}-byte name \"{}\"", n.len(), show_bytes(n)),
                    Ok(Object::Reference(r)) => format!("{} {} R (-> {})", r.0, r.1, match resolve(mem, &Object::Reference(*r)) {
                        Ok((_, Object::Name(n))) => format!("the {}-byte name \"{}\"", n.len(), show_bytes(n)),
                        _ => "no name".to_string(),
                    }),
                    Ok(_) => "not a name".into(),
                    Err(_) => "absent".into(),
                },
                _ => "(not a dictionary)".into(),
            };
            return Err(format!("page_iter on the loaded file yields {} {} R, whose /Type as written is {} - not the name Page", id.0, id.1, ty));
        }
    }
    check_forms(loaded, &d.yielded, false, true, &|_| {})?;
    let m = util::guard(|| loaded.get_pages()).map_err(|e| format!("get_pages: {}", e))?;
    validate_numbering(mem, &m)?;
    Ok(d.yielded)
}

fn near_doc(t: &Tree, rev: bool, node: usize, nm: &[u8], type_hops: usize) -> Document {
    let mut b = build(t, rev);
    dict_mut(&mut b.doc, b.node[node]).set("Type", Object::Name(nm.to_vec()));
    if type_hops > 0 {
        apply_indirect_type(&mut b, &[node], type_hops);
    }
    b.doc
}

fn near_case(t: &Tree, rev: bool, node: usize, nm: &[u8], type_hops: usize, leg: &str, sp: Spelling) -> Value {
    json!({"kind": "near_miss_type", "tree": t.to_json(), "rev": rev, "node": node, "name_bytes": nm, "name_for_reading": show_bytes(nm),
           "type_behind_hops": type_hops, "leg": leg, "spelling": sp.to_json()})
}

fn spelled_case(t: &Tree, rev: bool, sp: Spelling, type_hops: usize) -> Value {
    json!({"kind": "spelled", "tree": t.to_json(), "rev": rev, "spelling": sp.to_json(), "type_behind_hops": type_hops, "leg": "file"})
}

fn name_bytes(v: &Value) -> Vec<u8> {
    v.as_array().map(|a| a.iter().map(|x| x.as_u64().unwrap_or(0) as u8).collect()).unwrap_or_default()
}

/// The in-memory document of a near-miss / respelled case and, for a respelled valid tree, its expected pages.
fn file_case_doc(case: &Value) -> (Document, Option<Vec<ObjectId>>) {
    let t = Tree::from_json(&case["tree"]);
    let rev = case["rev"].as_bool().unwrap_or(false);
    let hops = case["type_behind_hops"].as_u64().unwrap_or(0) as usize;
    match case["kind"].as_str() {
        Some("near_miss_type") => (near_doc(&t, rev, case["node"].as_u64().unwrap_or(0) as usize, &name_bytes(&case["name_bytes"]), hops), None),
        Some("spelled") => {
            let mut b = build(&t, rev);
            let want = expected_pages(&t, &b);
            if hops > 0 {
                apply_indirect_type(&mut b, &(0..t.len()).collect::<Vec<_>>(), hops);
            }
            (b.doc, Some(want))
        }
        _ => machinery("not a file case"),
    }
}

/// Run the file legs of several cases through ONE file: the documents are renumbered onto disjoint number ranges,
/// written into one file (legs "file": the harness's serializer, each document in its own spelling; leg
/// "lopdf_writer": Document::save_to with a classic table), loaded once, and the loaded objects of each range are
/// placed into a Document of their own whose trailer names that range's catalog. Then per case: near-miss names -
/// termination, agreement of the forms, and only ids whose /Type AS WRITTEN is Page; respelled valid trees - the
/// exact verdict. Returns one result per case, or Err when the file as a whole does not load to the objects written.
fn run_file_batch(cases: &[Value], mc: &AtomicU64) -> Result<Vec<Result<String, String>>, String> {
    let mut mems: Vec<(Document, Option<Vec<ObjectId>>, Spelling)> = vec![];
    let mut next = 0u32;
    for case in cases {
        let (doc, want) = file_case_doc(case);
        let off = next;
        let f = move |id: ObjectId| (id.0 + off, id.1);
        let mut d = renumbered(&doc, &f);
        d.max_id = d.objects.keys().map(|k| k.0).max().unwrap_or(off);
        next = d.max_id;
        mems.push((d, want.map(|w| w.iter().map(|p| f(*p)).collect()), Spelling::from_json(&case["spelling"])));
    }
    let lopdf_writer = cases.iter().all(|c| c["leg"] == "lopdf_writer");
    if !lopdf_writer && cases.iter().any(|c| c["leg"] != "file") {
        machinery("a file batch mixes writers");
    }
    let bytes = if lopdf_writer {
        let mut all = Document::with_version("1.5");
        for (d, _, _) in &mems {
            all.objects.extend(d.objects.iter().map(|(k, v)| (*k, v.clone())));
        }
        all.trailer = mems[0].0.trailer.clone();
        all.max_id = next;
        util::save_bytes(&all, true).map_err(|e| format!("Document::save_to of the in-memory documents: {}", e))?
    } else {
        ser_file(&mems.iter().map(|m| (&m.0, m.2)).collect::<Vec<_>>())
    };
    let show = || if bytes.len() <= 3000 { format!("; file:\n{}", show_bytes(&bytes)) } else { String::new() };
    let loaded = util::load(&bytes).map_err(|e| format!("the file does not load: {}{}", e, show()))?;
    let written: Vec<ObjectId> = mems.iter().flat_map(|m| m.0.objects.keys().cloned()).collect();
    let got: Vec<ObjectId> = loaded.objects.keys().cloned().collect();
    if written != got {
        return Err(format!("the file was written with {} objects {:?} but loads with {} objects {:?}{}", written.len(), &written[..written.len().min(30)], got.len(), &got[..got.len().min(30)], show()));
    }
    let mut out = vec![];
    for (mem, want, _) in &mems {
        let (lo, hi) = (*mem.objects.keys().next().unwrap(), *mem.objects.keys().next_back().unwrap());
        let mut sub = Document::with_version("1.5");
        sub.objects = loaded.objects.range(lo..=hi).map(|(k, v)| (*k, v.clone())).collect();
        sub.trailer = mem.trailer.clone();
        sub.max_id = hi.0;
        out.push(match want {
            None => check_loaded_lenient(mem, &sub, mc).map(|got| format!("loaded from bytes: terminates, yields {}", ids_str(&got))),
            Some(w) => check_valid(&sub, w, mc).map(|_| format!("loaded from bytes: pages {}", ids_str(w))),
        });
    }
    Ok(out)
}

/// One case on its own (the replay, and the confirmation of a failure seen in a batch).
fn run_file_case(case: &Value, mc: &AtomicU64) -> Result<String, String> {
    if case["leg"] == "memory" {
        let (mem, _) = file_case_doc(case);
        let got = check_lenient_all(&mem, mc, true)?;
        check_get_pages_lenient(&mem)?;
        return Ok(format!("in memory: terminates, yields {}", ids_str(&got)));
    }
    run_file_batch(std::slice::from_ref(case), mc)?.pop().unwrap_or_else(|| machinery("empty batch result"))
}

const NEAR_EXPECTED: &str = "a node whose /Type is a name that merely resembles Page or Pages (a trailing or embedded NUL, space-like byte, other case, a prefix or an extension) is an ill-typed node: enumeration terminates within objects.len()+1 calls of next(), every form agrees, and every yielded id is a dictionary whose /Type - as written in the file / held in memory - is exactly the four bytes Page";

const SPELLED_EXPECTED: &str = "#xx in a name is a spelling of the byte xx (ISO 32000-1 7.3.5): /P#61ge IS /Page, /#50#61#67#65#73 IS /Pages, /K#69ds IS /Kids, and a NUL, TAB, FF, CR or a comment after a name ends the name like a space does. The loaded file is the same well-formed tree: page_iter() = depth-first left-to-right Page leaves, get_pages() numbered 1..n, in every form";

fn spellings() -> Vec<Spelling> {
    let mut v = vec![];
    for type_value in ["plain", "second", "first", "last", "all", "lower_hex"] {
        for keys in [false, true] {
            v.push(Spelling { type_value, keys, after: "space" });
        }
    }
    for after in ["nul", "tab", "ff", "cr", "crlf", "comment", "none"] {
        v.push(Spelling { type_value: "plain", keys: false, after });
        v.push(Spelling { type_value: "second", keys: true, after });
    }
    v
}

/// Size of a file batch (documents per file).
const FILE_BATCH: usize = 192;

fn explore_near_miss(run: &Run, max_calls: &AtomicU64, watch: &Watch) {
    // all names on every node of every tree up to `small` nodes; the short list up to `big` nodes
    let (small, big) = if run.thorough { (4, 5) } else { (3, 4) };
    let mut work: Vec<Tree> = vec![];
    for n in (1..=big).rev() {
        for parent in shapes(n) {
            let opts = options(&parent);
            for v in 0..n_variants(&opts) {
                work.push(Tree::from_parents(&parent, variant(&opts, v)));
            }
        }
    }
    let (all_names, short_names) = (near_miss_names(true), near_miss_names(false));
    run.set("near_miss_type_names", json!(all_names.iter().map(|n| show_bytes(n)).collect::<Vec<_>>()));
    let sps = spellings();
    let sampled = AtomicU64::new(0);
    let fail_of = |case: &Value| if case["kind"] == "spelled" { SPELLED_EXPECTED } else { NEAR_EXPECTED };
    util::par_for(work.len(), |w| {
        let t = &work[w];
        let names = if t.len() <= small { &all_names } else { &short_names };
        let (mut mem_cases, mut file_cases, mut spelled) = (0u64, 0u64, 0u64);
        // file legs are collected and run through one file per FILE_BATCH documents
        let mut own: Vec<Value> = vec![];
        let mut lopdf: Vec<Value> = vec![];
        let is_small = t.len() <= small;
        for rev in [false, true] {
            for node in 0..t.len() {
                for nm in names.iter() {
                    for type_hops in [0usize, 1] {
                        if is_small || type_hops == 0 {
                            let case = near_case(t, rev, node, nm, type_hops, "memory", PLAIN);
                            mem_cases += 1;
                            run.nontrivial_hash(run_hash(&case));
                            if let Err(e) = watch.guarded(&case, || run_file_case(&case, max_calls)) {
                                run.fail(None, case.clone(), &e, NEAR_EXPECTED);
                            }
                        }
                        own.push(near_case(t, rev, node, nm, type_hops, "file", PLAIN));
                        if type_hops == 0 && is_small {
                            own.push(near_case(t, rev, node, nm, 0, "file", Spelling { type_value: "last", keys: false, after: "space" }));
                            own.push(near_case(t, rev, node, nm, 0, "file", Spelling { type_value: "second", keys: true, after: "nul" }));
                            lopdf.push(near_case(t, rev, node, nm, 0, "lopdf_writer", PLAIN));
                        }
                    }
                }
            }
            // the same names in other spellings: exact verdict (larger trees: every fourth spelling, /Type direct)
            for (k, sp) in sps.iter().enumerate() {
                for type_hops in [0usize, 1] {
                    if is_small || (k % 4 == 1 && type_hops == 0) {
                        own.push(spelled_case(t, rev, *sp, type_hops));
                    }
                }
            }
        }
        for group in own.chunks(FILE_BATCH).chain(lopdf.chunks(FILE_BATCH)) {
            for c in group {
                if c["kind"] == "spelled" {
                    spelled += 1;
                } else {
                    file_cases += 1;
                }
                run.nontrivial_hash(run_hash(c));
            }
            let batch_case = json!({"kind": "file_batch", "cases": group});
            match watch.guarded(&batch_case, || run_file_batch(group, max_calls)) {
                Ok(results) => {
                    for (c, r) in group.iter().zip(results) {
                        if let Err(e) = r {
                            // confirm on a file of its own; a failure that shows only inside the batch is reported with the batch
                            match run_file_case(c, max_calls) {
                                Err(e1) => run.fail(None, c.clone(), &e1, fail_of(c)),
                                Ok(_) => run.fail(None, json!({"kind": "file_batch", "cases": group, "failing": c}), &format!("in a file holding {} documents: {}", group.len(), e), fail_of(c)),
                            }
                        }
                    }
                }
                Err(e) => {
                    // the file as a whole does not load to what was written: find the documents that do not load alone
                    let mut singled = 0;
                    for c in group {
                        if let Err(e1) = run_file_case(c, max_calls) {
                            singled += 1;
                            if singled <= 3 {
                                run.fail(None, c.clone(), &e1, fail_of(c));
                            }
                        }
                    }
                    if singled == 0 {
                        run.fail(None, batch_case, &e, "a file written by the harness's serializer loads to exactly the objects written");
                    }
                }
            }
            if t.len() == 3 && sampled.fetch_add(1, Ordering::Relaxed) < 1 {
                if let Some(c) = group.iter().find(|c| c["kind"] == "near_miss_type" && c["node"] == 2) {
                    let (mem, _) = file_case_doc(c);
                    run.sample(json!({"case": c, "file_written_for_this_case_alone": show_bytes(&ser_file(&[(&mem, Spelling::from_json(&c["spelling"]))]))}));
                }
            }
        }
        run.eval(mem_cases * 2 + (file_cases + spelled) * 3);
        run.add("near_miss_type_in_memory", mem_cases);
        run.add("near_miss_type_loaded_from_bytes", file_cases);
        run.add("valid_trees_respelled_loaded_from_bytes", spelled);
    });
}

fn explore_malformed(run: &Run, b: &Bounds, max_calls: &AtomicU64, watch: &Watch) {
    let mut work: Vec<Vec<Option<usize>>> = vec![];
    for n in (1..=b.mutated_nodes).rev() {
        work.extend(shapes(n));
    }
    let child_cases: Mutex<Vec<(usize, Value, Tree)>> = Mutex::new(vec![]);
    let sampled = AtomicU64::new(0);
    util::par_for(work.len(), |w| {
        let parent = &work[w];
        let opts = options(parent);
        let (mut cases, mut nontrivial) = (0u64, Vec::<u64>::new());
        let mut mine = vec![];
        for v in 0..n_variants(&opts) {
            let t = Tree::from_parents(parent, variant(&opts, v));
            let muts = mutations(&t);
            for rev in [false, true] {
                for m in &muts {
                    let mut bt = build(&t, rev);
                    apply_mutation(&t, &mut bt, m);
                    cases += 1;
                    if t.has_intermediate() {
                        // different mutations can give the same document (a kid duplicated next to itself): count documents
                        nontrivial.push(vharness::cmp::digest_doc(&bt.doc) ^ 0x5a5a);
                    }
                    let case = tree_case(&t, rev, Some(m));
                    let extreme = is_count_extreme(m);
                    // an extreme Count: the collecting forms run in a child process only
                    let res = watch.guarded(&case, || {
                        let r = check_lenient_all(&bt.doc, max_calls, !extreme).map(|_| ());
                        if r.is_ok() && !extreme {
                            check_get_pages_lenient(&bt.doc).map(|_| ())
                        } else {
                            r
                        }
                    });
                    if res.is_ok() && extreme {
                        mine.push((w, case.clone(), t.clone()));
                    }
                    if let Err(e) = res {
                        run.fail(None, with_doc(case.clone(), &bt.doc), &e, "terminates within objects.len()+1 calls of next(), yields only existing dictionaries of /Type /Page, no panic");
                    }
                    if t.len() == 4 && m["m"] == "kid_insert" && m["what"] == "ancestor" && rev && sampled.fetch_add(1, Ordering::Relaxed) < 2 {
                        run.sample(json!({"case": with_doc(case, &bt.doc)}));
                    }
                }
            }
        }
        run.eval(cases);
        nontrivial.iter().for_each(|h| run.nontrivial_hash(*h));
        run.add("malformed", cases);
        child_cases.lock().unwrap().extend(mine);
    });
    run.set("wall_after_malformed_in_process_s", json!((run.elapsed() * 10.0).round() / 10.0));
    // get_pages() with an extreme Count: child processes only
    let mut cc = child_cases.into_inner().unwrap();
    cc.sort_by_cached_key(|a| (a.0, a.1.to_string()));
    let chunks = 16usize;
    let per = cc.len().div_ceil(chunks).max(1);
    let groups: Vec<&[(usize, Value, Tree)]> = cc.chunks(per).collect();
    let predicted = AtomicU64::new(0);
    util::par_for(groups.len(), |g| {
        let cases: Vec<Value> = groups[g].iter().map(|c| c.1.clone()).collect();
        let outs = run_in_children(&cases, &format!("g{}", g), usize::MAX);
        run.eval(cases.len() as u64);
        for ((_, case, t), out) in groups[g].iter().zip(outs.iter()) {
            let (doc, _) = doc_of_case(case);
            if sizehint_predicate(t, &case["mutation"], doc.objects.len()) {
                predicted.fetch_add(1, Ordering::Relaxed);
            }
            if !out.starts_with("ok ") {
                report_child_failure(run, case, t, out);
            }
        }
    });
    run.add("get_pages_in_child_process", cc.len() as u64);
    run.add("count_extreme_on_pending_sibling", predicted.load(Ordering::Relaxed));
    if let Some(c) = cc.iter().rev().find(|c| sizehint_predicate(&c.2, &c.1["mutation"], 10)) {
        run.sample(json!({"case": c.1, "get_pages": "run in a child process under RLIMIT_AS 2 GiB; the extreme Count sits on a sibling that is pending after the first page"}));
    }
}

/// A get_pages() failure on an extreme Count is attributed to the catalogued size_hint defect only
/// if the predicate holds and the same tree with the correct Count passes.
fn report_child_failure(run: &Run, case: &Value, t: &Tree, out: &str) {
    let (doc, _) = doc_of_case(case);
    let mut finding = None;
    if sizehint_predicate(t, &case["mutation"], doc.objects.len()) {
        let rev = case["rev"].as_bool().unwrap_or(false);
        let b = build(t, rev);
        let want = expected_pages(t, &b);
        let dummy = AtomicU64::new(0);
        if check_valid(&b.doc, &want, &dummy).is_ok() {
            finding = Some(SIZEHINT);
        }
    }
    run.fail(
        finding,
        with_doc(case.clone(), &doc),
        &format!("get_pages() in a child process (address space limited to 2 GiB): {}", out),
        "get_pages() returns; keys 1..n; every value an existing dictionary of /Type /Page",
    );
}

fn replay(run: &Run, path: &std::path::Path) -> ! {
    let case = vharness::run::read_replay(path);
    // a call that never returns is a failing replay
    std::thread::spawn(|| {
        std::thread::sleep(std::time::Duration::from_secs(HANG_SECS));
        println!("observed: page enumeration did not return within {} s", HANG_SECS);
        println!("REPLAY property=C12 result=FAIL");
        std::process::exit(1);
    });
    let dummy = AtomicU64::new(0);
    let mut failed = false;
    let mut say = |what: &str, r: Result<String, String>| match r {
        Ok(s) => println!("observed: {}: {}", what, s),
        Err(e) => {
            println!("observed: {}: FAIL {}", what, e);
            failed = true;
        }
    };
    match case["kind"].as_str() {
        Some("chain") => {
            let c = Chain::from_json(&case);
            let t = c.tree();
            let mut b = build(&t, c.rev);
            let want = expected_pages(&t, &b);
            if let Some(m) = case["max_id"].as_u64() {
                b.doc.max_id = m as u32;
            }
            if c.max_pending() <= LIMIT {
                say("valid chain", check_valid(&b.doc, &want, &dummy).map(|_| format!("{} pages in depth-first order", want.len())));
            } else {
                say("chain beyond the limit", check_lenient_all(&b.doc, &dummy, true).and_then(|g| check_get_pages_lenient(&b.doc).map(|_| format!("terminates, {} of {} pages yielded", g.len(), want.len()))));
            }
        }
        Some("tree") => {
            let (doc, t) = doc_of_case(&case);
            let t = t.unwrap();
            if case["mutation"].is_null() {
                let b = build(&t, case["rev"].as_bool().unwrap_or(false));
                let mut want = expected_pages(&t, &b);
                if let Some(scheme) = case["numbering"].as_str() {
                    want = want.iter().map(|p| shared_number_id(scheme, *p)).collect();
                    println!("numbering {}: objects {:?}", scheme, doc.objects.keys().collect::<Vec<_>>());
                }
                say("valid tree", check_valid(&doc, &want, &dummy).map(|_| format!("pages {}", ids_str(&want))));
            } else {
                say("page_iter on malformed tree, every form", check_lenient_all(&doc, &dummy, !is_count_extreme(&case["mutation"])).map(|g| format!("terminates, yields {}", ids_str(&g))));
                if is_count_extreme(&case["mutation"]) {
                    let outs = run_in_children(&[case.clone()], "replay", usize::MAX);
                    let r = if outs[0].starts_with("ok ") { Ok(outs[0].clone()) } else { Err(outs[0].clone()) };
                    say("every form in a child process", r);
                    println!("pending-sibling predicate of {}: {}", SIZEHINT, sizehint_predicate(&t, &case["mutation"], doc.objects.len()));
                } else {
                    say("get_pages on malformed tree", check_get_pages_lenient(&doc).map(|m| format!("{:?}", m)));
                }
            }
        }
        Some("levels") => {
            let t = level_tree(&dims_of(&case), case["indirect"].as_bool().unwrap_or(false));
            let mut b = build(&t, case["rev"].as_bool().unwrap_or(false));
            let want = expected_pages(&t, &b);
            if let Some(m) = case["max_id"].as_u64() {
                b.doc.max_id = m as u32;
            }
            println!("tree: {} nodes below the root, {} pages, {} objects in the document", t.len() - 1, want.len(), b.doc.objects.len());
            say("level tree", check_valid(&b.doc, &want, &dummy).map(|_| format!("{} pages in depth-first order", want.len())).map_err(clip));
        }
        Some("wide") => {
            let t = wide_tree(case["form"].as_str().unwrap_or(""), case["width"].as_u64().unwrap_or(1) as usize, case["indirect"].as_bool().unwrap_or(false));
            let mut b = build(&t, case["rev"].as_bool().unwrap_or(false));
            let want = expected_pages(&t, &b);
            if let Some(m) = case["max_id"].as_u64() {
                b.doc.max_id = m as u32;
            }
            say("wide tree", check_valid(&b.doc, &want, &dummy).map(|_| format!("{} pages in depth-first order", want.len())));
        }
        Some("history") => {
            let spec = |tk: &str, rk: &str| {
                let t = Tree::from_json(&case[tk]);
                let rev = case[rk].as_bool().unwrap_or(false);
                let b = build(&t, rev);
                let want = expected_pages(&t, &b);
                Spec { t, rev, b, want }
            };
            let (a, b) = (spec("a", "a_rev"), spec("b", "b_rev"));
            let mode = case["mode"].as_str().unwrap_or("").to_string();
            say(&format!("history {}", mode), run_history(&a, &b, &mode, &dummy).map(|_| format!("tree A pages {}, tree B pages {}: every enumeration agrees", ids_str(&a.want), ids_str(&b.want))));
        }
        Some("edit") => {
            let t = Tree::from_json(&case["tree"]);
            let rev = case["rev"].as_bool().unwrap_or(false);
            let mode = case["mode"].as_str().unwrap_or("").to_string();
            say(&format!("single edit {} ({})", case["edit"], mode), run_edit(&t, rev, &case["edit"], &mode, &dummy).map(|_| "every enumeration agrees".to_string()));
        }
        Some("method") => {
            let t = Tree::from_json(&case["tree"]);
            let rev = case["rev"].as_bool().unwrap_or(false);
            let op = case["op"].as_str().unwrap_or("").to_string();
            say(&format!("enumeration, {}, enumeration", op), run_method(&t, rev, &op, &dummy).map(|_| "every enumeration agrees".to_string()));
        }
        Some("refchain") => {
            let t = Tree::from_json(&case["tree"]);
            let rev = case["rev"].as_bool().unwrap_or(false);
            let site = Site::from_json(&case["link"]);
            let hops = case["hops"].as_u64().unwrap_or(0) as usize;
            say(
                &format!("link {} behind {} hops", case["link"], hops),
                run_refchain(&t, rev, &site, hops, &dummy).map(|exact| if exact { "same enumeration as with direct links".to_string() } else { "beyond the dereference limit: terminates, yields only pages (no verdict on the enumeration)".to_string() }),
            );
        }
        Some("cyc") => {
            let outs = run_in_children(&[case.clone()], "replay", usize::MAX);
            let r = if outs[0].starts_with("ok ") { Ok(format!("every form returns and agrees; pages yielded: {}", &outs[0][3..])) } else { Err(outs[0].clone()) };
            say("kid cycle, every form of the enumeration in a child process", r);
        }
        Some("indirect_type") => {
            let t = Tree::from_json(&case["tree"]);
            let rev = case["rev"].as_bool().unwrap_or(false);
            let hops = case["hops"].as_u64().unwrap_or(1) as usize;
            let r = run_indtype(&t, rev, &case["nodes"], hops, &dummy);
            if r.is_err() {
                let mut bb = build(&t, rev);
                apply_indirect_type(&mut bb, &indtype_nodes(&t, &case["nodes"]), hops);
                println!("predicate of {}: {}", INDTYPE, indtype_predicate(&t, rev, &case["nodes"], &bb.doc));
            }
            say(&format!("/Type of node(s) {} behind {} reference hop(s)", case["nodes"], hops), r.map(|_| "same enumeration as with direct /Type entries".to_string()));
        }
        Some("stale_max_id") => {
            let t = Tree::from_json(&case["tree"]);
            let (doc, want, _) = stale_doc(&t, case["numbering"].as_str().unwrap_or("asc"), &case["link"], case["hops"].as_u64().unwrap_or(1) as usize, case["max_id"].as_str().unwrap_or("highest"), case["via"].as_str().unwrap_or("objects_insert"));
            println!("document: max_id = {}, objects {}", doc.max_id, doc_to_json(&doc));
            say(&format!("link {} behind {} hop(s), max_id {}", case["link"], case["hops"], case["max_id"]), run_stale(&case, true, &dummy).map(|_| format!("pages {}", ids_str(&want))));
        }
        Some("near_miss_type") | Some("spelled") => {
            if case["leg"] == "file" {
                let (mem, _) = file_case_doc(&case);
                println!("file written:\n{}", show_bytes(&ser_file(&[(&mem, Spelling::from_json(&case["spelling"]))])));
            }
            let what = if case["kind"] == "spelled" { format!("valid tree respelled {}", case["spelling"]) } else { format!("node {} typed {}", case["node"], case["name_for_reading"]) };
            say(&what, run_file_case(&case, &dummy));
        }
        Some("file_batch") => {
            let group: Vec<Value> = case["cases"].as_array().cloned().unwrap_or_default();
            match run_file_batch(&group, &dummy) {
                Err(e) => say("file holding several documents", Err(e)),
                Ok(rs) => {
                    let bad: Vec<String> = group.iter().zip(rs.iter()).filter_map(|(c, r)| r.as_ref().err().map(|e| format!("{}: {}", c, e))).collect();
                    say(&format!("file holding {} documents", group.len()), if bad.is_empty() { Ok("every document enumerates as demanded".into()) } else { Err(bad.join(" | ")) });
                }
            }
        }
        _ => machinery("unknown replay kind"),
    }
    run.finish_replay(failed)
}

fn main() {
    let args: Vec<String> = std::env::args().collect();
    if let Some(i) = args.windows(2).position(|w| w[0] == "--part" && w[1] == "child") {
        let file = args.get(i + 2).cloned().unwrap_or_else(|| machinery("--part child <file> <from>"));
        let from = args.get(i + 3).and_then(|s| s.parse().ok()).unwrap_or(0);
        child_main(&file, from);
    }
    let run = Run::from_args("C12", "exploration");
    util::quiet_panics();
    util::init_pool();
    util::pin_schedule();
    if let Mode::Replay(path) = run.mode.clone() {
        replay(&run, &path);
    }
    let b = if run.thorough { Bounds { valid_nodes: 8, mutated_nodes: 6 } } else { Bounds { valid_nodes: 7, mutated_nodes: 5 } };
    run.rule(&format!(
        "valid trees: every ordered rooted tree with <= {} nodes (root = the catalog's Pages node) x every typing of each leaf as Page / empty Pages \
         with direct Kids / empty Pages with Kids behind a reference x Kids direct or behind a reference for every inner node x ids ascending or \
         reversed; chains of single-child Pages nodes of depth 255, 256, 257, 300 x sibling page none/after/before the chain child x Kids \
         direct/indirect x ids ascending/reversed. Malformed: every single mutation (kid inserted at every position or replacing every kid: \
         reference to each ancestor / the node itself / a sibling again / the catalog, integer, direct Page dictionary, dangling reference, null; \
         Type missing/Foo/swapped/integer on every node; Kids missing/integer/dictionary/reference to a dictionary/dangling/nested array; \
         Count +1/-1/negative/real/name/missing/2^62/10^12/i64::MAX/reference to 2^62; catalog Pages missing/integer/direct dictionary/dangling/\
         a Page; trailer Root missing/dangling) of every such tree with <= {} nodes. Non-trivial = the tree has at least one intermediate \
         (non-root) Pages node; distinct = counted once per document digest (two mutations that produce the same document count once). \
         Wide trees: 255, 256, 257, 1000 (thorough: + 1023, 1024, 1025, 4096, 20000) kids under the root - all pages / sqrt(w) Pages nodes sharing w pages, \
         each followed by a page / pages alternating with empty Pages nodes - x Kids direct/indirect x ids ascending/reversed. \
         LEVEL TREES beyond 2^16 nodes (both tiers; built once from the generator parameters, which are all a replay stores): complete trees whose root holds d0 kids, every node of level i \
         d_i kids, the last level pages - one node with 70,000 / 65,536 / 65,537 page kids; 280 x 250; 41 x 41 x 41; 2 x 3 x 5 x 7 x 11 x 31 (thorough: + 200,000; 131,073; 65,535; \
         600 x 400; 250 x 280; 2 x 70,000; 70,000 x 1; 60^3; 17^4; 4^8) x Kids direct/indirect x ids ascending/reversed (quick: 65,536 and 65,537 as direct+ascending and indirect+reversed only) - exact verdict through every form (size_hint() asked at every 4099th step), and \
         once more under max_id 0. SHARED OBJECT NUMBERS: every tree of the valid family x ids ascending/reversed once more under four numberings of the in-memory document in which objects \
         share an object NUMBER and differ in generation only - every object (catalog, root, Pages nodes, pages, Kids arrays) is (20, j); pairs (20+j/2, j%2) so that catalog and root / two \
         siblings / a Pages node and its page share a number; the other pairing (root and its first kid share a number); triples with generations 0, 1, 65535 - exact verdict by stepping and \
         get_pages(), one numbering (in rotation) through every form. \
         History: every ORDERED pair (A, B) of valid trees with <= {} nodes (x ids ascending/reversed) in 8 sequences on ONE Document value - enumerate A, \
         turn the document into B through the public fields (entry by entry: objects.remove / get_mut / insert, trailer.set; or by assigning objects and \
         trailer wholesale), enumerate again; only page_iter() before the edit; edit a clone of the enumerated document (and re-check the original); clone \
         after the edit; A -> B -> A; delete_object/set_object first and a field edit back; get_pages() twice before the edit - and every ordered pair with \
         <= {} nodes in the first two sequences; non-trivial = A and B enumerate differently. Single edits: every valid tree with <= {} nodes x ids \
         ascending/reversed x every edit (a new page at every position of every Pages node; every kid removed; every kid moved to the end of every Pages \
         node outside its subtree; every Kids array reversed; the catalog's Pages pointed at every intermediate node; a new catalog for every Pages node \
         installed through trailer.set) x {{in place, on a clone, only page_iter() before}}, and x 16 mutating-method steps between two enumerations \
         (renumber_objects, renumber_objects_with, twice with get_pages between, delete_pages first/last/all, delete_object of the first page, prune_objects, \
         add_object, new_object_id, compress, set_object / get_object_mut reversing the root kids, clone, a page added by add_object + field edit, \
         renumbering followed by a field edit). Reference chains: every valid tree with <= {} nodes x ids ascending/reversed x every link (each Kids value, \
         each kid entry, each Count, each Parent, the catalog's Pages, the trailer's Root, all links at once, all kid entries at once) reached through \
         h hops of bare-reference objects, h in {{0,1,2,3,16,64,126,127,128}} with an exact verdict (also on a clone) and 129 (thorough: 130, 131, 200, 300) \
         without one; distinct by construction. \
         FORMS: in the valid, chain, wide, malformed, reference-chain, indirect-Type and kid-cycle families every document is enumerated step by step with next() and then through \
         every other form a caller uses - for, size_hint() before and after every next() (well-formed trees: it must enclose the number of pages still to come), count(), last(), \
         nth(k) for every k in 0..=n+1 (n > 40: 8 positions), nth(1) repeated on one iterator, collect::<Vec>, Vec::extend, k x next() then collect for k in {{1, 2, n/2, n-1}}, \
         get_pages(), next() twice after None - and every form must agree with the step-by-step run (history and edit families: next() and get_pages() only). \
         Malformed additions: a kid (inserted at every position / replacing every kid) that is a reference with the RIGHT object number and a generation no object has - to every node of \
         the tree (a page, a Pages node, the node itself, an ancestor, the replaced kid under generations 1, 2, 65535) and to the catalog; a kid that is a node of another subtree (a node \
         with two parents); Parent of every node missing / itself / the root / the first page / the catalog / dangling / wrong generation / an integer. Every yielded id is looked up in \
         doc.objects directly (key present and a dictionary whose /Type is the name Page), never through the document's own lookup functions. \
         Indirect /Type: every valid tree with <= {} nodes x ids ascending/reversed x the /Type of each single node, of all nodes, of all leaf pages moved into an object of its own \
         1 or 2 reference hops away - exact verdict. Kid cycles with fan-out (every case in a child process of this binary, each case under a CPU budget of {} ms and RLIMIT_AS 2 GiB): \
         root Kids = [0..1 pages, M1, 0..1 pages]; M1 Kids = every string over {{fresh page, back edge}} of length 1..{} with at least one back edge, the back edge pointing to M1 itself / \
         to the root / to a partner M2 whose Kids is again every such string (length <= {}) with back edges to M1; Count of every node on the cycle in {{absent, 0, -1, 1, 2^62, a name}}; \
         Kids arrays direct / separate objects. \
         STALE max_id (all documents of all families are assembled through the public `objects` map): every valid tree with <= {} nodes x every kind of indirection (none; each Kids value, \
         each kid entry, each Count, the catalog's Pages, the trailer's Root, all links, all kid entries, /Type of each node, /Type of all nodes, everything at once) behind 1 and 2 references x \
         numbering (dense ascending, dense reversed, flipped = the referenced helper objects get the LOWEST numbers, sparse n*997+3, and - max_id 0 and highest only - generations 0/7/14 by number) x max_id in {{0, 1, the median number in use, highest-1, highest, \
         highest+100}} - so the targets of the references lie above and below max_id - plus the same document assembled with new_object_id/add_object only; exact verdict (every form for max_id 0, \
         highest-1 and the add_object build, stepping + get_pages() for the rest). Every tree of the valid family once more under one of max_id 0 / 1 / highest-1 / highest+100 (in rotation), every \
         chain and every wide tree under all four. \
         NEAR-MISS /Type names (list under near_miss_type_names: Page and Pages with a trailing / leading / embedded NUL, space, TAB, LF, CR, FF, #00 and #20 as literal characters, a delimiter, a \
         high byte, other case, a prefix, an extension, doubled): trees with <= {} nodes x ids ascending/reversed x every node x every name, trees with <= {} nodes x the short list (NUL, space, \
         lower case, embedded NUL, literal #00, Pag, Pagee, Pagess), /Type direct or 1 reference away - IN MEMORY (Object::Name with those bytes) and LOADED FROM BYTES: the harness's own serializer \
         (header, objects, classic cross-reference table, trailer; bytes outside '!'..'~', delimiters and '#' as #XX) writes the documents - {} per file on disjoint number ranges, each confirmed \
         on a file of its own when it fails - Document::load_mem loads them, and every yielded id must be a page BY THE /Type AS WRITTEN; small trees also in two other spellings (last byte as #xx; \
         second byte and keys as #xx with a NUL after the name) and through lopdf's own writer (save_to, load_mem). RESPELLED valid trees (exact verdict on the loaded file): /Type values plain / \
         first / second / last / every byte as #xx / every byte as lower-case #xx x keys plain or with the second byte as #xx, and a NUL / TAB / FF / CR / CRLF / comment / nothing (the next token is \
         a delimiter) after the /Type value; /Type direct or 1 reference away (larger trees: every fourth spelling). Further ill-typed nodes in the malformed family: /Type behind a reference with \
         the right number and a generation no object has, to a missing object, to an integer, to the name with a trailing NUL, to an alias whose own target is stale",
        b.valid_nodes, b.mutated_nodes,
        if run.thorough { 4 } else { 3 }, if run.thorough { 5 } else { 4 }, if run.thorough { 6 } else { 5 }, if run.thorough { 5 } else { 4 },
        if run.thorough { 5 } else { 4 }, CASE_CPU_MS, if run.thorough { 5 } else { 4 }, if run.thorough { 4 } else { 3 },
        if run.thorough { 5 } else { 4 }, if run.thorough { 4 } else { 3 }, if run.thorough { 5 } else { 4 }, FILE_BATCH
    ));
    run.assume("Document::max_id is the counter new_object_id/add_object hand out ids from; it is a public field that objects.insert does not maintain, and nothing in the statement makes the page tree depend on it: a document whose max_id is lower or higher than its highest object number has the same page tree");
    run.assume("near-miss legs loaded from bytes: a name is the byte sequence after #xx decoding (ISO 32000-1 7.3.5), so /Page#00 is the five-byte name Page+NUL (an ill-typed node) and /P#61ge is the name Page (a page); the reference for 'is a page object' is the in-memory document the file was written from, never what the loader returned. Documents are batched into one file per 192 (disjoint object numbers, loaded objects of each range moved into a Document of their own); a failing case is re-run on a file of its own and that run is the replay");
    run.assume("a case of the kid-cycle family (and get_pages()/collect on a tree with an extreme Count) that uses more than its CPU budget in a child process is reported as not terminating: the unchanged tree needs microseconds for such a case, the budget is 500 ms of CPU time (not wall time), and the replay runs the same child");
    run.assume("any dictionary value may be an indirect reference (ISO 32000-1 7.3.10), so a node whose /Type is `9 0 R` with `9 0 obj /Page` is a page: the indirect-Type family demands the full enumeration (open finding pagetree-indirect-type)");
    run.assume("size_hint() is part of the enumeration's interface: on a well-formed tree with correct Counts its bounds must enclose the number of pages still to come at every step; on malformed trees it only has to return with lower <= upper");
    run.assume("lopdf follows a chain of at most Document::DEREF_LIMIT = 128 reference hops (the hops counted by Document::dereference: for a Kids or Count value from the value itself, for a kid entry / Pages / Root from the object the entry names); observed on this build: 128 hops enumerate fully and 129 do not, at every kind of link (recorded under largest_hop_count_with_full_enumeration_observed). A tree with a longer chain is outside the domain: it is counted, and only termination and type safety are demanded");
    run.assume("an id whose object is a chain of bare references ending at a Page dictionary denotes that page (ISO 32000-1 7.3.10: a reference stands for the object it names; Document::get_object resolves it): when a kid ENTRY is such a chain, page_iter()/get_pages() may yield the entry's id or the page's own id");
    run.assume("history and edit families: the reference after an edit is a depth-first walk written in the harness over the public objects/trailer maps (cross-checked against the tree-level model before every edit), and get_pages() of a Document assembled from scratch out of the same objects and trailer");
    run.assume("valid = every node typed, Kids arrays of references to tree nodes, at most 256 sibling lists pending at once (PAGE_TREE_DEPTH_LIMIT bounds the code's stack of pending sibling lists); beyond that and for malformed trees only termination within objects.len()+1 calls of next(), type safety of the yielded ids and absence of panics are demanded");
    run.assume("the collecting forms (collect, extend, get_pages) on a tree with an extreme /Count are executed only in child processes of this binary under RLIMIT_AS = 2 GiB; an abort, signal or non-zero exit of the child is the failing outcome");
    run.assume("/Count is correct in valid trees; the root of the tree is always a Pages node");
    run.assume("Document::objects is a public map keyed by (number, generation): an in-memory document may hold (20, 0) and (20, 1) as two different objects (a file cannot - one in-use object per number - so these numberings exist in memory only), and a reference names exactly one of them. A well-formed page tree over such ids is inside the property's domain");
    run.assume("the number of nodes of a well-formed tree is not bounded by the statement: trees with more than 65,536 nodes are enumerated completely (lopdf's own budget is objects.len() visited kids, which a well-formed tree never exhausts)");
    let max_calls = AtomicU64::new(0);
    let watch = Watch::new();
    std::thread::scope(|sc| {
        sc.spawn(|| watch.patrol(&run));
        explore_valid(&run, &b, &max_calls, &watch);
        run.set("wall_after_valid_s", json!((run.elapsed() * 10.0).round() / 10.0));
        explore_chains(&run, &max_calls, &watch);
        explore_wide(&run, &max_calls, &watch);
        explore_levels(&run, &max_calls, &watch);
        run.set("wall_after_chains_s", json!((run.elapsed() * 10.0).round() / 10.0));
        explore_malformed(&run, &b, &max_calls, &watch);
        run.set("wall_after_malformed_s", json!((run.elapsed() * 10.0).round() / 10.0));
        explore_history(&run, &max_calls, &watch);
        run.set("wall_after_history_s", json!((run.elapsed() * 10.0).round() / 10.0));
        explore_edits(&run, &max_calls, &watch);
        run.set("wall_after_edits_s", json!((run.elapsed() * 10.0).round() / 10.0));
        explore_refchains(&run, &max_calls, &watch);
        run.set("wall_after_refchains_s", json!((run.elapsed() * 10.0).round() / 10.0));
        explore_indirect_type(&run, &max_calls, &watch);
        run.set("wall_after_indirect_type_s", json!((run.elapsed() * 10.0).round() / 10.0));
        explore_stale(&run, &max_calls, &watch);
        run.set("wall_after_stale_max_id_s", json!((run.elapsed() * 10.0).round() / 10.0));
        explore_near_miss(&run, &max_calls, &watch);
        run.set("wall_after_near_miss_s", json!((run.elapsed() * 10.0).round() / 10.0));
        explore_cycles(&run);
        watch.done.store(true, Ordering::SeqCst);
    });
    run.set("max_next_calls", json!(max_calls.load(Ordering::Relaxed)));
    run.exhaustive(true);
    run.finish();
}
