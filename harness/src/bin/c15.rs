//! C15 - ToUnicode CMaps decode text as the CMap defines (DESIGN §4 C15).
//!
//! Space: every sequence of <= 2 (quick) / <= 3 (thorough) definitions from the menu in
//! `refcmap::menu()`, rendered as CMap text through the choice recorder (default spelling plus bounded
//! deviations), put into a font's ToUnicode stream, parsed by `Dictionary::get_font_encoding` and
//! decoded by `Document::decode_text` for every mapped code and every ordered pair of mapped codes.
//! Oracle: `refcmap::expected_text` (last definition wins, range offset on the last unit, arrays
//! indexed by offset, UTF-16 decoding).
use lopdf::{Dictionary, Document, Object, Stream};
use serde_json::{json, Value};
use std::collections::BTreeMap;
use std::sync::Mutex;
use vharness::refcmap::{self as rc, Chooser, Def, Site, Stored};
use vharness::{util, Mode, Run};

type Input = Vec<(u8, u32)>;
type Out = Result<String, String>;

// ---------------------------------------------------------------------------------------------
// the implementation under test

fn font_doc(text: &[u8]) -> (Document, lopdf::ObjectId) {
    let mut doc = Document::with_version("1.7");
    let sid = doc.add_object(Stream::new(Dictionary::new(), text.to_vec()));
    let mut font = Dictionary::new();
    font.set("Type", Object::Name(b"Font".to_vec()));
    font.set("Subtype", Object::Name(b"Type0".to_vec()));
    font.set("BaseFont", Object::Name(b"Verif".to_vec()));
    font.set("Encoding", Object::Name(b"Identity-H".to_vec()));
    font.set("ToUnicode", Object::Reference(sid));
    let fid = doc.add_object(font);
    (doc, fid)
}

/// Parse the CMap through the public path and decode every input. Err = the CMap was rejected.
fn run_lopdf(text: &[u8], inputs: &[Input], st: &mut Stats) -> Result<Vec<Out>, String> {
    let (doc, fid) = font_doc(text);
    let font = doc.get_dictionary(fid).map_err(|e| format!("harness: {}", e))?;
    st.enc_calls += 1;
    let enc = match util::guard(|| font.get_font_encoding(&doc)) {
        Ok(Ok(e)) => e,
        Ok(Err(e)) => return Err(format!("get_font_encoding error: {}", e)),
        Err(p) => return Err(format!("get_font_encoding {}", p)),
    };
    if !matches!(enc, lopdf::Encoding::UnicodeMapEncoding(_)) {
        return Err(format!("get_font_encoding returned {:?}, not a ToUnicode map", enc));
    }
    let mut outs = Vec::with_capacity(inputs.len());
    for inp in inputs {
        let bytes = rc::input_bytes(inp);
        st.decode_calls += 1;
        outs.push(match util::guard(|| Document::decode_text(&enc, &bytes)) {
            Ok(Ok(s)) => Ok(s),
            Ok(Err(e)) => Err(format!("decode_text error: {}", e)),
            Err(p) => Err(format!("decode_text {}", p)),
        });
    }
    Ok(outs)
}

// ---------------------------------------------------------------------------------------------
// counters (accumulated per worker chunk, merged under one lock)

#[derive(Default)]
struct Stats {
    enc_calls: u64,
    decode_calls: u64,
    cmaps: u64,
    cmaps_nontrivial: u64,
    cases_nontrivial: u64,
    conservative: u64,
    liberal: u64,
    liberal_accepted_correct: u64,
    liberal_rejected: u64,
    liberal_misdecoded: u64,
    known_repeated_in_deviation: u64,
    cmaps_with_known_finding: u64,
    dev_hist: [u64; 3],
    /// per liberal class option: (accepted and correct, rejected, mis-decoded)
    liberal_by_class: BTreeMap<String, [u64; 3]>,
    /// per class: renderings in which the class deviated from its default
    class_exercised: BTreeMap<&'static str, u64>,
    by_part: BTreeMap<&'static str, u64>,
    long_inputs: u64,
    longest_input: u64,
    largest_section: u64,
}

impl Stats {
    fn merge(&mut self, o: Stats) {
        self.enc_calls += o.enc_calls;
        self.decode_calls += o.decode_calls;
        self.cmaps += o.cmaps;
        self.cmaps_nontrivial += o.cmaps_nontrivial;
        self.cases_nontrivial += o.cases_nontrivial;
        self.conservative += o.conservative;
        self.liberal += o.liberal;
        self.liberal_accepted_correct += o.liberal_accepted_correct;
        self.liberal_rejected += o.liberal_rejected;
        self.liberal_misdecoded += o.liberal_misdecoded;
        self.known_repeated_in_deviation += o.known_repeated_in_deviation;
        self.cmaps_with_known_finding += o.cmaps_with_known_finding;
        for i in 0..3 {
            self.dev_hist[i] += o.dev_hist[i];
        }
        for (k, v) in o.liberal_by_class {
            let e = self.liberal_by_class.entry(k).or_insert([0; 3]);
            for i in 0..3 {
                e[i] += v[i];
            }
        }
        for (k, v) in o.class_exercised {
            *self.class_exercised.entry(k).or_insert(0) += v;
        }
        self.long_inputs += o.long_inputs;
        self.longest_input = self.longest_input.max(o.longest_input);
        self.largest_section = self.largest_section.max(o.largest_section);
        for (k, v) in o.by_part {
            *self.by_part.entry(k).or_insert(0) += v;
        }
    }
}

// ---------------------------------------------------------------------------------------------
// inputs and deviation vectors

/// Every mapped code alone and every ordered pair of mapped codes. For CMaps with more than 24
/// mapped codes (only the hand-written code-space-edge CMaps) pairs are formed over 8 of them.
fn inputs_for(defs: &[Def]) -> Vec<Input> {
    let codes = rc::mapped_codes(defs);
    let mut v: Vec<Input> = codes.iter().map(|c| vec![*c]).collect();
    let pair_codes: Vec<(u8, u32)> = if codes.len() <= 24 {
        codes.clone()
    } else {
        let n = codes.len();
        [0, 1, 2, n / 2, n / 2 + 1, n - 3, n - 2, n - 1].iter().map(|&i| codes[i]).collect()
    };
    for a in &pair_codes {
        for b in &pair_codes {
            v.push(vec![*a, *b]);
        }
    }
    v
}

#[derive(Clone, Copy, PartialEq)]
enum Explore {
    /// all vectors with at most d non-zero entries over all sites
    Upto(usize),
    /// default spelling plus every combination of the section-merge choices
    MergeOnly,
    /// default spelling (one section per definition) and the spelling with every possible merge taken
    AllMerged,
}

fn vectors(sites: &[Site], how: Explore) -> Vec<Vec<usize>> {
    let n = sites.len();
    let mut out = vec![vec![]];
    match how {
        Explore::AllMerged => {
            let v: Vec<usize> = (0..n).map(|i| (sites[i].class == "merge") as usize).collect();
            if v.iter().any(|&x| x != 0) {
                out.push(v);
            }
        }
        Explore::MergeOnly => {
            let m: Vec<usize> = (0..n).filter(|&i| sites[i].class == "merge").collect();
            for mask in 1u32..(1 << m.len()) {
                let mut v = vec![0; n];
                for (k, &i) in m.iter().enumerate() {
                    if mask & (1 << k) != 0 {
                        v[i] = 1;
                    }
                }
                out.push(v);
            }
        }
        Explore::Upto(d) => {
            if d >= 1 {
                for i in 0..n {
                    for a in 1..sites[i].n {
                        let mut v = vec![0; n];
                        v[i] = a;
                        out.push(v);
                    }
                }
            }
            if d >= 2 {
                for i in 0..n {
                    for j in i + 1..n {
                        for a in 1..sites[i].n {
                            for b in 1..sites[j].n {
                                let mut v = vec![0; n];
                                v[i] = a;
                                v[j] = b;
                                out.push(v);
                            }
                        }
                    }
                }
            }
        }
    }
    out
}

fn render_with(defs: &[Def], script: &[usize]) -> (Vec<u8>, Vec<Site>) {
    let mut ch = Chooser::new(script);
    let text = rc::render(defs, &mut ch);
    if let Err(e) = ch.finish() {
        eprintln!("MACHINERY: choice recorder: {}", e);
        std::process::exit(2);
    }
    (text, ch.sites)
}

// ---------------------------------------------------------------------------------------------
// classification of failing codes (DESIGN Appendix A: cmap-split-multiunit / cmap-coalesce-multiunit)

/// Decode one code with the default spelling of `defs`; true when lopdf gives what `defs` define.
fn single_ok(defs: &[Def], len: u8, c: u32, st: &mut Stats) -> bool {
    let (text, _) = render_with(defs, &[]);
    let Some(exp) = rc::expected_text(defs, &[(len, c)]) else { return false };
    match run_lopdf(&text, &[vec![(len, c)]], st) {
        Ok(o) => o[0].as_ref() == Ok(&exp),
        Err(_) => false,
    }
}

/// `c` is decoded wrongly under the default spelling. Attribute it to a catalogued finding only if
/// the finding's predicate holds AND the same CMap without the splitting / coalescing neighbours
/// decodes `c` correctly (to the same expected text). Anything else stays unclassified.
fn classify_code(defs: &[Def], len: u8, c: u32, st: &mut Stats) -> Option<&'static str> {
    let w = rc::winner(defs, len, c)?;
    let wd = &defs[w];
    let sk = rc::stored_kind(wd);
    if matches!(sk, Stored::Offset(_)) {
        return None; // one-unit targets are stored as an offset: position-independent
    }
    // later definitions that overwrite a code of the winner below c (they cannot cover c itself)
    let split: Vec<usize> = (w + 1..defs.len()).filter(|&j| defs[j].len() == len && defs[j].lo() < c && defs[j].hi() >= wd.lo()).collect();
    // other definitions with an equal stored target whose interval overlaps or touches the winner's
    let coal: Vec<usize> = (0..defs.len()).filter(|&j| j != w && rc::stored_kind(&defs[j]) == sk && defs[j].overlaps_or_touches(wd)).collect();
    let want = rc::expected_text(defs, &[(len, c)])?;
    let mut passes_without = |remove: &[usize]| -> bool {
        let rest: Vec<Def> = defs.iter().enumerate().filter(|(i, _)| !remove.contains(i)).map(|(_, d)| d.clone()).collect();
        rc::expected_text(&rest, &[(len, c)]).as_ref() == Some(&want) && single_ok(&rest, len, c, st)
    };
    if !split.is_empty() && passes_without(&split) {
        return Some("cmap-split-multiunit");
    }
    if !coal.is_empty() && passes_without(&coal) {
        return Some("cmap-coalesce-multiunit");
    }
    if !split.is_empty() && !coal.is_empty() {
        let mut both = split.clone();
        both.extend(&coal);
        if passes_without(&both) {
            return Some("cmap-split-multiunit");
        }
    }
    None
}

// ---------------------------------------------------------------------------------------------
// one CMap, all its renderings

fn input_json(inp: &Input) -> Value {
    Value::Array(inp.iter().map(|&(l, c)| json!(rc::hex_code(l, c, false))).collect())
}

fn def_text(d: &Def) -> String {
    let l = d.len();
    let u = |t: &rc::Units| format!("<{}>", rc::hex_units(t, false, false));
    match d {
        Def::Char { code, t, .. } => format!("bfchar <{}> {}", rc::hex_code(l, *code, false), u(t)),
        Def::Range { lo, hi, t, .. } => format!("bfrange <{}> <{}> {}", rc::hex_code(l, *lo, false), rc::hex_code(l, *hi, false), u(t)),
        Def::Array { lo, hi, ts, .. } => {
            format!("bfrange <{}> <{}> [{}]", rc::hex_code(l, *lo, false), rc::hex_code(l, *hi, false), ts.iter().map(u).collect::<Vec<_>>().join(" "))
        }
    }
}

fn case_json(part: &str, defs: &[Def], sites: &[Site], script: &[usize], text: &[u8], inp: Option<&Input>) -> Value {
    let choices: Vec<Value> = sites.iter().enumerate().map(|(i, s)| json!([s.class, s.n, script.get(i).copied().unwrap_or(0)])).collect();
    json!({
        "about": format!("{}{}", defs.iter().map(def_text).collect::<Vec<_>>().join(" | "), inp.map(|i| format!(" ; input {}", input_json(i))).unwrap_or_default()),
        "part": part,
        "defs": defs.iter().map(|d| d.to_json()).collect::<Vec<_>>(),
        "choices": choices,
        "input": inp.map(input_json),
        "cmap_text": String::from_utf8_lossy(text),
    })
}

fn show(o: &Out) -> String {
    match o {
        Ok(s) => format!("text {:?} (U+{})", s, s.chars().map(|c| format!("{:04X}", c as u32)).collect::<Vec<_>>().join(" U+")),
        Err(e) => e.clone(),
    }
}

fn nontrivial(defs: &[Def]) -> bool {
    (0..defs.len()).any(|i| (i + 1..defs.len()).any(|j| defs[i].overlaps_or_touches(&defs[j])))
}

fn check_cmap(run: &Run, part: &'static str, defs: &[Def], how: Explore, st: &mut Stats) {
    check_cmap_inputs(run, part, defs, how, inputs_for(defs), st)
}

/// `inputs` must contain every code that occurs in a longer input also as a one-code input.
fn check_cmap_inputs(run: &Run, part: &'static str, defs: &[Def], how: Explore, inputs: Vec<Input>, st: &mut Stats) {
    if !defs.iter().all(|d| d.well_formed()) {
        eprintln!("MACHINERY: generated an ill-formed definition in part {}", part);
        std::process::exit(2);
    }
    let expected: Vec<String> = inputs.iter().map(|i| rc::expected_text(defs, i).expect("inputs are mapped codes")).collect();
    let nt = nontrivial(defs);
    st.cmaps += 1;
    st.largest_section = st.largest_section.max(defs.len() as u64);
    *st.by_part.entry(part).or_insert(0) += 1;
    if nt {
        st.cmaps_nontrivial += 1;
    }
    let (text0, sites) = render_with(defs, &[]);
    // ---- default spelling
    st.conservative += 1;
    st.dev_hist[0] += 1;
    if nt {
        st.cases_nontrivial += 1;
    }
    // per input: None = correct under the default spelling, Some((observed, finding)) otherwise
    let mut base: Vec<Option<(Out, Option<&'static str>)>> = vec![None; inputs.len()];
    match run_lopdf(&text0, &inputs, st) {
        Err(e) => {
            run.fail(None, case_json(part, defs, &sites, &[], &text0, None), &e, "a well-formed CMap in the template spelling is accepted");
            return;
        }
        Ok(outs) => {
            let single_idx = |c: &(u8, u32)| inputs.iter().position(|i| i.len() == 1 && i[0] == *c);
            // singles first, then strings of several codes are explained by their singles
            let mut single_class: BTreeMap<(u8, u32), Option<&'static str>> = BTreeMap::new();
            for (k, inp) in inputs.iter().enumerate() {
                if inp.len() == 1 && outs[k].as_ref() != Ok(&expected[k]) {
                    let f = classify_code(defs, inp[0].0, inp[0].1, st);
                    single_class.insert(inp[0], f);
                    base[k] = Some((outs[k].clone(), f));
                }
            }
            for (k, inp) in inputs.iter().enumerate() {
                if inp.len() > 1 && outs[k].as_ref() != Ok(&expected[k]) {
                    // predicted from the single-code observations: concatenation, or the first failure
                    let mut predicted: Out = Ok(String::new());
                    let mut finding = None;
                    let mut explained = true;
                    for c in inp {
                        match single_idx(c) {
                            Some(si) => {
                                if let Some(Some(f)) = single_class.get(c) {
                                    finding = finding.or(Some(*f));
                                } else if single_class.contains_key(c) {
                                    explained = false;
                                }
                                match (&mut predicted, &outs[si]) {
                                    (Ok(p), Ok(s)) => p.push_str(s),
                                    (Ok(_), Err(e)) => predicted = Err(e.clone()),
                                    _ => {}
                                }
                            }
                            None => explained = false,
                        }
                    }
                    let f = if explained && finding.is_some() && predicted == outs[k] { finding } else { None };
                    base[k] = Some((outs[k].clone(), f));
                }
            }
            // report: every unclassified failure is a violation (first one written out per CMap);
            // classified ones are one known-finding case per CMap and finding id
            let mut ids: Vec<&'static str> = vec![];
            let mut violated = false;
            for (k, b) in base.iter().enumerate() {
                if let Some((obs, f)) = b {
                    match f {
                        None if !violated => {
                            violated = true;
                            run.fail(None, case_json(part, defs, &sites, &[], &text0, Some(&inputs[k])), &show(obs), &show(&Ok(expected[k].clone())));
                        }
                        Some(id) if !ids.contains(id) => {
                            ids.push(id);
                            run.fail(Some(id), case_json(part, defs, &sites, &[], &text0, Some(&inputs[k])), &show(obs), &show(&Ok(expected[k].clone())));
                        }
                        _ => {}
                    }
                }
            }
            if !ids.is_empty() {
                st.cmaps_with_known_finding += 1;
            }
        }
    }
    // ---- deviations
    for script in vectors(&sites, how).into_iter().skip(1) {
        let (text, sites2) = render_with(defs, &script);
        if sites2 != sites {
            eprintln!("MACHINERY: choice sites changed under deviation {:?}", script);
            std::process::exit(2);
        }
        let dev: Vec<usize> = (0..script.len()).filter(|&i| script[i] != 0).collect();
        let liberal = dev.iter().any(|&i| sites[i].liberal);
        st.dev_hist[dev.len().min(2)] += 1;
        for &i in &dev {
            *st.class_exercised.entry(sites[i].class).or_insert(0) += 1;
        }
        if liberal {
            st.liberal += 1;
        } else {
            st.conservative += 1;
            if nt {
                st.cases_nontrivial += 1;
            }
        }
        let lib_key: Vec<String> = dev.iter().filter(|&&i| sites[i].liberal).map(|&i| format!("{}={}", sites[i].class, script[i])).collect();
        let mut lib_slot = |st: &mut Stats, slot: usize| {
            for k in &lib_key {
                st.liberal_by_class.entry(k.clone()).or_insert([0; 3])[slot] += 1;
            }
        };
        match run_lopdf(&text, &inputs, st) {
            Err(e) => {
                if liberal {
                    st.liberal_rejected += 1;
                    lib_slot(st, 1);
                } else {
                    run.fail(
                        None,
                        case_json(part, defs, &sites, &script, &text, None),
                        &e,
                        "a well-formed CMap spelled with conservative white-space / sectioning variations is accepted",
                    );
                }
            }
            Ok(outs) => {
                let mut bad = None;
                let mut repeats = 0;
                for k in 0..inputs.len() {
                    if outs[k].as_ref() == Ok(&expected[k]) {
                        continue;
                    }
                    match &base[k] {
                        Some((obs, Some(_))) if *obs == outs[k] => repeats += 1,
                        _ => {
                            bad = Some(k);
                            break;
                        }
                    }
                }
                st.known_repeated_in_deviation += (repeats > 0) as u64;
                if let Some(k) = bad {
                    if liberal {
                        st.liberal_misdecoded += 1;
                        lib_slot(st, 2);
                    }
                    run.fail(None, case_json(part, defs, &sites, &script, &text, Some(&inputs[k])), &show(&outs[k]), &show(&Ok(expected[k].clone())));
                } else if liberal {
                    st.liberal_accepted_correct += 1;
                    lib_slot(st, 0);
                }
            }
        }
    }
}

// ---------------------------------------------------------------------------------------------
// enumeration

/// All sequences of exactly `k` menu entries, index-addressed so that nothing is materialised.
fn seq_at(menu: &[Def], k: usize, mut idx: u64) -> Vec<Def> {
    let n = menu.len() as u64;
    let mut v = vec![Def::Char { len: 1, code: 0, t: vec![0] }; k];
    for p in (0..k).rev() {
        v[p] = menu[(idx % n) as usize].clone();
        idx /= n;
    }
    v
}

fn sweep(run: &Run, total: &Mutex<Stats>, part: &'static str, menu: &[Def], k: usize, how: Explore, filter: Option<(u64, u64)>) {
    let n = menu.len() as u64;
    let count = n.pow(k as u32);
    let chunk: u64 = if k >= 3 { 2048 } else { 64 };
    let nchunks = count.div_ceil(chunk);
    util::par_for(nchunks as usize, |ci| {
        let mut st = Stats::default();
        let lo = ci as u64 * chunk;
        let hi = (lo + chunk).min(count);
        for idx in lo..hi {
            if let Some((m, r)) = filter {
                if idx % m != r {
                    continue;
                }
            }
            let defs = seq_at(menu, k, idx);
            if part == "len134" && defs.iter().all(|d| d.len() == 1) {
                continue; // already enumerated by seq1 / seq2
            }
            check_cmap(run, part, &defs, how, &mut st);
        }
        total.lock().unwrap().merge(st);
    });
}

/// Sections of 33, 40, 64 and 100 entries whose entries come in a deterministic shuffled order
/// (multiplicative permutations) and re-define 1..6 codes at several distances: bfchar-only sections,
/// bfrange-only sections with overlapping ranges, and both. The oracle is unchanged: the last
/// definition in file order wins.
fn large_section_cmaps() -> Vec<Vec<Def>> {
    let tgt = |i: u32, gen: u32| -> rc::Units {
        // pairwise different for different (i, gen); shapes rotate: one unit, two units, surrogate pair
        match (i + gen) % 3 {
            0 => vec![(0x0400 + 0x100 * gen + i) as u16],
            1 => vec![0x0066, (0x2000 + 0x100 * gen + i) as u16],
            _ => vec![0xD83D, (0xDC00 + 0x80 * gen + i) as u16],
        }
    };
    let mut out = vec![];
    for (len, base) in [(2u8, 0x0200u32), (1u8, 0x20u32)] {
        for &n in &[33u32, 40, 64, 100] {
            for &k in &[1u32, 7, 11, 23, 37] {
                for redefs in 1..=6u32 {
                    if len == 1 && (k > 11 || redefs % 2 == 0) {
                        continue;
                    }
                    let m = n - redefs; // distinct codes
                    let gcd = |mut a: u32, mut b: u32| {
                        while b != 0 {
                            (a, b) = (b, a % b);
                        }
                        a
                    };
                    let mut kk = k;
                    while gcd(kk, m) != 1 {
                        kk += 1;
                    }
                    let perm = |j: u32| (j * kk + 3) % m;
                    // bfchar section
                    let mut chars: Vec<Def> = (0..m).map(|j| Def::Char { len, code: base + perm(j), t: tgt(perm(j), 0) }).collect();
                    // bfrange section: entry j covers 1..4 codes starting at 2*perm(j): neighbours overlap
                    let mut ranges: Vec<Def> = (0..m)
                        .map(|j| {
                            let lo = base + perm(j);
                            let span = j % 4;
                            let hi = (lo + span).min(base + m - 1);
                            if j % 5 == 4 {
                                Def::Array { len, lo, hi, ts: (0..=hi - lo).map(|e| tgt(perm(j) + e, 3 + e % 2)).collect() }
                            } else {
                                let mut t = tgt(perm(j), 1);
                                *t.last_mut().unwrap() &= 0xFF7F; // room for the increment in the low byte
                                Def::Range { len, lo, hi, t }
                            }
                        })
                        .collect();
                    // re-definitions: copy q re-defines the code of entry a at distance dist after it
                    for q in 0..redefs {
                        let dists = [1u32, 2, 5, m / 2, m - 1, 17];
                        let a = (q * 9 + k) % (m / 2);
                        let at = (a + dists[((q + k) % 6) as usize]).min(chars.len() as u32 - 1) + 1;
                        let code = chars[a as usize].lo();
                        chars.insert(at as usize, Def::Char { len, code, t: tgt(code - base, 2 + q % 2) });
                        let (lo, hi) = (ranges[a as usize].lo(), ranges[a as usize].hi());
                        let mut t = tgt(lo - base, 5);
                        *t.last_mut().unwrap() &= 0xFF7F;
                        ranges.insert(at as usize, Def::Range { len, lo, hi, t });
                    }
                    match (k, redefs % 3) {
                        (1, _) | (_, 0) => {
                            out.push(chars.clone());
                            out.push(ranges);
                        }
                        (_, 1) => out.push(chars.clone()),
                        _ => {
                            // both kinds in one CMap: the bfrange section first, the bfchar section re-defining on top
                            let mut both = ranges;
                            both.extend(chars.iter().step_by(3).cloned());
                            out.push(both);
                            out.push(chars.clone());
                        }
                    }
                }
            }
        }
    }
    out
}

/// CMaps with a one-unit, a two-unit and a surrogate-pair target and long strings of their codes, so
/// that a multi-unit target starts at every offset 0..=400 (and around powers of two up to 65536) of
/// the decoded UTF-16 output. Oracle: concatenation of the per-code reference values, decoded as UTF-16.
fn long_string_cases() -> Vec<(Vec<Def>, Vec<Input>)> {
    let mut out = vec![];
    for (len, b) in [(2u8, 0x0010u32), (1u8, 0x10u32), (3u8, 0x010010u32)] {
        let defs = vec![
            Def::Range { len, lo: b, hi: b + 1, t: rc::T_A.to_vec() },
            Def::Char { len, code: b + 2, t: rc::T_LIG.to_vec() },
            Def::Range { len, lo: b + 3, hi: b + 4, t: rc::T_EMO.to_vec() },
            Def::Array { len, lo: b + 5, hi: b + 6, ts: vec![vec![0x4E2D], vec![0xD840, 0xDC3E]] },
        ];
        let (bmp, bmp2, lig, emo, emo2, han, sup) = ((len, b), (len, b + 1), (len, b + 2), (len, b + 3), (len, b + 4), (len, b + 5), (len, b + 6));
        let rep = |c: (u8, u32), n: usize| -> Input { vec![c; n] };
        let cat = |parts: &[Input]| -> Input { parts.concat() };
        let mut inputs: Vec<Input> = rc::mapped_codes(&defs).into_iter().map(|c| vec![c]).collect();
        let max_n = if len == 2 { 400 } else { 300 };
        for n in 0..=max_n {
            inputs.push(cat(&[rep(bmp, n), vec![emo]]));
            inputs.push(cat(&[rep(bmp, n), vec![lig]]));
            inputs.push(cat(&[rep(bmp2, n), vec![sup, han]]));
            inputs.push(cat(&[rep(bmp, n), vec![emo2, emo, bmp2]]));
            inputs.push(cat(&[vec![bmp], rep(lig, n), vec![emo]]));
        }
        for n in 1..=300 {
            inputs.push(rep(emo, n));
            inputs.push(cat(&[rep(lig, n), vec![emo2]]));
        }
        if len == 2 {
            for p in 9..=16u32 {
                for d in [-2i64, -1, 0, 1] {
                    let n = ((1i64 << p) + d) as usize;
                    inputs.push(cat(&[rep(bmp, n), vec![emo, lig, sup]]));
                    inputs.push(rep(emo2, n / 2));
                }
            }
        }
        out.push((defs, inputs));
    }
    out
}

/// Hand-written CMaps at the edges of the code space of every code length.
fn edge_cmaps() -> Vec<Vec<Def>> {
    let a = rc::T_A.to_vec();
    let lig = rc::T_LIG.to_vec();
    let emo = rc::T_EMO.to_vec();
    let mut singles: Vec<Def> = vec![];
    for len in 1u8..=4 {
        let max: u32 = if len == 4 { u32::MAX } else { (1u32 << (8 * len as u32)) - 1 };
        singles.push(Def::Char { len, code: 0, t: a.clone() });
        singles.push(Def::Char { len, code: max, t: emo.clone() });
        singles.push(Def::Char { len, code: max, t: a.clone() });
        singles.push(Def::Range { len, lo: 0, hi: 7, t: lig.clone() });
        singles.push(Def::Range { len, lo: max - 7, hi: max, t: emo.clone() });
        singles.push(Def::Range { len, lo: max - 7, hi: max, t: vec![0x00F8] });
        singles.push(Def::Range { len, lo: max - 1, hi: max, t: a.clone() });
        singles.push(Def::Array { len, lo: max - 1, hi: max, ts: vec![emo.clone(), a.clone()] });
        singles.push(Def::Array { len, lo: 0, hi: 1, ts: vec![lig.clone(), vec![0x00FF]] });
        singles.push(Def::Char { len, code: max - 2, t: lig.clone() });
        // identity over one whole low byte (the well-formed way to map 256 codes)
        singles.push(Def::Range { len, lo: max - 0xff, hi: max, t: vec![0x0100] });
    }
    let mut out: Vec<Vec<Def>> = singles.iter().map(|d| vec![d.clone()]).collect();
    for x in &singles {
        for y in &singles {
            if x.len() == y.len() {
                out.push(vec![x.clone(), y.clone()]);
            }
        }
    }
    out
}

fn stats_to_run(run: &Run, s: &Stats, menu_len: usize) {
    run.eval(s.enc_calls + s.decode_calls);
    run.nontrivial(s.cases_nontrivial);
    run.set("menu_size", json!(menu_len));
    run.set("get_font_encoding_calls", json!(s.enc_calls));
    run.set("decode_text_calls", json!(s.decode_calls));
    run.set("cmaps", json!(s.cmaps));
    run.set("cmaps_nontrivial", json!(s.cmaps_nontrivial));
    run.set("cmaps_by_part", json!(s.by_part));
    run.set("conservative", json!(s.conservative));
    run.set("liberal", json!(s.liberal));
    run.set("liberal_accepted_correct", json!(s.liberal_accepted_correct));
    run.set("liberal_rejected", json!(s.liberal_rejected));
    run.set("liberal_misdecoded", json!(s.liberal_misdecoded));
    let mut lib = serde_json::Map::new();
    for (k, v) in &s.liberal_by_class {
        lib.insert(k.clone(), json!({"accepted_correct": v[0], "rejected": v[1], "misdecoded": v[2]}));
    }
    run.set("liberal_by_choice", Value::Object(lib));
    run.set("deviation_histogram", json!({"0": s.dev_hist[0], "1": s.dev_hist[1], "2": s.dev_hist[2]}));
    run.set("choice_classes_exercised", json!(s.class_exercised));
    run.set("long_input_strings", json!(s.long_inputs));
    run.set("longest_input_codes", json!(s.longest_input));
    run.set("largest_definition_sequence", json!(s.largest_section));
    run.set("cmaps_with_known_finding", json!(s.cmaps_with_known_finding));
    run.set("deviation_renderings_repeating_a_known_finding", json!(s.known_repeated_in_deviation));
}

fn main() {
    let run = Run::from_args("C15", "exploration");
    util::quiet_panics();
    util::init_pool();
    util::pin_schedule();
    if let Mode::Replay(path) = run.mode.clone() {
        replay(&run, &path);
    }
    let parts = rc::menu();
    let menu = &parts.menu;
    let n = menu.len();
    run.rule(
        "CMaps are all sequences (with repetition, order kept) of <=2 (quick) / <=3 (thorough) definitions from the fixed menu \
         (bfchar / incrementing bfrange / array bfrange; targets: one unit, one unit ending at 00FF, two units, surrogate pair; \
         1-byte codes 10..17, 2-byte codes 0010..0017 and 00FE..0101), enumerated by index without repetition. Each CMap is rendered \
         as CMap text by the choice recorder: the all-zero vector (ISO 32000 template, one section per definition) plus every vector \
         with <=1 (quick) / <=2 (thorough, sequences of <=2 definitions) non-zero choices; sequences of 3 definitions get the default \
         spelling and every combination of the section-merge choices (quick: only the residue class of 3-sequences named in seq3_slice, \
         a supplementary slice). Spot checks: sequences of <=2 definitions over the 1-byte menu moved to 3- and 4-byte codes and mixed with \
         the 1-byte originals (len134), and hand-written CMaps at both ends of the code space of every length (edges, default spelling); large sections (large_sections: bfchar and bfrange sections of 33/40/64/100 \
         entries in multiplicatively permuted order with 1..6 re-definitions of a code inside the section, rendered one section per \
         definition and fully merged); long input strings (long_strings: for CMaps with one-unit, two-unit and surrogate-pair targets, \
         n one-unit codes followed by a multi-unit code for every n in 0..=400, runs of multi-unit codes up to 300, and lengths around \
         2^9..2^16, so a multi-unit target starts at every output offset). \
         Each rendering is parsed with get_font_encoding and every mapped code and every ordered pair of mapped codes is decoded with \
         decode_text (CMaps with more than 24 mapped codes, which only occur in edges: all codes alone, pairs over 8 of them). \
         A case is a (definition sequence, choice vector) with conservative choices only; it is non-trivial when two of its definitions \
         of the same code length overlap or touch. Cases are distinct by construction (distinct index / distinct vector; every deviation \
         changes the text because choice sites only exist where they apply). Liberal renderings are counted separately (liberal*) and \
         are not in distinct_nontrivial.",
    );
    run.assume("reference semantics in harness/src/refcmap.rs (last covering definition wins; range offset added to the last UTF-16 unit; array indexed by offset; UTF-16 decoding) is the property's statement");
    run.assume("domain: well-formed CMaps only - array targets have exactly hi-lo+1 elements, incrementing ranges never carry out of the low byte of the last unit, inputs are strings of mapped codes, code sets are prefix-free (1-byte codes 10..17 never start a longer mapped code)");
    run.assume("liberal spellings (line break inside an array / between <lo> and <hi> / before the target, no space between array elements, a section on one line) may be rejected by lopdf's grammar without failing the property; accepting them and decoding wrongly fails it");
    let total = Mutex::new(Stats::default());
    let t = run.thorough;

    // 1. sequences of <= 2 definitions x deviations
    let d = if t { 2 } else { 1 };
    sweep(&run, &total, "seq1", menu, 1, Explore::Upto(d), None);
    sweep(&run, &total, "seq2", menu, 2, Explore::Upto(d), None);
    // 2. sequences of 3 definitions: all (thorough) or the residue class selected by the seed (quick)
    let m3: u64 = 32;
    if t {
        sweep(&run, &total, "seq3", menu, 3, Explore::MergeOnly, None);
    } else {
        sweep(&run, &total, "seq3_slice", menu, 3, Explore::MergeOnly, Some((m3, run.seed % m3)));
        run.set("seq3_slice", json!(format!("index mod {} == {} (rotates with VERIF_SEED; supplementary to the quick bound)", m3, run.seed % m3)));
    }
    // 3. code lengths 3 and 4 (spot check): the 1-byte menu moved to 3-byte codes 010010.. and 4-byte
    //    codes FFFFFF10.., in sequences that also mix them with each other and with the 1-byte originals
    //    (prefix-free: no mapped 1-byte code is 01 or FF, no 3-byte code starts a 4-byte one)
    let mut m134: Vec<Def> = menu[parts.one_byte.clone()].to_vec();
    for (len, base) in [(3u8, 0x0100_00u32), (4u8, 0xFFFF_FF00u32)] {
        let moved: Vec<Def> = menu[parts.one_byte.clone()].iter().map(|d| rc::transpose(d, len, base)).collect();
        m134.extend(moved);
    }
    if !rc::prefix_free(&rc::mapped_codes(&m134)) || !rc::prefix_free(&rc::mapped_codes(menu)) {
        eprintln!("MACHINERY: menu code sets are not prefix-free");
        std::process::exit(2);
    }
    sweep(&run, &total, "len134", &m134, 1, Explore::Upto(d), None);
    sweep(&run, &total, "len134", &m134, 2, Explore::Upto(if t { 1 } else { 0 }), None);
    // 5. large sections: 33..100 entries in shuffled order with re-definitions inside one section
    let large = large_section_cmaps();
    util::par_for(large.len(), |i| {
        let mut st = Stats::default();
        check_cmap(&run, "large_sections", &large[i], Explore::AllMerged, &mut st);
        total.lock().unwrap().merge(st);
    });
    // 6. long input strings: multi-unit targets at every offset of the decoded output
    let long = long_string_cases();
    util::par_for(long.len(), |i| {
        let mut st = Stats::default();
        st.long_inputs += long[i].1.iter().filter(|x| x.len() > 2).count() as u64;
        st.longest_input = long[i].1.iter().map(|x| x.len() as u64).max().unwrap_or(0);
        check_cmap_inputs(&run, "long_strings", &long[i].0, Explore::Upto(0), long[i].1.clone(), &mut st);
        total.lock().unwrap().merge(st);
    });
    // 4. edges of the code space
    let edges = edge_cmaps();
    util::par_for(edges.len(), |i| {
        let mut st = Stats::default();
        check_cmap(&run, "edges", &edges[i], Explore::Upto(0), &mut st);
        total.lock().unwrap().merge(st);
    });

    // samples: first, a middle one with deviations, the largest
    let sample = |defs: &[Def], script: &[usize]| {
        let (text, sites) = render_with(defs, script);
        let inputs = inputs_for(defs);
        let last = inputs.last().unwrap();
        let mut c = case_json("sample", defs, &sites, script, &text, Some(last));
        c["expected"] = json!(rc::expected_text(defs, last));
        c["inputs"] = json!(inputs.len());
        run.sample(c);
    };
    sample(&seq_at(menu, 1, 0), &[]);
    sample(&seq_at(menu, 2, (n * n / 2 + 7) as u64), &[0, 1, 3, 1]);
    sample(&seq_at(menu, 2, 3 * n as u64 + 100), &[0, 0, 0, 0, 2, 0, 0, 1]);
    sample(&edges[edges.len() - 1], &[]);
    sample(&seq_at(menu, 3, if t { (n * n * n - 1) as u64 } else { run.seed % m3 + m3 * 1000 }), &[]);

    let s = total.into_inner().unwrap();
    stats_to_run(&run, &s, n);
    run.exhaustive(true);
    run.finish();
}

// ---------------------------------------------------------------------------------------------

fn replay(run: &Run, path: &std::path::Path) -> ! {
    let case: Value = vharness::run::read_replay(path);
    let machinery = |m: String| -> ! {
        eprintln!("MACHINERY: {}", m);
        std::process::exit(3)
    };
    let mut defs = vec![];
    for d in case["defs"].as_array().unwrap_or_else(|| machinery("case.defs missing".into())) {
        defs.push(Def::from_json(d).unwrap_or_else(|e| machinery(format!("bad definition: {}", e))));
    }
    let choices = case["choices"].as_array().cloned().unwrap_or_default();
    let script: Vec<usize> = choices.iter().map(|c| c[2].as_u64().unwrap_or(0) as usize).collect();
    let (text, sites) = render_with(&defs, &script);
    for (i, c) in choices.iter().enumerate() {
        if sites[i].class != c[0].as_str().unwrap_or("") || sites[i].n as u64 != c[1].as_u64().unwrap_or(0) {
            machinery(format!("choice site {} is ({}, {}) but the replay recorded {}", i, sites[i].class, sites[i].n, c));
        }
    }
    if let Some(t) = case["cmap_text"].as_str() {
        if t.as_bytes() != &text[..] {
            machinery("the rendered CMap differs from the recorded cmap_text".into());
        }
    }
    println!("CMap text:\n{}", String::from_utf8_lossy(&text).replace('\r', "\\r"));
    let inputs: Vec<Input> = match case["input"].as_array() {
        Some(a) => {
            let mut inp = vec![];
            for c in a {
                let s = c.as_str().unwrap_or("");
                inp.push(((s.len() / 2) as u8, u32::from_str_radix(s, 16).unwrap_or_else(|_| machinery(format!("bad code {}", s)))));
            }
            vec![inp]
        }
        None => inputs_for(&defs),
    };
    let mut st = Stats::default();
    let a = run_lopdf(&text, &inputs, &mut st);
    let b = run_lopdf(&text, &inputs, &mut st);
    if a != b {
        machinery(format!("replay not deterministic: {:?} vs {:?}", a, b));
    }
    let mut failed = false;
    match a {
        Err(e) => {
            println!("observed: {}", e);
            println!("expected: the CMap is accepted");
            failed = true;
        }
        Ok(outs) => {
            for (k, inp) in inputs.iter().enumerate() {
                let exp = rc::expected_text(&defs, inp).unwrap_or_else(|| machinery("input contains an unmapped code".into()));
                let ok = outs[k].as_ref() == Ok(&exp);
                if !ok || inputs.len() == 1 {
                    println!("input {}: observed: {}", input_json(inp), show(&outs[k]));
                    println!("input {}: expected: {}", input_json(inp), show(&Ok(exp)));
                }
                failed |= !ok;
            }
        }
    }
    run.finish_replay(failed)
}
