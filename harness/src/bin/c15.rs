//! C15 - ToUnicode CMaps decode text as the CMap defines (DESIGN §4 C15).
//!
//! Space: every sequence of <= 2 (quick) / <= 3 (thorough) definitions from the menu in
//! `refcmap::menu()`, rendered as CMap text through the choice recorder (default spelling plus bounded
//! deviations), put into a font's ToUnicode stream, parsed by `Dictionary::get_font_encoding` and
//! decoded by `Document::decode_text` for every mapped code and every ordered pair of mapped codes.
//! Oracle: `refcmap::expected_text` (last definition wins, range offset on the last unit, arrays
//! indexed by offset, UTF-16 decoding).
//! Further families (see the rule text in `main`): overlap sequences, array targets, byte-order-mark
//! values, large sections, long strings, degenerate CMaps, and - with ranges that may carry out of the
//! low byte of the last unit - last-unit arithmetic at every 16-bit / surrogate boundary (`last_unit`),
//! the unit 0000 (`zero_units`), special code points (`special_targets`), longest targets (`long_targets`).
use lopdf::{Dictionary, Document, Object, Stream};
use serde_json::{json, Value};
use std::collections::BTreeMap;
use std::sync::Mutex;
use vharness::refcmap::{self as rc, Chooser, Def, Extra, Form, Site, Stored};
use vharness::{util, Mode, Run};

type Input = Vec<(u8, u32)>;
type Out = Result<String, String>;

// ---------------------------------------------------------------------------------------------
// the implementation under test

fn font_doc(text: &[u8]) -> (Document, lopdf::ObjectId) {
    let mut doc = Document::with_version("1.7");
    let sid = doc.add_object(Stream::new(Dictionary::new(), text.to_vec()));
    let mut font = Dictionary::new();
    font.set("Type", Object::Name(b"Font".to_vec()));
    font.set("Subtype", Object::Name(b"Type0".to_vec()));
    font.set("BaseFont", Object::Name(b"Verif".to_vec()));
    font.set("Encoding", Object::Name(b"Identity-H".to_vec()));
    font.set("ToUnicode", Object::Reference(sid));
    let fid = doc.add_object(font);
    (doc, fid)
}

/// Parse the CMap through the public path and decode every input. Err = the CMap was rejected.
fn run_lopdf(text: &[u8], inputs: &[Input], st: &mut Stats) -> Result<Vec<Out>, String> {
    let (doc, fid) = font_doc(text);
    let font = doc.get_dictionary(fid).map_err(|e| format!("harness: {}", e))?;
    st.enc_calls += 1;
    let enc = match util::guard(|| font.get_font_encoding(&doc)) {
        Ok(Ok(e)) => e,
        Ok(Err(e)) => return Err(format!("get_font_encoding error: {}", e)),
        Err(p) => return Err(format!("get_font_encoding {}", p)),
    };
    if !matches!(enc, lopdf::Encoding::UnicodeMapEncoding(_)) {
        return Err(format!("get_font_encoding returned {:?}, not a ToUnicode map", enc));
    }
    let mut outs = Vec::with_capacity(inputs.len());
    for inp in inputs {
        let bytes = rc::input_bytes(inp);
        st.decode_calls += 1;
        outs.push(match util::guard(|| Document::decode_text(&enc, &bytes)) {
            Ok(Ok(s)) => Ok(s),
            Ok(Err(e)) => Err(format!("decode_text error: {}", e)),
            Err(p) => Err(format!("decode_text {}", p)),
        });
    }
    Ok(outs)
}

// ---------------------------------------------------------------------------------------------
// counters (accumulated per worker chunk, merged under one lock)

#[derive(Default)]
struct Stats {
    enc_calls: u64,
    decode_calls: u64,
    cmaps: u64,
    cmaps_nontrivial: u64,
    cases_nontrivial: u64,
    conservative: u64,
    liberal: u64,
    liberal_accepted_correct: u64,
    liberal_rejected: u64,
    liberal_misdecoded: u64,
    known_repeated_in_deviation: u64,
    cmaps_with_known_finding: u64,
    dev_hist: [u64; 3],
    /// per liberal class option: (accepted and correct, rejected, mis-decoded)
    liberal_by_class: BTreeMap<String, [u64; 3]>,
    /// per class: renderings in which the class deviated from its default
    class_exercised: BTreeMap<&'static str, u64>,
    by_part: BTreeMap<&'static str, u64>,
    long_inputs: u64,
    longest_input: u64,
    largest_section: u64,
    /// cases whose observed text differs from the reference ONLY in what an unpaired surrogate became
    /// (the statement does not fix that): counted, no verdict
    open_unpaired_differs: u64,
    /// tallies of the parts that lift the low-byte clause (per CMap / per (CMap, input) of the default spelling)
    carry_cmaps: u64,
    inputs_relying_on_wrap: u64,
    inputs_with_unpaired_surrogate: u64,
    inputs_pairing_across_codes: u64,
    inputs_with_zero_unit: u64,
    longest_target_units: u64,
}

impl Stats {
    fn merge(&mut self, o: Stats) {
        self.enc_calls += o.enc_calls;
        self.decode_calls += o.decode_calls;
        self.cmaps += o.cmaps;
        self.cmaps_nontrivial += o.cmaps_nontrivial;
        self.cases_nontrivial += o.cases_nontrivial;
        self.conservative += o.conservative;
        self.liberal += o.liberal;
        self.liberal_accepted_correct += o.liberal_accepted_correct;
        self.liberal_rejected += o.liberal_rejected;
        self.liberal_misdecoded += o.liberal_misdecoded;
        self.known_repeated_in_deviation += o.known_repeated_in_deviation;
        self.cmaps_with_known_finding += o.cmaps_with_known_finding;
        for i in 0..3 {
            self.dev_hist[i] += o.dev_hist[i];
        }
        for (k, v) in o.liberal_by_class {
            let e = self.liberal_by_class.entry(k).or_insert([0; 3]);
            for i in 0..3 {
                e[i] += v[i];
            }
        }
        for (k, v) in o.class_exercised {
            *self.class_exercised.entry(k).or_insert(0) += v;
        }
        self.long_inputs += o.long_inputs;
        self.longest_input = self.longest_input.max(o.longest_input);
        self.largest_section = self.largest_section.max(o.largest_section);
        self.open_unpaired_differs += o.open_unpaired_differs;
        self.carry_cmaps += o.carry_cmaps;
        self.inputs_relying_on_wrap += o.inputs_relying_on_wrap;
        self.inputs_with_unpaired_surrogate += o.inputs_with_unpaired_surrogate;
        self.inputs_pairing_across_codes += o.inputs_pairing_across_codes;
        self.inputs_with_zero_unit += o.inputs_with_zero_unit;
        self.longest_target_units = self.longest_target_units.max(o.longest_target_units);
        for (k, v) in o.by_part {
            *self.by_part.entry(k).or_insert(0) += v;
        }
    }
}

// ---------------------------------------------------------------------------------------------
// inputs and deviation vectors

/// The empty string, every mapped code alone and every ordered pair of mapped codes. For CMaps with more than 24
/// mapped codes (only the hand-written code-space-edge CMaps) pairs are formed over 8 of them.
fn inputs_for(defs: &[Def]) -> Vec<Input> {
    let codes = rc::mapped_codes(defs);
    // the empty string is a string of mapped codes of every CMap
    let mut v: Vec<Input> = vec![vec![]];
    v.extend(codes.iter().map(|c| vec![*c]));
    let pair_codes: Vec<(u8, u32)> = if codes.len() <= 24 {
        codes.clone()
    } else {
        let n = codes.len();
        [0, 1, 2, n / 2, n / 2 + 1, n - 3, n - 2, n - 1].iter().map(|&i| codes[i]).collect()
    };
    for a in &pair_codes {
        for b in &pair_codes {
            v.push(vec![*a, *b]);
        }
    }
    v
}

/// The empty string, every mapped code alone, all mapped codes in ascending and in descending order
/// (the single-length overlap families: what is looked at is the table, not the segmentation).
fn inputs_short(defs: &[Def]) -> Vec<Input> {
    let codes = rc::mapped_codes(defs);
    let mut v: Vec<Input> = vec![vec![]];
    v.extend(codes.iter().map(|c| vec![*c]));
    if codes.len() > 1 {
        v.push(codes.clone());
        v.push(codes.iter().rev().cloned().collect());
    }
    v
}

#[derive(Clone, Copy, PartialEq)]
enum Explore {
    /// all vectors with at most d non-zero entries over all sites
    Upto(usize),
    /// default spelling plus every combination of the section-merge choices
    MergeOnly,
    /// default spelling (one section per definition) and the spelling with every possible merge taken
    AllMerged,
}

fn vectors(sites: &[Site], how: Explore) -> Vec<Vec<usize>> {
    let n = sites.len();
    let mut out = vec![vec![]];
    match how {
        Explore::AllMerged => {
            let v: Vec<usize> = (0..n).map(|i| (sites[i].class == "merge") as usize).collect();
            if v.iter().any(|&x| x != 0) {
                out.push(v);
            }
        }
        Explore::MergeOnly => {
            let m: Vec<usize> = (0..n).filter(|&i| sites[i].class == "merge").collect();
            for mask in 1u32..(1 << m.len()) {
                let mut v = vec![0; n];
                for (k, &i) in m.iter().enumerate() {
                    if mask & (1 << k) != 0 {
                        v[i] = 1;
                    }
                }
                out.push(v);
            }
        }
        Explore::Upto(d) => {
            if d >= 1 {
                for i in 0..n {
                    for a in 1..sites[i].n {
                        let mut v = vec![0; n];
                        v[i] = a;
                        out.push(v);
                    }
                }
            }
            if d >= 2 {
                for i in 0..n {
                    for j in i + 1..n {
                        for a in 1..sites[i].n {
                            for b in 1..sites[j].n {
                                let mut v = vec![0; n];
                                v[i] = a;
                                v[j] = b;
                                out.push(v);
                            }
                        }
                    }
                }
            }
        }
    }
    out
}

fn render_with(defs: &[Def], script: &[usize]) -> (Vec<u8>, Vec<Site>) {
    render_ex(defs, &Extra::default(), script)
}

fn render_ex(defs: &[Def], extra: &Extra, script: &[usize]) -> (Vec<u8>, Vec<Site>) {
    let mut ch = Chooser::new(script);
    let text = rc::render_ex(defs, extra, &mut ch);
    if let Err(e) = ch.finish() {
        eprintln!("MACHINERY: choice recorder: {}", e);
        std::process::exit(2);
    }
    (text, ch.sites)
}

// ---------------------------------------------------------------------------------------------
// classification of failing codes (DESIGN Appendix A: cmap-split-multiunit / cmap-coalesce-multiunit)

/// Decode one code with the default spelling of `defs`; true when lopdf gives what `defs` define.
fn single_ok(defs: &[Def], len: u8, c: u32, st: &mut Stats) -> bool {
    let (text, _) = render_with(defs, &[]);
    let Some(exp) = rc::expected_text(defs, &[(len, c)]) else { return false };
    match run_lopdf(&text, &[vec![(len, c)]], st) {
        Ok(o) => o[0].as_ref() == Ok(&exp),
        Err(_) => false,
    }
}

/// `c` is decoded wrongly under the default spelling. Attribute it to a catalogued finding only if
/// the finding's predicate holds AND the same CMap without the splitting / coalescing neighbours
/// decodes `c` correctly (to the same expected text). Anything else stays unclassified.
fn classify_code(defs: &[Def], len: u8, c: u32, st: &mut Stats) -> Option<&'static str> {
    let w = rc::winner(defs, len, c)?;
    let wd = &defs[w];
    let sk = rc::stored_kind(wd);
    if matches!(sk, Stored::Offset(_)) {
        return None; // one-unit targets are stored as an offset: position-independent
    }
    // later definitions that overwrite a code of the winner below c (they cannot cover c itself)
    let split: Vec<usize> = (w + 1..defs.len()).filter(|&j| defs[j].len() == len && defs[j].lo() < c && defs[j].hi() >= wd.lo()).collect();
    // other definitions with an equal stored target whose interval overlaps or touches the winner's
    let coal: Vec<usize> = (0..defs.len()).filter(|&j| j != w && rc::stored_kind(&defs[j]) == sk && defs[j].overlaps_or_touches(wd)).collect();
    let want = rc::expected_text(defs, &[(len, c)])?;
    let mut passes_without = |remove: &[usize]| -> bool {
        let rest: Vec<Def> = defs.iter().enumerate().filter(|(i, _)| !remove.contains(i)).map(|(_, d)| d.clone()).collect();
        rc::expected_text(&rest, &[(len, c)]).as_ref() == Some(&want) && single_ok(&rest, len, c, st)
    };
    if !split.is_empty() && passes_without(&split) {
        return Some("cmap-split-multiunit");
    }
    if !coal.is_empty() && passes_without(&coal) {
        return Some("cmap-coalesce-multiunit");
    }
    if !split.is_empty() && !coal.is_empty() {
        let mut both = split.clone();
        both.extend(&coal);
        if passes_without(&both) {
            return Some("cmap-split-multiunit");
        }
    }
    None
}

/// Finding `cmap-leading-bom-sniffed` (known_findings.json): the UTF-16 units the CMap defines for the
/// whole input start with FEFF or FFFE, the observed text is exactly what byte-order-mark sniffing
/// makes of those units (FEFF: the first unit dropped; FFFE: the first unit dropped and the rest read
/// little-endian), and the same input behind one mapped code whose value starts with another unit
/// decodes to what the CMap defines. Anything else stays unclassified.
fn classify_bom(defs: &[Def], extra: &Extra, inp: &Input, observed: &Out, st: &mut Stats) -> Option<&'static str> {
    let mut units: Vec<u16> = vec![];
    for &(l, c) in inp {
        units.extend(rc::lookup(defs, l, c)?);
    }
    let model = match units.first() {
        Some(0xFEFF) => rc::utf16_to_string(&units[1..]),
        Some(0xFFFE) => rc::utf16_to_string(&units[1..].iter().map(|u| u.swap_bytes()).collect::<Vec<u16>>()),
        _ => return None,
    };
    if observed.as_ref() != Ok(&model) {
        return None;
    }
    // neutralise exactly that feature: the same units, no longer at the start of the output
    let front = rc::mapped_codes(defs).into_iter().find(|&(l, c)| !matches!(rc::lookup(defs, l, c).and_then(|v| v.first().copied()), Some(0xFEFF) | Some(0xFFFE) | None))?;
    let mut longer = vec![front];
    longer.extend(inp.iter().cloned());
    let want = rc::expected_text(defs, &longer)?;
    let (text, _) = render_ex(defs, extra, &[]);
    match run_lopdf(&text, &[longer], st) {
        Ok(o) if o[0].as_ref() == Ok(&want) => Some("cmap-leading-bom-sniffed"),
        _ => None,
    }
}

// ---------------------------------------------------------------------------------------------
// comparison with the reference

#[derive(Clone, Copy, PartialEq, Debug)]
enum Agree {
    /// the observed text is the reference text
    Yes,
    /// it differs, but only in what became of a surrogate that has no partner inside the value of its own
    /// code; every character the statement fixes is there, in order: counted, no verdict
    Open,
    No,
}

/// The reference text decides (fast path). Only when it differs and the values of the input hold an
/// unpaired surrogate is the observed text matched against what the statement fixes (`rc::fixed_pattern`).
fn agree(defs: &[Def], inp: &Input, out: &Out, expected: &str) -> Agree {
    match out {
        Ok(s) if s == expected => Agree::Yes,
        Ok(s) => match rc::fixed_pattern(defs, inp) {
            Some(p) if p.contains(&rc::Tok::Any) && rc::pattern_matches(&p, s) => Agree::Open,
            _ => Agree::No,
        },
        Err(_) => Agree::No,
    }
}

fn agrees(defs: &[Def], inp: &Input, out: &Out, expected: &str, st: &mut Stats) -> bool {
    match agree(defs, inp, out, expected) {
        Agree::Yes => true,
        Agree::Open => {
            st.open_unpaired_differs += 1;
            true
        }
        Agree::No => false,
    }
}

/// What the expected text of `inp` rests on besides the statement's words (shown with a failing case).
fn rests_on(defs: &[Def], inp: &Input) -> String {
    let mut notes = vec![];
    let mut units = vec![];
    for &(l, c) in inp {
        if let Some(w) = rc::winner(defs, l, c) {
            if defs[w].wraps_at(c) && !notes.contains(&"the last unit wraps modulo 2^16") {
                notes.push("the last unit wraps modulo 2^16");
            }
            if defs[w].carries_low_byte() && !notes.contains(&"the range carries out of the low byte of its last unit (ISO 32000-1 9.10.3 leaves that undefined; the property's words add the offset to the 16-bit unit)") {
                notes.push("the range carries out of the low byte of its last unit (ISO 32000-1 9.10.3 leaves that undefined; the property's words add the offset to the 16-bit unit)");
            }
            units.extend(defs[w].value(c));
        }
    }
    if rc::has_unpaired(&units) {
        notes.push("an unpaired surrogate is written U+FFFD here; a text that differs only in what such a surrogate became gets no verdict");
    }
    if notes.is_empty() {
        String::new()
    } else {
        format!(" [{}]", notes.join("; "))
    }
}

fn show_expected(defs: &[Def], inp: &Input, expected: &str) -> String {
    format!("{}{}", show(&Ok(expected.to_string())), rests_on(defs, inp))
}

// ---------------------------------------------------------------------------------------------
// one CMap, all its renderings

fn input_json(inp: &Input) -> Value {
    Value::Array(inp.iter().map(|&(l, c)| json!(rc::hex_code(l, c, false))).collect())
}

fn def_text(d: &Def) -> String {
    let l = d.len();
    let u = |t: &rc::Units| format!("<{}>", rc::hex_units(t, false, false));
    match d {
        Def::Char { code, t, .. } => format!("bfchar <{}> {}", rc::hex_code(l, *code, false), u(t)),
        Def::Range { lo, hi, t, .. } => format!("bfrange <{}> <{}> {}", rc::hex_code(l, *lo, false), rc::hex_code(l, *hi, false), u(t)),
        Def::Array { lo, hi, ts, .. } => {
            format!("bfrange <{}> <{}> [{}]", rc::hex_code(l, *lo, false), rc::hex_code(l, *hi, false), ts.iter().map(u).collect::<Vec<_>>().join(" "))
        }
    }
}

fn case_json(part: &str, defs: &[Def], sites: &[Site], script: &[usize], text: &[u8], inp: Option<&Input>) -> Value {
    case_json_ex(part, defs, &Extra::default(), sites, script, text, inp)
}

fn case_json_ex(part: &str, defs: &[Def], extra: &Extra, sites: &[Site], script: &[usize], text: &[u8], inp: Option<&Input>) -> Value {
    let choices: Vec<Value> = sites.iter().enumerate().map(|(i, s)| json!([s.class, s.n, script.get(i).copied().unwrap_or(0)])).collect();
    json!({
        "extra": if extra.is_default() { Value::Null } else { extra.to_json() },
        "about": format!("{}{}", defs.iter().map(def_text).collect::<Vec<_>>().join(" | "), inp.map(|i| format!(" ; input {}", input_json(i))).unwrap_or_default()),
        "part": part,
        "defs": defs.iter().map(|d| d.to_json()).collect::<Vec<_>>(),
        "choices": choices,
        "input": inp.map(input_json),
        "cmap_text": String::from_utf8_lossy(text),
    })
}

fn show(o: &Out) -> String {
    match o {
        Ok(s) if s.is_empty() => "text \"\" (empty)".to_string(),
        Ok(s) => format!("text {:?} (U+{})", s, s.chars().map(|c| format!("{:04X}", c as u32)).collect::<Vec<_>>().join(" U+")),
        Err(e) => e.clone(),
    }
}

fn nontrivial(defs: &[Def]) -> bool {
    (0..defs.len()).any(|i| (i + 1..defs.len()).any(|j| defs[i].overlaps_or_touches(&defs[j])))
}

/// Parts whose incrementing ranges may carry out of the low byte of the last unit (and wrap at FFFF).
const LENIENT_PARTS: [&str; 4] = ["last_unit", "zero_units", "special_targets", "long_targets"];

/// What the lenient parts hold (default spelling; every (CMap, input) once).
fn tally(defs: &[Def], inputs: &[Input], st: &mut Stats) {
    st.carry_cmaps += defs.iter().any(|d| d.carries_low_byte()) as u64;
    for d in defs {
        let n = match d {
            Def::Char { t, .. } | Def::Range { t, .. } => t.len(),
            Def::Array { ts, .. } => ts.iter().map(|t| t.len()).max().unwrap_or(0),
        };
        st.longest_target_units = st.longest_target_units.max(n as u64);
    }
    for inp in inputs {
        let mut units: Vec<u16> = vec![];
        let (mut wraps, mut lone_in_code) = (false, false);
        for &(l, c) in inp {
            let Some(w) = rc::winner(defs, l, c) else { continue };
            wraps |= defs[w].wraps_at(c);
            let v = defs[w].value(c);
            lone_in_code |= rc::has_unpaired(&v);
            units.extend(v);
        }
        let lone = rc::has_unpaired(&units);
        st.inputs_relying_on_wrap += wraps as u64;
        st.inputs_with_unpaired_surrogate += lone as u64;
        // a high surrogate ending one code's value meets a low surrogate starting the next one's
        let mut p = vec![];
        rc::value_pattern(&units, &mut p);
        let whole = p.iter().filter(|t| **t == rc::Tok::Any).count();
        let per_code = rc::fixed_pattern(defs, inp).map(|p| p.iter().filter(|t| **t == rc::Tok::Any).count()).unwrap_or(0);
        st.inputs_pairing_across_codes += (lone_in_code && per_code > whole) as u64;
        st.inputs_with_zero_unit += units.contains(&0) as u64;
    }
}

fn check_cmap(run: &Run, part: &'static str, defs: &[Def], how: Explore, st: &mut Stats) {
    check_cmap_inputs(run, part, defs, &Extra::default(), how, inputs_for(defs), st)
}

/// `inputs` must contain every code that occurs in a longer input also as a one-code input.
/// A CMap with `extra.empty_sections` is a liberal spelling in every rendering (rejection is counted,
/// not failed; accepted and mis-decoded fails).
fn check_cmap_inputs(run: &Run, part: &'static str, defs: &[Def], extra: &Extra, how: Explore, inputs: Vec<Input>, st: &mut Stats) {
    let lenient = LENIENT_PARTS.contains(&part);
    if !defs.iter().all(|d| if lenient { d.well_formed_lenient() } else { d.well_formed() }) {
        eprintln!("MACHINERY: generated an ill-formed definition in part {}", part);
        std::process::exit(2);
    }
    if lenient {
        tally(defs, &inputs, st);
    }
    let expected: Vec<String> = inputs.iter().map(|i| rc::expected_text(defs, i).expect("inputs are mapped codes")).collect();
    let nt = nontrivial(defs);
    st.cmaps += 1;
    st.largest_section = st.largest_section.max(defs.len() as u64);
    *st.by_part.entry(part).or_insert(0) += 1;
    if nt {
        st.cmaps_nontrivial += 1;
    }
    let (text0, sites) = render_ex(defs, extra, &[]);
    let base_liberal = !extra.empty_sections.is_empty();
    // ---- default spelling
    st.dev_hist[0] += 1;
    if base_liberal {
        st.liberal += 1;
    } else {
        st.conservative += 1;
        if nt {
            st.cases_nontrivial += 1;
        }
    }
    let base_key = "empty_section=1".to_string();
    // per input: None = correct under the default spelling, Some((observed, finding)) otherwise
    let mut base: Vec<Option<(Out, Option<&'static str>)>> = vec![None; inputs.len()];
    match run_lopdf(&text0, &inputs, st) {
        Err(_) if base_liberal => {
            // every other rendering keeps the empty section: counted once, nothing more to decide
            st.liberal_rejected += 1;
            st.liberal_by_class.entry(base_key).or_insert([0; 3])[1] += 1;
            return;
        }
        Err(e) => {
            run.fail(None, case_json_ex(part, defs, extra, &sites, &[], &text0, None), &e, "a well-formed CMap in the template spelling is accepted");
            return;
        }
        Ok(outs) => {
            let single_idx = |c: &(u8, u32)| inputs.iter().position(|i| i.len() == 1 && i[0] == *c);
            // singles first, then strings of several codes are explained by their singles
            let mut single_class: BTreeMap<(u8, u32), Option<&'static str>> = BTreeMap::new();
            for (k, inp) in inputs.iter().enumerate() {
                if inp.len() == 1 && !agrees(defs, inp, &outs[k], &expected[k], st) {
                    let f = classify_bom(defs, extra, inp, &outs[k], st).or_else(|| classify_code(defs, inp[0].0, inp[0].1, st));
                    single_class.insert(inp[0], f);
                    base[k] = Some((outs[k].clone(), f));
                }
            }
            for (k, inp) in inputs.iter().enumerate() {
                if inp.len() != 1 && !agrees(defs, inp, &outs[k], &expected[k], st) {
                    if let Some(f) = classify_bom(defs, extra, inp, &outs[k], st) {
                        base[k] = Some((outs[k].clone(), Some(f)));
                        continue;
                    }
                    // predicted from the single-code observations: concatenation, or the first failure
                    let mut predicted: Out = Ok(String::new());
                    let mut finding = None;
                    let mut explained = true;
                    for c in inp {
                        match single_idx(c) {
                            Some(si) => {
                                if let Some(Some(f)) = single_class.get(c) {
                                    finding = finding.or(Some(*f));
                                } else if single_class.contains_key(c) {
                                    explained = false;
                                }
                                match (&mut predicted, &outs[si]) {
                                    (Ok(p), Ok(s)) => p.push_str(s),
                                    (Ok(_), Err(e)) => predicted = Err(e.clone()),
                                    _ => {}
                                }
                            }
                            None => explained = false,
                        }
                    }
                    let f = if explained && finding.is_some() && predicted == outs[k] { finding } else { None };
                    base[k] = Some((outs[k].clone(), f));
                }
            }
            // report: every unclassified failure is a violation (first one written out per CMap);
            // classified ones are one known-finding case per CMap and finding id
            let mut ids: Vec<&'static str> = vec![];
            let mut violated = false;
            for (k, b) in base.iter().enumerate() {
                if let Some((obs, f)) = b {
                    match f {
                        None if !violated => {
                            violated = true;
                            run.fail(None, case_json_ex(part, defs, extra, &sites, &[], &text0, Some(&inputs[k])), &show(obs), &show_expected(defs, &inputs[k], &expected[k]));
                        }
                        Some(id) if !ids.contains(id) => {
                            ids.push(id);
                            run.fail(Some(id), case_json_ex(part, defs, extra, &sites, &[], &text0, Some(&inputs[k])), &show(obs), &show(&Ok(expected[k].clone())));
                        }
                        _ => {}
                    }
                }
            }
            if !ids.is_empty() {
                st.cmaps_with_known_finding += 1;
            }
            if base_liberal {
                let slot = if base.iter().any(|b| b.is_some()) { 2 } else { 0 };
                st.liberal_by_class.entry(base_key).or_insert([0; 3])[slot] += 1;
                if slot == 2 {
                    st.liberal_misdecoded += 1;
                } else {
                    st.liberal_accepted_correct += 1;
                }
            }
        }
    }
    // ---- deviations
    for script in vectors(&sites, how).into_iter().skip(1) {
        let (text, sites2) = render_ex(defs, extra, &script);
        if sites2 != sites {
            eprintln!("MACHINERY: choice sites changed under deviation {:?}", script);
            std::process::exit(2);
        }
        let dev: Vec<usize> = (0..script.len()).filter(|&i| script[i] != 0).collect();
        let liberal = base_liberal || dev.iter().any(|&i| sites[i].liberal);
        st.dev_hist[dev.len().min(2)] += 1;
        for &i in &dev {
            *st.class_exercised.entry(sites[i].class).or_insert(0) += 1;
        }
        if liberal {
            st.liberal += 1;
        } else {
            st.conservative += 1;
            if nt {
                st.cases_nontrivial += 1;
            }
        }
        let lib_key: Vec<String> = dev.iter().filter(|&&i| sites[i].liberal).map(|&i| format!("{}={}", sites[i].class, script[i])).collect();
        let mut lib_slot = |st: &mut Stats, slot: usize| {
            for k in &lib_key {
                st.liberal_by_class.entry(k.clone()).or_insert([0; 3])[slot] += 1;
            }
        };
        match run_lopdf(&text, &inputs, st) {
            Err(e) => {
                if liberal {
                    st.liberal_rejected += 1;
                    lib_slot(st, 1);
                } else {
                    run.fail(
                        None,
                        case_json_ex(part, defs, extra, &sites, &script, &text, None),
                        &e,
                        "a well-formed CMap spelled with conservative white-space / sectioning variations is accepted",
                    );
                }
            }
            Ok(outs) => {
                let mut bad = None;
                let mut repeats = 0;
                for k in 0..inputs.len() {
                    if agrees(defs, &inputs[k], &outs[k], &expected[k], st) {
                        continue;
                    }
                    match &base[k] {
                        Some((obs, Some(_))) if *obs == outs[k] => repeats += 1,
                        _ => {
                            bad = Some(k);
                            break;
                        }
                    }
                }
                st.known_repeated_in_deviation += (repeats > 0) as u64;
                if let Some(k) = bad {
                    if liberal {
                        st.liberal_misdecoded += 1;
                        lib_slot(st, 2);
                    }
                    run.fail(None, case_json_ex(part, defs, extra, &sites, &script, &text, Some(&inputs[k])), &show(&outs[k]), &show_expected(defs, &inputs[k], &expected[k]));
                } else if liberal {
                    st.liberal_accepted_correct += 1;
                    lib_slot(st, 0);
                }
            }
        }
    }
}

// ---------------------------------------------------------------------------------------------
// new families: array targets, degenerate CMaps

/// Array-target CMaps (DESIGN §4 C15 "arrays"): (definitions, part).
/// * `arrays_profile`: every profile of element lengths {1,2,3} for 2..4 elements x leading units
///   ascending / equal / descending from 0041 and from 00FE (crossing 00FF/0100), the
///   array alone and on top of an identity range two codes wider, at its start, middle and end;
///   2-byte and 1-byte codes.
/// * `arrays_alphabet`: every array of 2..4 elements over the 12-element alphabet (leading unit
///   0041..0044 x 1..3 units) and over the 6-element "same lead, last unit counts" alphabet.
fn array_cmaps() -> Vec<(Vec<Def>, &'static str)> {
    let mut out = vec![];
    for (len, base) in [(2u8, 0x0020u32), (1u8, 0x20u32)] {
        for lead0 in [0x0041u16, 0x00FE] {
            for ts in rc::profile_arrays(lead0) {
                let n = ts.len() as u32;
                out.push((vec![Def::Array { len, lo: base, hi: base + n - 1, ts: ts.clone() }], "arrays_profile"));
                for at in 0..3u32 {
                    let bg = Def::Range { len, lo: base, hi: base + n + 1, t: vec![0x0391] };
                    out.push((vec![bg, Def::Array { len, lo: base + at, hi: base + at + n - 1, ts: ts.clone() }], "arrays_profile"));
                }
            }
        }
    }
    for (alphabet, max_n) in [(rc::alphabet_lead(), 4usize), (rc::alphabet_last(), 4)] {
        for n in 2..=max_n {
            for idx in 0..(alphabet.len() as u64).pow(n as u32) {
                let ts = rc::array_at(&alphabet, n, idx);
                out.push((vec![Def::Array { len: 2, lo: 0x0030, hi: 0x0030 + n as u32 - 1, ts }], "arrays_alphabet"));
            }
        }
    }
    out
}

/// Targets whose first UTF-16 unit is FEFF (ZERO WIDTH NO-BREAK SPACE) or FFFE, given by a bfchar, as
/// the second code of an incrementing range, as an array element, as the first and as the second unit
/// of a two-unit target, next to two ordinary codes; 2-byte and 1-byte codes. Inputs: the usual empty
/// string, single codes and ordered pairs, so the unit stands first, in the middle and last.
fn bom_cmaps() -> Vec<Vec<Def>> {
    let mut out = vec![];
    for (len, b) in [(2u8, 0x0051u32), (1u8, 0x51u32)] {
        for t in [0xFEFFu16, 0xFFFE] {
            let plain = vec![Def::Char { len, code: b + 4, t: vec![0x0042] }, Def::Char { len, code: b + 5, t: rc::T_LIG.to_vec() }];
            let with = |d: Def| {
                let mut v = plain.clone();
                v.push(d);
                v
            };
            out.push(with(Def::Char { len, code: b, t: vec![t] }));
            out.push(with(Def::Range { len, lo: b, hi: b + 1, t: vec![t - 1] }));
            out.push(with(Def::Array { len, lo: b, hi: b + 1, ts: vec![vec![0x0043], vec![t]] }));
            out.push(with(Def::Char { len, code: b, t: vec![t, 0x0041] }));
            out.push(with(Def::Char { len, code: b, t: vec![0x0041, t] }));
            out.push(with(Def::Range { len, lo: b, hi: b + 1, t: vec![0x0041, t - 1] }));
        }
    }
    out
}

// ---------------------------------------------------------------------------------------------
// last-unit arithmetic, zero units, special code points, longest targets

/// The last unit of a target just below a boundary of 16-bit addition / UTF-16 classification:
/// 00FF|0100 (carry out of the low byte), 7FFF|8000 (sign bit), D7FF|D800 (into the high surrogates),
/// DBFF|DC00 (high to low surrogates), DFFF|E000 (out of the surrogates), FEFE|FEFF (onto the byte order
/// mark value, then FEFF|FF00), FFFF|0000 (wrap; passes FFFD, FFFE, FFFF).
const LU_BOUNDARIES: [u16; 7] = [0x00FF, 0x7FFF, 0xD7FF, 0xDBFF, 0xDFFF, 0xFEFE, 0xFFFF];
/// Units in front of the last one: none, one (plain, zero, high surrogate, the highest high surrogate,
/// a low surrogate, the byte order mark value) and two (plain, plain + high surrogate, a whole pair,
/// zero + highest high surrogate).
const LU_PREFIXES: [&[u16]; 11] = [
    &[],
    &[0x0041],
    &[0x0000],
    &[0xD83D],
    &[0xDBFF],
    &[0xDC00],
    &[0xFEFF],
    &[0x0041, 0x0042],
    &[0x0041, 0xD83D],
    &[0xD83D, 0xDE00],
    &[0x0000, 0xDBFF],
];
/// (code length, first code of the range): 1-byte, 2-byte, 2-byte codes crossing 00FF|0100, the last
/// 2-byte codes, the last 4-byte codes.
const LU_BASES: [(u8, u32); 5] = [(2, 0x0010), (1, 0x20), (2, 0x00FC), (2, 0xFFF8), (4, 0xFFFF_FFF8)];

#[derive(Clone, Copy, PartialEq, Debug)]
enum LuForm {
    /// `<lo> <hi> <prefix s>`
    Range,
    /// the same followed by a bfchar for the second code (the stored interval is split)
    RangeSplit,
    /// the same preceded by a two-code range with the identical target, touching it
    RangeTwin,
    /// `<lo> <hi> [<prefix s> <prefix s+1> ...]`: the values written out as array elements
    Array,
    /// `<lo> <hi> [<prefix s> <prefix s> ...]`: equal elements (nothing is added to an array element)
    ArrayConst,
    /// one bfchar per code with the value written out
    Chars,
}
const LU_FORMS: [LuForm; 6] = [LuForm::Range, LuForm::RangeSplit, LuForm::RangeTwin, LuForm::Array, LuForm::ArrayConst, LuForm::Chars];

/// The CMap in which `n` consecutive codes from `base` get the values prefix + (s + i mod 2^16).
fn last_unit_cmap(len: u8, base: u32, prefix: &[u16], s: u16, n: u32, form: LuForm) -> Option<Vec<Def>> {
    let val = |i: u32| -> rc::Units {
        let mut v = prefix.to_vec();
        v.push(s.wrapping_add(i as u16));
        v
    };
    let (lo, hi) = (base, base + (n - 1));
    let range = Def::Range { len, lo, hi, t: val(0) };
    Some(match form {
        LuForm::Range => vec![range],
        LuForm::RangeSplit if n >= 3 => vec![range, Def::Char { len, code: lo + 1, t: vec![0x0058] }],
        LuForm::RangeTwin => vec![Def::Range { len, lo: lo - 2, hi: lo - 1, t: val(0) }, range],
        LuForm::Array => vec![Def::Array { len, lo, hi, ts: (0..n).map(val).collect() }],
        LuForm::ArrayConst if n >= 2 => vec![Def::Array { len, lo, hi, ts: (0..n).map(|_| val(0)).collect() }],
        LuForm::Chars => (0..n).map(|i| Def::Char { len, code: lo + i, t: val(i) }).collect(),
        _ => return None,
    })
}

/// `last_unit`: boundary x prefix x (k, c) x form x code base. The range starts k = 0..4 values below the
/// first value past the boundary and goes c = 1..4 values past it (k + c = 1..8 codes).
/// The bool marks the CMaps that also get the white-space deviations of the tier.
fn last_unit_cmaps() -> Vec<(Vec<Def>, bool)> {
    let mut out = vec![];
    for (bi, &(len, base)) in LU_BASES.iter().enumerate() {
        for &x in &LU_BOUNDARIES {
            for prefix in LU_PREFIXES {
                for k in 0..=4u32 {
                    for c in 1..=4u32 {
                        let s = x.wrapping_add(1).wrapping_sub(k as u16);
                        for form in LU_FORMS {
                            if let Some(defs) = last_unit_cmap(len, base, prefix, s, k + c, form) {
                                out.push((defs, bi < 2 && form == LuForm::Range));
                            }
                        }
                    }
                }
            }
        }
    }
    // ranges much longer than a low byte: the offset itself exceeds 00FF / FFFF
    for (len, lo, n, t) in [
        (2u8, 0x0100u32, 0x0201u32, vec![0x0041u16, 0x00F0]),
        (2, 0x0100, 0x0201, vec![0xD83D, 0xDC00]),
        (2, 0x0000, 0x10000, vec![0x0041, 0xFF00]),
        (2, 0x0000, 0x10000, vec![0xD7F0]),
        (3, 0x01_0000, 0x1_1000, vec![0xD83D, 0xDE00]),
        (4, 0xFFFE_F000, 0x1_1000, vec![0x0042, 0x0000]),
        (1, 0x00, 0x100, vec![0xDBFF, 0xDF80]),
        (1, 0x00, 0x100, vec![0xFF80]),
    ] {
        out.push((vec![Def::Range { len, lo, hi: lo + (n - 1), t }], false));
    }
    out
}

/// All strings of 1..=3 codes when at most 6 codes are mapped (the empty string too); otherwise
/// `inputs_for` plus every triple over the 8 codes it forms pairs of.
fn inputs_triples(defs: &[Def]) -> Vec<Input> {
    let codes = rc::mapped_codes(defs);
    let mut v = inputs_for(defs);
    let pool: Vec<(u8, u32)> = if codes.len() <= 6 {
        codes
    } else {
        let n = codes.len();
        let mut p: Vec<(u8, u32)> = [0, 1, 2, n / 2, n / 2 + 1, n - 3, n - 2, n - 1].iter().map(|&i| codes[i.min(n - 1)]).collect();
        p.dedup();
        p
    };
    for a in &pool {
        for b in &pool {
            for c in &pool {
                v.push(vec![*a, *b, *c]);
            }
        }
    }
    v
}

/// `zero_units`: targets that are, start with, contain or end in the unit 0000, as bfchar, one-code
/// bfrange, incrementing bfrange (from 0000, and onto 0000 by the wrap from FFFF) and array element,
/// next to two ordinary codes (one unit, two units). Identity-style ranges <00..FF> / <0000..00FF> /
/// <0000..FFFF> -> <0000> (code 0 maps to U+0000). Codes 0030.. and 0000.. (2-byte), 30.. and 00.. (1-byte).
fn zero_unit_cmaps() -> Vec<Vec<Def>> {
    let zt: Vec<rc::Units> = vec![
        vec![0x0000],
        vec![0x0000, 0x0000],
        vec![0x0000, 0x0041],
        vec![0x0041, 0x0000],
        vec![0x0041, 0x0000, 0x0042],
        vec![0x0000, 0x0041, 0x0000],
        vec![0x0000, 0xD83D, 0xDE00],
        vec![0xD83D, 0xDE00, 0x0000],
        vec![0xD83D, 0x0000, 0xDE00],
    ];
    let mut out = vec![];
    for (len, b) in [(2u8, 0x0030u32), (2, 0x0000), (1, 0x30), (1, 0x00)] {
        let plain = vec![Def::Char { len, code: b + 4, t: vec![0x0042] }, Def::Char { len, code: b + 5, t: rc::T_LIG.to_vec() }];
        let mut with = |ds: Vec<Def>| {
            let mut v = plain.clone();
            v.extend(ds);
            out.push(v);
        };
        for t in &zt {
            with(vec![Def::Char { len, code: b, t: t.clone() }]);
            with(vec![Def::Range { len, lo: b, hi: b, t: t.clone() }]);
            with(vec![Def::Array { len, lo: b, hi: b, ts: vec![t.clone()] }]);
            with(vec![Def::Range { len, lo: b, hi: b + 2, t: t.clone() }]);
        }
        for t in [vec![0xFFFEu16], vec![0xFFFF], vec![0x0041, 0xFFFF], vec![0x0000, 0xFFFE], vec![0xD83D, 0xFFFF]] {
            with(vec![Def::Range { len, lo: b, hi: b + 2, t }]);
        }
        let z = || vec![0x0000u16];
        let a = |u: u16| vec![u];
        for ts in [
            vec![z(), a(0x41), a(0x43)],
            vec![a(0x41), z(), a(0x43)],
            vec![a(0x41), a(0x43), z()],
            vec![z(), z(), z()],
            vec![z(), a(0x01), a(0x02)],
            vec![vec![0x0041, 0x0000], vec![0x0000, 0x0041], z()],
            vec![vec![0x0041, 0x0000, 0x0042], z(), a(0x44)],
        ] {
            with(vec![Def::Array { len, lo: b, hi: b + 2, ts }]);
        }
        with(vec![Def::Array { len, lo: b, hi: b + 1, ts: vec![z(), z()] }]);
        // 0000 given by the later of two definitions, and taken away again by a later one
        with(vec![Def::Range { len, lo: b, hi: b + 3, t: a(0x41) }, Def::Char { len, code: b + 1, t: z() }]);
        with(vec![Def::Range { len, lo: b, hi: b + 3, t: z() }, Def::Char { len, code: b, t: a(0x41) }]);
        with(vec![Def::Char { len, code: b + 1, t: z() }, Def::Char { len, code: b + 2, t: z() }, Def::Char { len, code: b + 3, t: vec![0x0000, 0x0000] }]);
    }
    // identity-style ranges: code 0 -> U+0000
    out.push(vec![Def::Range { len: 2, lo: 0, hi: 0xFF, t: vec![0] }]);
    out.push(vec![Def::Range { len: 1, lo: 0, hi: 0xFF, t: vec![0] }]);
    out.push(vec![Def::Range { len: 2, lo: 0, hi: 0xFFFF, t: vec![0] }]);
    out.push(vec![Def::Range { len: 2, lo: 0, hi: 0xFF, t: vec![0] }, Def::Range { len: 2, lo: 0x0100, hi: 0x01FF, t: vec![0x0100] }]);
    out.push(vec![Def::Array { len: 1, lo: 0, hi: 3, ts: vec![vec![0], vec![1], vec![2], vec![3]] }]);
    out
}

/// `special_targets`: code points an implementation might treat specially - controls and line ends,
/// invisible and formatting characters, the ends of the BMP blocks around the surrogates, private use,
/// non-characters, U+FFFD itself, the byte order mark values, and supplementary code points at both ends
/// of the planes (incl. plane non-characters, private-use planes, a tag character) - alone, first, last,
/// in the middle and doubled in a target; as bfchar, as incrementing range (two codes), as array element
/// (first and second), next to two ordinary codes.
fn special_target_cmaps() -> Vec<Vec<Def>> {
    let atoms: Vec<rc::Units> = [
        0x0001u16, 0x0009, 0x000A, 0x000C, 0x000D, 0x001B, 0x0020, 0x007F, 0x0080, 0x0085, 0x00A0, 0x00AD, 0x0300, 0x200B, 0x200D, 0x2028, 0x2029, 0x202E, 0xD7FF, 0xE000, 0xF8FF, 0xFDD0, 0xFDEF,
        0xFEFF, 0xFFF9, 0xFFFC, 0xFFFD, 0xFFFE, 0xFFFF,
    ]
    .iter()
    .map(|&u| vec![u])
    .chain(
        [[0xD800u16, 0xDC00], [0xDBFF, 0xDFFF], [0xD83F, 0xDFFE], [0xD83F, 0xDFFF], [0xDB40, 0xDC01], [0xDB80, 0xDC00], [0xDBFF, 0xDFFE], [0xDBFF, 0xDC00], [0xD800, 0xDFFF]].iter().map(|p| p.to_vec()),
    )
    .collect();
    let mut out = vec![];
    for (len, b) in [(2u8, 0x0051u32), (1u8, 0x51u32)] {
        let plain = vec![Def::Char { len, code: b + 4, t: vec![0x0042] }, Def::Char { len, code: b + 5, t: rc::T_LIG.to_vec() }];
        for a in &atoms {
            let cat = |parts: &[&[u16]]| -> rc::Units { parts.concat() };
            let shapes = [cat(&[a]), cat(&[a, &[0x0041]]), cat(&[&[0x0041], a]), cat(&[&[0x0041], a, &[0x0042]]), cat(&[a, a])];
            for t in shapes {
                for d in [
                    Def::Char { len, code: b, t: t.clone() },
                    Def::Range { len, lo: b, hi: b + 1, t: t.clone() },
                    Def::Array { len, lo: b, hi: b + 1, ts: vec![vec![0x0043], t.clone()] },
                    Def::Array { len, lo: b, hi: b + 1, ts: vec![t.clone(), vec![0x0043]] },
                ] {
                    let mut v = plain.clone();
                    v.push(d);
                    out.push(v);
                }
            }
        }
    }
    out
}

/// `long_targets`: targets of 127, 128, 129, 255 and 256 units (256 = 512 bytes is the longest string a
/// CMap may hold): plain letters; a surrogate pair as the last two units; the last unit DFFF after a high
/// surrogate (the second code of a range leaves the pair) and FFFF (the second code wraps onto 0000);
/// a 0000 in the middle and at the end; a pair in the middle. As bfchar, two-code range and array element
/// (the second element is the first one reversed).
fn long_target_cmaps() -> Vec<Vec<Def>> {
    let mut out = vec![];
    for (len, b) in [(2u8, 0x0061u32), (1u8, 0x61u32)] {
        for n in [127usize, 128, 129, 255, 256] {
            let letters = |n: usize| -> rc::Units { (0..n).map(|i| 0x0041 + (i % 26) as u16).collect() };
            let mut kinds: Vec<rc::Units> = vec![letters(n)];
            let mut k = letters(n);
            k[n - 2] = 0xD83D;
            k[n - 1] = 0xDE00;
            kinds.push(k.clone());
            k[n - 1] = 0xDFFF;
            kinds.push(k.clone());
            let mut k = letters(n);
            k[n - 1] = 0xFFFF;
            kinds.push(k);
            let mut k = letters(n);
            k[n / 2] = 0x0000;
            k[n - 1] = 0x0000;
            kinds.push(k);
            // a pair that straddles unit index 127|128 resp. the middle
            let mut k = letters(n);
            k[n / 2 - 1] = 0xD83D;
            k[n / 2] = 0xDE00;
            kinds.push(k);
            for t in kinds {
                let plain = Def::Char { len, code: b + 4, t: vec![0x0042] };
                out.push(vec![plain.clone(), Def::Char { len, code: b, t: t.clone() }]);
                out.push(vec![plain.clone(), Def::Range { len, lo: b, hi: b + 1, t: t.clone() }]);
                out.push(vec![plain.clone(), Def::Array { len, lo: b, hi: b + 1, ts: vec![t.clone(), t.iter().rev().cloned().collect()] }]);
            }
        }
    }
    out
}

/// CMaps with mappings but unusual section structure: explicit code spaces that also declare code
/// lengths nothing is mapped in, one codespace section per range, and (liberal) empty sections.
fn structure_cmaps() -> Vec<(Vec<Def>, Extra)> {
    let two: Vec<Vec<Def>> = vec![
        vec![Def::Char { len: 2, code: 0x0041, t: vec![0x0041] }],
        vec![Def::Char { len: 2, code: 0x0041, t: vec![0x0041] }, Def::Range { len: 2, lo: 0x0042, hi: 0x0044, t: rc::T_LIG.to_vec() }],
        vec![Def::Range { len: 2, lo: 0x0041, hi: 0x0043, t: vec![0x0061] }, Def::Char { len: 2, code: 0x0042, t: rc::T_EMO.to_vec() }, Def::Char { len: 2, code: 0x0045, t: vec![0x0045] }],
    ];
    let one: Vec<Vec<Def>> = vec![
        vec![Def::Char { len: 1, code: 0x41, t: vec![0x0041] }],
        vec![Def::Range { len: 1, lo: 0x41, hi: 0x43, t: vec![0x0061] }, Def::Array { len: 1, lo: 0x42, hi: 0x43, ts: vec![rc::T_EMO.to_vec(), vec![0x0062]] }],
    ];
    let mut out = vec![];
    let cs2: Vec<Vec<(u8, u32, u32)>> = vec![
        vec![(2, 0, 0xFFFF)],
        vec![(1, 0x80, 0xFF), (2, 0x0000, 0x7FFF)],
        vec![(2, 0x0000, 0x7FFF), (1, 0x80, 0xFF)],
        vec![(2, 0x0000, 0x00FF), (2, 0x0100, 0x7FFF), (3, 0x800000, 0x8FFFFF), (4, 0x90000000, 0xFFFFFFFF)],
    ];
    let cs1: Vec<Vec<(u8, u32, u32)>> = vec![vec![(1, 0, 0xFF)], vec![(1, 0x00, 0x7F), (2, 0x8000, 0xFFFF)], vec![(2, 0x8000, 0xFFFF), (1, 0x00, 0x7F), (4, 0x80000000, 0xFFFFFFFF)]];
    for (sets, spaces) in [(&two, &cs2), (&one, &cs1)] {
        for defs in sets.iter() {
            for cs in spaces.iter() {
                for split in [false, true] {
                    if split && cs.len() == 1 {
                        continue;
                    }
                    out.push((defs.clone(), Extra { codespace: cs.clone(), codespace_split: split, empty_sections: vec![] }));
                }
            }
            // empty sections (liberal): one empty bfchar / bfrange section in front of every definition and at the end
            for pos in 0..=defs.len() {
                for is_range in [false, true] {
                    out.push((defs.clone(), Extra { codespace: vec![], codespace_split: false, empty_sections: vec![(pos, is_range)] }));
                }
            }
            out.push((defs.clone(), Extra { codespace: vec![], codespace_split: false, empty_sections: vec![(0, false), (0, true), (defs.len(), true), (defs.len(), false)] }));
        }
    }
    out
}

/// CMaps without any mapping: only codespace ranges (one section / one section per range / code
/// lengths 1..4), and the same with empty mapping sections (liberal).
fn mappingless_cmaps() -> Vec<Extra> {
    let spaces: Vec<Vec<(u8, u32, u32)>> = vec![
        vec![(2, 0, 0xFFFF)],
        vec![(1, 0, 0xFF)],
        vec![(1, 0x00, 0x80), (2, 0x8140, 0xFFFC)],
        vec![(1, 0x00, 0x7F), (2, 0x8000, 0xBFFF), (3, 0xC00000, 0xDFFFFF), (4, 0xE0000000, 0xFFFFFFFF)],
        vec![(4, 0, 0xFFFFFFFF)],
        vec![(3, 0, 0xFFFFFF)],
    ];
    let mut out = vec![];
    for cs in &spaces {
        for split in [false, true] {
            if split && cs.len() == 1 {
                continue;
            }
            out.push(Extra { codespace: cs.clone(), codespace_split: split, empty_sections: vec![] });
        }
        for es in [vec![(0, false)], vec![(0, true)], vec![(0, false), (0, true)]] {
            out.push(Extra { codespace: cs.clone(), codespace_split: false, empty_sections: es });
        }
    }
    out
}

/// Inputs for a CMap without mappings: the empty string (a string of mapped codes: must decode to
/// ""), then every 1-byte code, every 2-byte code and some 3-/4-byte strings (all unmapped: the call
/// must return, C04's oracle - equality is not demanded for unmapped codes).
fn mappingless_inputs() -> Vec<Vec<u8>> {
    let mut v: Vec<Vec<u8>> = vec![vec![]];
    v.extend((0..=255u8).map(|b| vec![b]));
    v.extend((0..=65535u32).map(|c| vec![(c >> 8) as u8, c as u8]));
    for b in [0x00u8, 0x41, 0x80, 0xFF] {
        for n in 3..=9usize {
            v.push(vec![b; n]);
        }
    }
    v
}

fn is_panic(o: &Out) -> bool {
    matches!(o, Err(e) if e.contains("panic"))
}

fn run_lopdf_bytes(text: &[u8], inputs: &[Vec<u8>], st: &mut Stats) -> Result<Vec<Out>, String> {
    let (doc, fid) = font_doc(text);
    let font = doc.get_dictionary(fid).map_err(|e| format!("harness: {}", e))?;
    st.enc_calls += 1;
    let enc = match util::guard(|| font.get_font_encoding(&doc)) {
        Ok(Ok(e)) => e,
        Ok(Err(e)) => return Err(format!("get_font_encoding error: {}", e)),
        Err(p) => return Err(format!("get_font_encoding {}", p)),
    };
    if !matches!(enc, lopdf::Encoding::UnicodeMapEncoding(_)) {
        return Err(format!("get_font_encoding returned {:?}, not a ToUnicode map", enc));
    }
    let mut outs = Vec::with_capacity(inputs.len());
    for bytes in inputs {
        st.decode_calls += 1;
        outs.push(match util::guard(|| Document::decode_text(&enc, bytes)) {
            Ok(Ok(s)) => Ok(s),
            Ok(Err(e)) => Err(format!("decode_text error: {}", e)),
            Err(p) => Err(format!("decode_text {}", p)),
        });
    }
    Ok(outs)
}

fn hex_bytes(b: &[u8]) -> String {
    b.iter().map(|x| format!("{:02X}", x)).collect()
}

/// One mapping-less CMap in the default spelling and every single-choice deviation.
fn check_mappingless(run: &Run, extra: &Extra, inputs: &[Vec<u8>], st: &mut Stats) {
    let defs: Vec<Def> = vec![];
    let (_, sites) = render_ex(&defs, extra, &[]);
    let base_liberal = !extra.empty_sections.is_empty();
    st.cmaps += 1;
    *st.by_part.entry("mappingless").or_insert(0) += 1;
    for script in vectors(&sites, Explore::Upto(1)) {
        let (text, _) = render_ex(&defs, extra, &script);
        let dev: Vec<usize> = (0..script.len()).filter(|&i| script[i] != 0).collect();
        let liberal = base_liberal || dev.iter().any(|&i| sites[i].liberal);
        st.dev_hist[dev.len().min(2)] += 1;
        if liberal {
            st.liberal += 1;
        } else {
            st.conservative += 1;
        }
        let case = |bytes: Option<&Vec<u8>>| {
            let mut c = case_json_ex("mappingless", &defs, extra, &sites, &script, &text, None);
            c["input_bytes"] = json!(bytes.map(|b| hex_bytes(b)));
            let cs: Vec<String> = extra.codespace.iter().map(|&(l, lo, hi)| format!("<{}> <{}>", rc::hex_code(l, lo, false), rc::hex_code(l, hi, false))).collect();
            let es: Vec<&str> = extra.empty_sections.iter().map(|&(_, r)| if r { "0 beginbfrange" } else { "0 beginbfchar" }).collect();
            c["about"] = json!(format!(
                "no mappings; codespace {}{}{}{}",
                cs.join(" "),
                if extra.codespace_split { " (one section per range)" } else { "" },
                if es.is_empty() { String::new() } else { format!("; empty sections {}", es.join(", ")) },
                bytes.map(|b| format!(" ; input bytes <{}>", hex_bytes(b))).unwrap_or_default()
            ));
            c
        };
        // all inputs under the default spelling; the empty string and the 1-byte codes under deviations
        let inputs = if dev.is_empty() { inputs } else { &inputs[..257.min(inputs.len())] };
        match run_lopdf_bytes(&text, inputs, st) {
            Err(e) => {
                if liberal {
                    st.liberal_rejected += 1;
                    if base_liberal && dev.is_empty() {
                        st.liberal_by_class.entry("empty_section=1".to_string()).or_insert([0; 3])[1] += 1;
                    }
                } else {
                    run.fail(None, case(None), &e, "a well-formed CMap that has code space ranges and no mappings is accepted");
                }
            }
            Ok(outs) => {
                let mut bad = false;
                for (k, bytes) in inputs.iter().enumerate() {
                    let wrong = if bytes.is_empty() { outs[k] != Ok(String::new()) } else { is_panic(&outs[k]) };
                    if wrong {
                        bad = true;
                        let exp = if bytes.is_empty() { show(&Ok(String::new())) } else { "the call returns (every code is unmapped; no text is demanded)".to_string() };
                        run.fail(None, case(Some(bytes)), &show(&outs[k]), &exp);
                        break;
                    }
                }
                if liberal {
                    if bad {
                        st.liberal_misdecoded += 1;
                    } else {
                        st.liberal_accepted_correct += 1;
                    }
                    if base_liberal && dev.is_empty() {
                        st.liberal_by_class.entry("empty_section=1".to_string()).or_insert([0; 3])[if bad { 2 } else { 0 }] += 1;
                    }
                }
            }
        }
    }
}

// ---------------------------------------------------------------------------------------------
// enumeration

/// All sequences of exactly `k` menu entries, index-addressed so that nothing is materialised.
fn seq_at(menu: &[Def], k: usize, mut idx: u64) -> Vec<Def> {
    let n = menu.len() as u64;
    let mut v = vec![Def::Char { len: 1, code: 0, t: vec![0] }; k];
    for p in (0..k).rev() {
        v[p] = menu[(idx % n) as usize].clone();
        idx /= n;
    }
    v
}

fn sweep(run: &Run, total: &Mutex<Stats>, part: &'static str, menu: &[Def], k: usize, how: Explore, filter: Option<(u64, u64)>) {
    let n = menu.len() as u64;
    let count = n.pow(k as u32);
    let chunk: u64 = if k >= 3 { 2048 } else { 64 };
    let nchunks = count.div_ceil(chunk);
    util::par_for(nchunks as usize, |ci| {
        let mut st = Stats::default();
        let lo = ci as u64 * chunk;
        let hi = (lo + chunk).min(count);
        for idx in lo..hi {
            if let Some((m, r)) = filter {
                if idx % m != r {
                    continue;
                }
            }
            let defs = seq_at(menu, k, idx);
            if part == "len134" && defs.iter().all(|d| d.len() == 1) {
                continue; // already enumerated by seq1 / seq2
            }
            if matches!(part, "ovl3" | "ovl4" | "ovl3_edges") {
                check_cmap_inputs(run, part, &defs, &Extra::default(), how, inputs_short(&defs), &mut st);
            } else {
                check_cmap(run, part, &defs, how, &mut st);
            }
        }
        total.lock().unwrap().merge(st);
    });
}

/// Sections of 33, 40, 64 and 100 entries whose entries come in a deterministic shuffled order
/// (multiplicative permutations) and re-define 1..6 codes at several distances: bfchar-only sections,
/// bfrange-only sections with overlapping ranges, and both. The oracle is unchanged: the last
/// definition in file order wins.
fn large_section_cmaps() -> Vec<Vec<Def>> {
    let tgt = |i: u32, gen: u32| -> rc::Units {
        // pairwise different for different (i, gen); shapes rotate: one unit, two units, surrogate pair
        match (i + gen) % 3 {
            0 => vec![(0x0400 + 0x100 * gen + i) as u16],
            1 => vec![0x0066, (0x2000 + 0x100 * gen + i) as u16],
            _ => vec![0xD83D, (0xDC00 + 0x80 * gen + i) as u16],
        }
    };
    let mut out = vec![];
    for (len, base) in [(2u8, 0x0200u32), (1u8, 0x20u32)] {
        for &n in &[33u32, 40, 64, 100] {
            for &k in &[1u32, 7, 11, 23, 37] {
                for redefs in 1..=6u32 {
                    if len == 1 && (k > 11 || redefs % 2 == 0) {
                        continue;
                    }
                    let m = n - redefs; // distinct codes
                    let gcd = |mut a: u32, mut b: u32| {
                        while b != 0 {
                            (a, b) = (b, a % b);
                        }
                        a
                    };
                    let mut kk = k;
                    while gcd(kk, m) != 1 {
                        kk += 1;
                    }
                    let perm = |j: u32| (j * kk + 3) % m;
                    // bfchar section
                    let mut chars: Vec<Def> = (0..m).map(|j| Def::Char { len, code: base + perm(j), t: tgt(perm(j), 0) }).collect();
                    // bfrange section: entry j covers 1..4 codes starting at 2*perm(j): neighbours overlap
                    let mut ranges: Vec<Def> = (0..m)
                        .map(|j| {
                            let lo = base + perm(j);
                            let span = j % 4;
                            let hi = (lo + span).min(base + m - 1);
                            if j % 5 == 4 {
                                Def::Array { len, lo, hi, ts: (0..=hi - lo).map(|e| tgt(perm(j) + e, 3 + e % 2)).collect() }
                            } else {
                                let mut t = tgt(perm(j), 1);
                                *t.last_mut().unwrap() &= 0xFF7F; // room for the increment in the low byte
                                Def::Range { len, lo, hi, t }
                            }
                        })
                        .collect();
                    // re-definitions: copy q re-defines the code of entry a at distance dist after it
                    for q in 0..redefs {
                        let dists = [1u32, 2, 5, m / 2, m - 1, 17];
                        let a = (q * 9 + k) % (m / 2);
                        let at = (a + dists[((q + k) % 6) as usize]).min(chars.len() as u32 - 1) + 1;
                        let code = chars[a as usize].lo();
                        chars.insert(at as usize, Def::Char { len, code, t: tgt(code - base, 2 + q % 2) });
                        let (lo, hi) = (ranges[a as usize].lo(), ranges[a as usize].hi());
                        let mut t = tgt(lo - base, 5);
                        *t.last_mut().unwrap() &= 0xFF7F;
                        ranges.insert(at as usize, Def::Range { len, lo, hi, t });
                    }
                    match (k, redefs % 3) {
                        (1, _) | (_, 0) => {
                            out.push(chars.clone());
                            out.push(ranges);
                        }
                        (_, 1) => out.push(chars.clone()),
                        _ => {
                            // both kinds in one CMap: the bfrange section first, the bfchar section re-defining on top
                            let mut both = ranges;
                            both.extend(chars.iter().step_by(3).cloned());
                            out.push(both);
                            out.push(chars.clone());
                        }
                    }
                }
            }
        }
    }
    out
}

/// CMaps with a one-unit, a two-unit and a surrogate-pair target and long strings of their codes, so
/// that a multi-unit target starts at every offset 0..=400 (and around powers of two up to 65536) of
/// the decoded UTF-16 output. Oracle: concatenation of the per-code reference values, decoded as UTF-16.
fn long_string_cases() -> Vec<(Vec<Def>, Vec<Input>)> {
    let mut out = vec![];
    for (len, b) in [(2u8, 0x0010u32), (1u8, 0x10u32), (3u8, 0x010010u32)] {
        let defs = vec![
            Def::Range { len, lo: b, hi: b + 1, t: rc::T_A.to_vec() },
            Def::Char { len, code: b + 2, t: rc::T_LIG.to_vec() },
            Def::Range { len, lo: b + 3, hi: b + 4, t: rc::T_EMO.to_vec() },
            Def::Array { len, lo: b + 5, hi: b + 6, ts: vec![vec![0x4E2D], vec![0xD840, 0xDC3E]] },
        ];
        let (bmp, bmp2, lig, emo, emo2, han, sup) = ((len, b), (len, b + 1), (len, b + 2), (len, b + 3), (len, b + 4), (len, b + 5), (len, b + 6));
        let rep = |c: (u8, u32), n: usize| -> Input { vec![c; n] };
        let cat = |parts: &[Input]| -> Input { parts.concat() };
        let mut inputs: Vec<Input> = rc::mapped_codes(&defs).into_iter().map(|c| vec![c]).collect();
        let max_n = if len == 2 { 400 } else { 300 };
        for n in 0..=max_n {
            inputs.push(cat(&[rep(bmp, n), vec![emo]]));
            inputs.push(cat(&[rep(bmp, n), vec![lig]]));
            inputs.push(cat(&[rep(bmp2, n), vec![sup, han]]));
            inputs.push(cat(&[rep(bmp, n), vec![emo2, emo, bmp2]]));
            inputs.push(cat(&[vec![bmp], rep(lig, n), vec![emo]]));
        }
        for n in 1..=300 {
            inputs.push(rep(emo, n));
            inputs.push(cat(&[rep(lig, n), vec![emo2]]));
        }
        if len == 2 {
            for p in 9..=16u32 {
                for d in [-2i64, -1, 0, 1] {
                    let n = ((1i64 << p) + d) as usize;
                    inputs.push(cat(&[rep(bmp, n), vec![emo, lig, sup]]));
                    inputs.push(rep(emo2, n / 2));
                }
            }
        }
        out.push((defs, inputs));
    }
    out
}

/// Hand-written CMaps at the edges of the code space of every code length.
fn edge_cmaps() -> Vec<Vec<Def>> {
    let a = rc::T_A.to_vec();
    let lig = rc::T_LIG.to_vec();
    let emo = rc::T_EMO.to_vec();
    let mut singles: Vec<Def> = vec![];
    for len in 1u8..=4 {
        let max: u32 = if len == 4 { u32::MAX } else { (1u32 << (8 * len as u32)) - 1 };
        singles.push(Def::Char { len, code: 0, t: a.clone() });
        singles.push(Def::Char { len, code: max, t: emo.clone() });
        singles.push(Def::Char { len, code: max, t: a.clone() });
        singles.push(Def::Range { len, lo: 0, hi: 7, t: lig.clone() });
        singles.push(Def::Range { len, lo: max - 7, hi: max, t: emo.clone() });
        singles.push(Def::Range { len, lo: max - 7, hi: max, t: vec![0x00F8] });
        singles.push(Def::Range { len, lo: max - 1, hi: max, t: a.clone() });
        singles.push(Def::Array { len, lo: max - 1, hi: max, ts: vec![emo.clone(), a.clone()] });
        singles.push(Def::Array { len, lo: 0, hi: 1, ts: vec![lig.clone(), vec![0x00FF]] });
        singles.push(Def::Char { len, code: max - 2, t: lig.clone() });
        // identity over one whole low byte (the well-formed way to map 256 codes)
        singles.push(Def::Range { len, lo: max - 0xff, hi: max, t: vec![0x0100] });
    }
    let mut out: Vec<Vec<Def>> = singles.iter().map(|d| vec![d.clone()]).collect();
    for x in &singles {
        for y in &singles {
            if x.len() == y.len() {
                out.push(vec![x.clone(), y.clone()]);
            }
        }
    }
    out
}

fn stats_to_run(run: &Run, s: &Stats, menu_len: usize) {
    run.eval(s.enc_calls + s.decode_calls);
    run.nontrivial(s.cases_nontrivial);
    run.set("menu_size", json!(menu_len));
    run.set("get_font_encoding_calls", json!(s.enc_calls));
    run.set("decode_text_calls", json!(s.decode_calls));
    run.set("cmaps", json!(s.cmaps));
    run.set("cmaps_nontrivial", json!(s.cmaps_nontrivial));
    run.set("cmaps_by_part", json!(s.by_part));
    run.set("conservative", json!(s.conservative));
    run.set("liberal", json!(s.liberal));
    run.set("liberal_accepted_correct", json!(s.liberal_accepted_correct));
    run.set("liberal_rejected", json!(s.liberal_rejected));
    run.set("liberal_misdecoded", json!(s.liberal_misdecoded));
    let mut lib = serde_json::Map::new();
    for (k, v) in &s.liberal_by_class {
        lib.insert(k.clone(), json!({"accepted_correct": v[0], "rejected": v[1], "misdecoded": v[2]}));
    }
    run.set("liberal_by_choice", Value::Object(lib));
    run.set("deviation_histogram", json!({"0": s.dev_hist[0], "1": s.dev_hist[1], "2": s.dev_hist[2]}));
    run.set("choice_classes_exercised", json!(s.class_exercised));
    run.set("long_input_strings", json!(s.long_inputs));
    run.set("longest_input_codes", json!(s.longest_input));
    run.set("largest_definition_sequence", json!(s.largest_section));
    run.set("lenient_parts", json!(LENIENT_PARTS));
    run.set("lenient_cmaps_with_low_byte_carry", json!(s.carry_cmaps));
    run.set("lenient_inputs_relying_on_wrap_mod_65536", json!(s.inputs_relying_on_wrap));
    run.set("lenient_inputs_with_unpaired_surrogate", json!(s.inputs_with_unpaired_surrogate));
    run.set("lenient_inputs_pairing_surrogates_across_codes", json!(s.inputs_pairing_across_codes));
    run.set("lenient_inputs_with_zero_unit", json!(s.inputs_with_zero_unit));
    run.set("longest_target_units", json!(s.longest_target_units));
    run.set("open_unpaired_surrogate_rendering_differs_NO_VERDICT", json!(s.open_unpaired_differs));
    run.set("cmaps_with_known_finding", json!(s.cmaps_with_known_finding));
    run.set("deviation_renderings_repeating_a_known_finding", json!(s.known_repeated_in_deviation));
}

fn main() {
    let run = Run::from_args("C15", "exploration");
    util::quiet_panics();
    util::init_pool();
    util::pin_schedule();
    if let Mode::Replay(path) = run.mode.clone() {
        replay(&run, &path);
    }
    let parts = rc::menu();
    let menu = &parts.menu;
    let n = menu.len();
    run.rule(
        "CMaps are all sequences (with repetition, order kept) of <=2 (quick) / <=3 (thorough) definitions from the fixed menu \
         (bfchar / incrementing bfrange / array bfrange; targets: one unit, one unit ending at 00FF, two units, surrogate pair; \
         1-byte codes 10..17, 2-byte codes 0010..0017 and 00FE..0101), enumerated by index without repetition. Each CMap is rendered \
         as CMap text by the choice recorder: the all-zero vector (ISO 32000 template, one section per definition) plus every vector \
         with <=1 (quick) / <=2 (thorough, sequences of <=2 definitions) non-zero choices; sequences of 3 definitions get the default \
         spelling and every combination of the section-merge choices (quick: only the residue class of 3-sequences named in seq3_slice, \
         a supplementary slice). Spot checks: sequences of <=2 definitions over the 1-byte menu moved to 3- and 4-byte codes and mixed with \
         the 1-byte originals (len134), and hand-written CMaps at both ends of the code space of every length (edges, default spelling); large sections (large_sections: bfchar and bfrange sections of 33/40/64/100 \
         entries in multiplicatively permuted order with 1..6 re-definitions of a code inside the section, rendered one section per \
         definition and fully merged); long input strings (long_strings: for CMaps with one-unit, two-unit and surrogate-pair targets, \
         n one-unit codes followed by a multi-unit code for every n in 0..=400, runs of multi-unit codes up to 300, and lengths around \
         2^9..2^16, so a multi-unit target starts at every output offset). \
         Overlap sequences (both tiers): the overlap menu holds every one of the 15 intervals of a 5-code window (2-byte codes 0041..0045) in the forms Id (code -> 0041+position: \
         bfchar for one code, incrementing bfrange otherwise, so every Id entry gives a code the same value and the same stored offset), the one-code Id entries as bfrange, Sh \
         (code -> 0061+position), IdArr (the Id values as an array of one-unit elements), Lig (fixed two-unit target) and Mix (array of 1-, 2- and 3-unit elements fixed per position): \
         80 entries. ovl3 = every sequence of 3 entries (512,000; default spelling and all merges taken; thorough: every combination of merges); ovl4 = every sequence of 4 entries of \
         the Id/Sh sub-menu (30 entries, 810,000, default spelling; thorough: Id/Sh/Lig, 45 entries, 4,100,625, default spelling and all merges taken); ovl3_edges = every 3-sequence of the Id/Sh menu over the last 5 codes of the 1-, 2-, 3- \
         and 4-byte code space and over 00FE..0102, and of the Id/IdArr menu whose values 00FD..0101 cross the low byte of the target (ranges that would carry out of it are ill-formed and left out); ovl_mixed_lengths = every 3-sequence (thorough: also 4) over the Id/Sh menus of the 3-code windows 41..43 (1-byte) and 0041..0043 \
         (2-byte) in one CMap. So a later definition meets earlier ones with equal ends, inner holes, identical and shifted targets, in all three spellings, across and inside sections. \
         Array targets: arrays_profile = arrays of 2..4 elements in every profile of element lengths {1,2,3} x leading units ascending/equal/descending from 0041 and 00FE, alone and \
         on top of an identity range two codes wider at its start, middle and end, 1- and 2-byte codes, with the deviations of the tier; arrays_alphabet = every array of 2..4 elements \
         over 12 elements (leading unit 0041..0044 x 1..3 units) and over 6 elements sharing the leading unit (last unit counting), default spelling. \
         bom_targets = 24 CMaps whose targets hold FEFF / FFFE as the only, first or second unit (bfchar, range, array), decoded first, in the middle and last. \
         last_unit = last-unit arithmetic: 7 boundaries of the last unit (00FF|0100, 7FFF|8000, D7FF|D800, DBFF|DC00, DFFF|E000, FEFE|FEFF, FFFF|0000) x 11 unit sequences in front of it \
         (none; 0041; 0000; D83D; DBFF; DC00; FEFF; 0041 0042; 0041 D83D; D83D DE00; 0000 DBFF) x ranges that start k=0..4 values below the first value past the boundary and go c=1..4 values past it \
         (1..8 codes) x 6 forms (the incrementing bfrange alone; followed by a bfchar on its second code; preceded by a touching two-code range with the identical target; the values written out as an array; an \
         array of equal elements; one bfchar per code) x 5 code windows (0010.., 20.., 00FC.. crossing the code's low byte, FFF8..FFFF, FFFFFFF8..FFFFFFFF), plus 8 ranges of 256..69,632 codes whose offset itself \
         exceeds 00FF / FFFF; default spelling and all merges taken, the plain range form over 0010.. and 20.. (thorough: all) also with every single deviation. \
         zero_units = targets that are, start with, contain or end in 0000 (9 targets as bfchar, one-code bfrange, one-element array, three-code incrementing range; ranges that wrap from FFFE/FFFF onto 0000; \
         arrays with 0000 first, in the middle, last, everywhere and inside multi-unit elements; 0000 given and taken away by a later definition) next to a one-unit and a two-unit code, for 2-byte codes 0030.. and 0000.. \
         and 1-byte codes 30.. and 00.., and identity-style ranges over 00..FF, 0000..00FF, 0000..FFFF; inputs: every string of <= 3 mapped codes (more than 6 codes: all codes alone, pairs and triples over 8 of them). \
         special_targets = 38 atoms (controls, line ends, invisible/formatting characters, D7FF, E000, F8FF, FDD0, FDEF, FEFF, FFF9, FFFC, FFFD, FFFE, FFFF; U+10000, U+10FFFF, U+1FFFE, U+1FFFF, U+E0001, U+F0000, U+10FFFE, U+10FC00, U+103FF) \
         alone / first / last / in the middle / doubled in a target x bfchar, two-code range, array element (first, second) x 1- and 2-byte codes, strings of <= 3 codes, every single deviation. \
         long_targets = targets of 127/128/129/255/256 units (6 contents) as bfchar, two-code range and array element. \
         Degenerate CMaps: structure = 5 small definition sets x explicit code spaces (one range; ranges of other code lengths nothing is mapped in; one codespace section per range) \
         and, as liberal spellings, an empty section (0 beginbfchar / 0 beginbfrange) in front of each definition and at the end; mappingless = CMaps with code space ranges only \
         (6 code spaces, split or not; with empty sections as liberal spellings), default spelling and every single deviation, decoded for the empty string (must be empty), \
         every 1-byte and every 2-byte code and runs of 3..9 equal bytes (must return). The empty string is an input of every CMap of every part except long_strings; ovl3, ovl4 and ovl3_edges decode the empty string, every mapped code alone and all mapped \
         codes in ascending and in descending order instead of every ordered pair. \
         Each rendering is parsed with get_font_encoding and every mapped code and every ordered pair of mapped codes is decoded with \
         decode_text (CMaps with more than 24 mapped codes, which only occur in edges: all codes alone, pairs over 8 of them). \
         A case is a (definition sequence, choice vector) with conservative choices only; it is non-trivial when two of its definitions \
         of the same code length overlap or touch. Cases are distinct by construction (distinct index / distinct vector; every deviation \
         changes the text because choice sites only exist where they apply). Liberal renderings are counted separately (liberal*) and \
         are not in distinct_nontrivial.",
    );
    run.assume("reference semantics in harness/src/refcmap.rs (last covering definition wins; range offset added to the last UTF-16 unit; array indexed by offset; UTF-16 decoding) is the property's statement");
    run.assume("domain: well-formed CMaps only - array targets have exactly hi-lo+1 elements, targets have 1..256 units, inputs are strings of mapped codes, code sets are prefix-free (1-byte codes 10..17 never start a longer mapped code); outside the parts last_unit, zero_units, special_targets and long_targets incrementing ranges never carry out of the low byte of the last unit");
    run.assume("parts last_unit, zero_units, special_targets, long_targets: a bfrange whose offset carries out of the low byte of its last unit (ISO 32000-1 9.10.3 calls the result undefined) is given the value the property's own words give it - the offset is added to the last UTF-16 unit as a 16-bit number, no other unit changes (lenient_cmaps_with_low_byte_carry counts these CMaps)");
    run.assume("the sum wraps modulo 2^16 (FFFF + 1 = 0000), the one reading under which only the last unit changes; the unchanged tree does the same (wrapping_add in ToUnicodeCMap::get); lenient_inputs_relying_on_wrap_mod_65536 counts the inputs whose expected text rests on this");
    run.assume("the units of all codes of the input are concatenated and decoded as UTF-16; a surrogate without a partner is U+FFFD in the reference text (what the unchanged tree gives). The statement is silent about unpaired surrogates and about a pair formed by the end of one code's value and the start of the next: when the observed text differs from the reference text ONLY there - every character the statement fixes is present in order, a surrogate unpaired inside its own code's value standing for any zero or more characters - the case is counted in open_unpaired_surrogate_rendering_differs_NO_VERDICT and no verdict is given; a fixed character that is missing, altered or moved is a violation");
    run.assume("U+0000, non-characters, private-use code points and U+FFFD are targets like any other: the CMap defines them, the decoded text holds them");
    run.assume("a CMap whose only sections are codespace ranges is well-formed and maps nothing: the empty string is its only string of mapped codes and decodes to the empty string; for byte strings of unmapped codes only C04's oracle (the call returns) is applied, on mapping-less CMaps only");
    run.assume("a mapping section with zero entries (0 beginbfchar endbfchar) is treated as a liberal spelling: rejection is counted (liberal_by_choice empty_section=1), acceptance with a wrong decoding fails");
    run.assume("liberal spellings (line break inside an array / between <lo> and <hi> / before the target, no space between array elements, a section on one line) may be rejected by lopdf's grammar without failing the property; accepting them and decoding wrongly fails it");
    let total = Mutex::new(Stats::default());
    let t = run.thorough;

    // 1. sequences of <= 2 definitions x deviations
    let d = if t { 2 } else { 1 };
    sweep(&run, &total, "seq1", menu, 1, Explore::Upto(d), None);
    sweep(&run, &total, "seq2", menu, 2, Explore::Upto(d), None);
    // 2. sequences of 3 definitions: all (thorough) or the residue class selected by the seed (quick)
    let m3: u64 = 32;
    if t {
        sweep(&run, &total, "seq3", menu, 3, Explore::MergeOnly, None);
    } else {
        sweep(&run, &total, "seq3_slice", menu, 3, Explore::MergeOnly, Some((m3, run.seed % m3)));
        run.set("seq3_slice", json!(format!("index mod {} == {} (rotates with VERIF_SEED; supplementary to the quick bound)", m3, run.seed % m3)));
    }
    // 3. code lengths 3 and 4 (spot check): the 1-byte menu moved to 3-byte codes 010010.. and 4-byte
    //    codes FFFFFF10.., in sequences that also mix them with each other and with the 1-byte originals
    //    (prefix-free: no mapped 1-byte code is 01 or FF, no 3-byte code starts a 4-byte one)
    let mut m134: Vec<Def> = menu[parts.one_byte.clone()].to_vec();
    for (len, base) in [(3u8, 0x0100_00u32), (4u8, 0xFFFF_FF00u32)] {
        let moved: Vec<Def> = menu[parts.one_byte.clone()].iter().map(|d| rc::transpose(d, len, base)).collect();
        m134.extend(moved);
    }
    if !rc::prefix_free(&rc::mapped_codes(&m134)) || !rc::prefix_free(&rc::mapped_codes(menu)) {
        eprintln!("MACHINERY: menu code sets are not prefix-free");
        std::process::exit(2);
    }
    sweep(&run, &total, "len134", &m134, 1, Explore::Upto(d), None);
    sweep(&run, &total, "len134", &m134, 2, Explore::Upto(if t { 1 } else { 0 }), None);
    // 5. large sections: 33..100 entries in shuffled order with re-definitions inside one section
    let large = large_section_cmaps();
    util::par_for(large.len(), |i| {
        let mut st = Stats::default();
        check_cmap(&run, "large_sections", &large[i], Explore::AllMerged, &mut st);
        total.lock().unwrap().merge(st);
    });
    // 6. long input strings: multi-unit targets at every offset of the decoded output
    let long = long_string_cases();
    util::par_for(long.len(), |i| {
        let mut st = Stats::default();
        st.long_inputs += long[i].1.iter().filter(|x| x.len() > 2).count() as u64;
        st.longest_input = long[i].1.iter().map(|x| x.len() as u64).max().unwrap_or(0);
        check_cmap_inputs(&run, "long_strings", &long[i].0, &Extra::default(), Explore::Upto(0), long[i].1.clone(), &mut st);
        total.lock().unwrap().merge(st);
    });
    // 4. edges of the code space
    let edges = edge_cmaps();
    util::par_for(edges.len(), |i| {
        let mut st = Stats::default();
        check_cmap(&run, "edges", &edges[i], Explore::Upto(0), &mut st);
        total.lock().unwrap().merge(st);
    });

    // 7. overlap sequences: every interval of a 5-code window in forms whose values agree between
    //    intervals (so that equal stored targets, holes between them and exact re-covering all occur)
    let ovl = rc::overlap_menu(2, 0x0041, 5, &[Form::Id, Form::IdRange1, Form::Sh, Form::IdArr, Form::Lig, Form::Mix], 0x0041, 0x0061);
    let ovl_small = rc::overlap_menu(2, 0x0041, 5, &[Form::Id, Form::Sh], 0x0041, 0x0061);
    let ovl_mid = rc::overlap_menu(2, 0x0041, 5, &[Form::Id, Form::Sh, Form::Lig], 0x0041, 0x0061);
    sweep(&run, &total, "ovl3", &ovl, 3, if t { Explore::MergeOnly } else { Explore::AllMerged }, None);
    sweep(&run, &total, "ovl4", if t { &ovl_mid } else { &ovl_small }, 4, if t { Explore::AllMerged } else { Explore::Upto(0) }, None);
    // the same at the top of the code space of every length and across 00FF/0100 (two forms)
    for (len, base) in [(1u8, 0xFBu32), (2, 0x00FE), (2, 0xFFFB), (3, 0xFFFFFB), (4, 0xFFFF_FFFB)] {
        let m = rc::overlap_menu(len, base, 5, &[Form::Id, Form::Sh], 0x0391, 0x03B1);
        sweep(&run, &total, "ovl3_edges", &m, 3, Explore::AllMerged, None);
    }
    // targets that cross 00FF/0100: one-unit values 00FD..0101 given by bfchars, by ranges that stay inside
    // one low byte (a range that carries out of it is ill-formed and left out) and by arrays
    let mut tgt_edge = rc::overlap_menu(2, 0x0041, 5, &[Form::Id, Form::IdArr], 0x00FD, 0x0061);
    tgt_edge.retain(|d| d.well_formed());
    sweep(&run, &total, "ovl3_edges", &tgt_edge, 3, Explore::AllMerged, None);
    run.set("ovl3_target_edge_menu_size", json!(tgt_edge.len()));
    // the same numeric window as 1-byte and as 2-byte codes in one CMap (prefix-free: 00 is not a mapped 1-byte code)
    let mut mix12 = rc::overlap_menu(1, 0x41, 3, &[Form::Id, Form::Sh], 0x0041, 0x0061);
    mix12.extend(rc::overlap_menu(2, 0x0041, 3, &[Form::Id, Form::Sh], 0x0141, 0x0161));
    if !rc::prefix_free(&rc::mapped_codes(&mix12)) {
        eprintln!("MACHINERY: mix12 code set is not prefix-free");
        std::process::exit(2);
    }
    sweep(&run, &total, "ovl_mixed_lengths", &mix12, 3, Explore::AllMerged, None);
    if t {
        sweep(&run, &total, "ovl_mixed_lengths", &mix12, 4, Explore::AllMerged, None);
    }
    // 8. array targets
    let arrays = array_cmaps();
    util::par_for(arrays.len().div_ceil(256), |ci| {
        let mut st = Stats::default();
        for (defs, part) in &arrays[ci * 256..(ci * 256 + 256).min(arrays.len())] {
            check_cmap(&run, part, defs, if *part == "arrays_profile" { Explore::Upto(d) } else { Explore::Upto(0) }, &mut st);
        }
        total.lock().unwrap().merge(st);
    });
    // 8b. targets that start with a byte-order-mark value
    let boms = bom_cmaps();
    util::par_for(boms.len(), |i| {
        let mut st = Stats::default();
        check_cmap(&run, "bom_targets", &boms[i], Explore::Upto(1), &mut st);
        total.lock().unwrap().merge(st);
    });
    // 8c. last-unit arithmetic at every boundary of 16-bit addition and UTF-16 classification
    let lu = last_unit_cmaps();
    util::par_for(lu.len().div_ceil(64), |ci| {
        let mut st = Stats::default();
        for (defs, dev) in &lu[ci * 64..(ci * 64 + 64).min(lu.len())] {
            let how = if *dev || t { Explore::Upto(1) } else { Explore::AllMerged };
            check_cmap(&run, "last_unit", defs, how, &mut st);
        }
        total.lock().unwrap().merge(st);
    });
    // 8d. the unit 0000 in targets; 8e. special code points; 8f. the longest targets
    let zeros = zero_unit_cmaps();
    util::par_for(zeros.len(), |i| {
        let mut st = Stats::default();
        let big = rc::mapped_codes(&zeros[i]).len() > 24;
        check_cmap_inputs(&run, "zero_units", &zeros[i], &Extra::default(), if big { Explore::Upto(0) } else { Explore::Upto(d) }, inputs_triples(&zeros[i]), &mut st);
        total.lock().unwrap().merge(st);
    });
    let special = special_target_cmaps();
    util::par_for(special.len().div_ceil(16), |ci| {
        let mut st = Stats::default();
        for defs in &special[ci * 16..(ci * 16 + 16).min(special.len())] {
            check_cmap_inputs(&run, "special_targets", defs, &Extra::default(), Explore::Upto(1), inputs_triples(defs), &mut st);
        }
        total.lock().unwrap().merge(st);
    });
    let longt = long_target_cmaps();
    util::par_for(longt.len(), |i| {
        let mut st = Stats::default();
        check_cmap_inputs(&run, "long_targets", &longt[i], &Extra::default(), Explore::Upto(1), inputs_triples(&longt[i]), &mut st);
        total.lock().unwrap().merge(st);
    });
    // 9. degenerate CMaps: unusual section structure with mappings; no mappings at all
    let structure = structure_cmaps();
    util::par_for(structure.len(), |i| {
        let mut st = Stats::default();
        let (defs, extra) = &structure[i];
        check_cmap_inputs(&run, "structure", defs, extra, Explore::Upto(1), inputs_for(defs), &mut st);
        total.lock().unwrap().merge(st);
    });
    let mappingless = mappingless_cmaps();
    let ml_inputs = mappingless_inputs();
    util::par_for(mappingless.len(), |i| {
        let mut st = Stats::default();
        check_mappingless(&run, &mappingless[i], &ml_inputs, &mut st);
        total.lock().unwrap().merge(st);
    });
    run.set("mappingless_inputs_per_cmap", json!(ml_inputs.len()));

    // samples: first, a middle one with deviations, the largest
    let sample = |defs: &[Def], script: &[usize]| {
        let (text, sites) = render_with(defs, script);
        let inputs = inputs_for(defs);
        let last = inputs.last().unwrap();
        let mut c = case_json("sample", defs, &sites, script, &text, Some(last));
        c["expected"] = json!(rc::expected_text(defs, last));
        c["inputs"] = json!(inputs.len());
        run.sample(c);
    };
    sample(&seq_at(menu, 1, 0), &[]);
    sample(&seq_at(menu, 2, (n * n / 2 + 7) as u64), &[0, 1, 3, 1]);
    sample(&seq_at(menu, 2, 3 * n as u64 + 100), &[0, 0, 0, 0, 2, 0, 0, 1]);
    sample(&edges[edges.len() - 1], &[]);
    sample(&seq_at(menu, 3, if t { (n * n * n - 1) as u64 } else { run.seed % m3 + m3 * 1000 }), &[]);

    let s = total.into_inner().unwrap();
    stats_to_run(&run, &s, n);
    run.exhaustive(true);
    run.finish();
}

// ---------------------------------------------------------------------------------------------

fn replay(run: &Run, path: &std::path::Path) -> ! {
    let case: Value = vharness::run::read_replay(path);
    let machinery = |m: String| -> ! {
        eprintln!("MACHINERY: {}", m);
        std::process::exit(3)
    };
    let mut defs = vec![];
    for d in case["defs"].as_array().unwrap_or_else(|| machinery("case.defs missing".into())) {
        defs.push(Def::from_json(d).unwrap_or_else(|e| machinery(format!("bad definition: {}", e))));
    }
    let choices = case["choices"].as_array().cloned().unwrap_or_default();
    let script: Vec<usize> = choices.iter().map(|c| c[2].as_u64().unwrap_or(0) as usize).collect();
    let extra = Extra::from_json(&case["extra"]).unwrap_or_else(|e| machinery(format!("bad extra: {}", e)));
    let (text, sites) = render_ex(&defs, &extra, &script);
    if choices.len() > sites.len() {
        machinery(format!("the replay recorded {} choice sites, the rendering has {}", choices.len(), sites.len()));
    }
    for (i, c) in choices.iter().enumerate() {
        if sites[i].class != c[0].as_str().unwrap_or("") || sites[i].n as u64 != c[1].as_u64().unwrap_or(0) {
            machinery(format!("choice site {} is ({}, {}) but the replay recorded {}", i, sites[i].class, sites[i].n, c));
        }
    }
    if let Some(t) = case["cmap_text"].as_str() {
        if t.as_bytes() != &text[..] {
            machinery("the rendered CMap differs from the recorded cmap_text".into());
        }
    }
    println!("CMap text:\n{}", String::from_utf8_lossy(&text).replace('\r', "\\r"));
    // raw input bytes (mapping-less CMaps): "" must decode to "", anything else must return
    if let Some(hex) = case["input_bytes"].as_str() {
        if hex.len() % 2 != 0 {
            machinery(format!("bad input_bytes {}", hex));
        }
        let bytes: Vec<u8> = (0..hex.len() / 2).map(|i| u8::from_str_radix(&hex[2 * i..2 * i + 2], 16).unwrap_or_else(|_| machinery(format!("bad input_bytes {}", hex)))).collect();
        let mut st = Stats::default();
        let a = run_lopdf_bytes(&text, &[bytes.clone()], &mut st);
        let b = run_lopdf_bytes(&text, &[bytes.clone()], &mut st);
        if a != b {
            machinery(format!("replay not deterministic: {:?} vs {:?}", a, b));
        }
        let failed = match a {
            Err(e) => {
                println!("observed: {}", e);
                println!("expected: the CMap is accepted");
                true
            }
            Ok(outs) => {
                let mapped_only = rc::segment(&defs, &bytes);
                println!("input bytes <{}>: observed: {}", hex, show(&outs[0]));
                match mapped_only.and_then(|inp| rc::expected_text(&defs, &inp)) {
                    Some(exp) => {
                        println!("input bytes <{}>: expected: {}", hex, show(&Ok(exp.clone())));
                        outs[0] != Ok(exp)
                    }
                    None => {
                        println!("input bytes <{}>: expected: the call returns (the bytes are not a string of mapped codes)", hex);
                        is_panic(&outs[0])
                    }
                }
            }
        };
        run.finish_replay(failed)
    }
    let inputs: Vec<Input> = match case["input"].as_array() {
        Some(a) => {
            let mut inp = vec![];
            for c in a {
                let s = c.as_str().unwrap_or("");
                inp.push(((s.len() / 2) as u8, u32::from_str_radix(s, 16).unwrap_or_else(|_| machinery(format!("bad code {}", s)))));
            }
            vec![inp]
        }
        None => inputs_for(&defs),
    };
    let mut st = Stats::default();
    let a = run_lopdf(&text, &inputs, &mut st);
    let b = run_lopdf(&text, &inputs, &mut st);
    if a != b {
        machinery(format!("replay not deterministic: {:?} vs {:?}", a, b));
    }
    let mut failed = false;
    match a {
        Err(e) => {
            println!("observed: {}", e);
            println!("expected: the CMap is accepted");
            failed = true;
        }
        Ok(outs) => {
            for (k, inp) in inputs.iter().enumerate() {
                let exp = rc::expected_text(&defs, inp).unwrap_or_else(|| machinery("input contains an unmapped code".into()));
                let verdict = agree(&defs, inp, &outs[k], &exp);
                let ok = verdict != Agree::No;
                if !ok || inputs.len() == 1 || verdict == Agree::Open {
                    println!("input {}: observed: {}", input_json(inp), show(&outs[k]));
                    println!("input {}: expected: {}", input_json(inp), show_expected(&defs, inp, &exp));
                    if verdict == Agree::Open {
                        println!("input {}: differs only in what an unpaired surrogate became: no verdict", input_json(inp));
                    }
                }
                failed |= !ok;
            }
        }
    }
    run.finish_replay(failed)
}
