//! C11 - editing operations keep the document sound (DESIGN §4 C11).
//! Explicit-state BFS over sequences of public editing operations on the real `Document`.
use lopdf::content::{Content, Operation};
use lopdf::{Bookmark, Dictionary, Document, Object, ObjectId, Stream};
use serde_json::{json, Value};
use std::collections::{BTreeMap, BTreeSet, HashSet, VecDeque};
use std::sync::Mutex;
use vharness::refpdf::{self, FileSpec, Section, Style};
use vharness::{cmp, rt, util, Mode, Run};

fn name(s: &str) -> Object {
    Object::Name(s.as_bytes().to_vec())
}
fn r(n: u32) -> Object {
    Object::Reference((n, 0))
}
fn dict(e: Vec<(&str, Object)>) -> Dictionary {
    let mut d = Dictionary::new();
    for (k, v) in e {
        d.set(k.as_bytes().to_vec(), v);
    }
    d
}
fn d(e: Vec<(&str, Object)>) -> Object {
    Object::Dictionary(dict(e))
}
fn arr(v: Vec<Object>) -> Object {
    Object::Array(v)
}
fn stream(e: Vec<(&str, Object)>, body: &[u8]) -> Object {
    Object::Stream(Stream::new(dict(e), body.to_vec()))
}

// ---------------------------------------------------------------------------------------------
// start documents

fn start_doc(k: usize) -> Document {
    let mut doc = Document::with_version("1.6");
    let mut o: BTreeMap<ObjectId, Object> = BTreeMap::new();
    let mut put = |n: u32, v: Object| {
        o.insert((n, 0), v);
    };
    match k {
        0 => {
            // one page with own resources
            put(1, d(vec![("Type", name("Catalog")), ("Pages", r(2))]));
            put(2, d(vec![("Type", name("Pages")), ("Kids", arr(vec![r(3)])), ("Count", Object::Integer(1))]));
            put(3, d(vec![("Type", name("Page")), ("Parent", r(2)), ("Contents", r(4)), ("Resources", r(5))]));
            put(4, stream(vec![], b"BT /F1 12 Tf (one) Tj ET"));
            put(5, d(vec![("Font", d(vec![("F1", r(6))]))]));
            put(6, d(vec![("Type", name("Font")), ("Subtype", name("Type1")), ("BaseFont", name("Helvetica"))]));
            put(7, d(vec![("Unreachable", Object::Boolean(true)), ("Ref", r(6))]));
            put(8, d(vec![("Title", Object::string_literal("info"))]));
            put(9, arr(vec![Object::Integer(9), r(8)]));
        }
        4 => {
            // sparse numbering (5, 9, 11 unused) with dangling references to a gap below the object count, to the number
            // that becomes the last-but-two one after compaction (11 objects; 11 itself is also dangling and is the LAST one), to a gap above it and to a number beyond max_id
            // "Stale" comes first: references with the number of a live object but another generation are met
            // before the genuine references to (4, 0) and (10, 0)
            put(1, d(vec![("Type", name("Catalog")), ("Stale", arr(vec![Object::Reference((4, 1)), Object::Reference((10, 7))])), ("Pages", r(2)), ("Gone", arr(vec![r(5), r(9), r(11), r(99)])),
                // one dictionary holding the same reference under two keys, the second one LAST (outline roots look like this)
                ("Pair", d(vec![("First", r(12)), ("Count", Object::Integer(1)), ("Last", r(12))])), ("Trio", d(vec![("A", r(6)), ("B", r(6)), ("C", r(6))]))]));
            put(2, d(vec![("Type", name("Pages")), ("Kids", arr(vec![r(4), r(3)])), ("Count", Object::Integer(2))]));
            put(3, d(vec![("Type", name("Page")), ("Parent", r(2)), ("Contents", r(6)), ("Resources", r(7))]));
            put(4, d(vec![("Type", name("Page")), ("Parent", r(2)), ("Contents", arr(vec![r(8)])), ("Resources", r(7)), ("Next", r(9))]));
            put(6, stream(vec![], b"BT /F1 12 Tf (a) Tj ET"));
            // resource categories behind references (ExtGState, XObject), one direct (Font)
            put(7, d(vec![("Font", d(vec![("F1", r(10))])), ("ExtGState", r(13)), ("XObject", r(14))]));
            put(13, d(vec![("GS0", d(vec![("Type", name("ExtGState")), ("CA", Object::Real(0.5))]))]));
            put(14, d(vec![("X9", r(6))]));
            put(8, stream(vec![("Missing", r(9))], b"BT /F1 12 Tf (b) Tj ET"));
            put(10, d(vec![("Type", name("Font")), ("Subtype", name("Type1")), ("BaseFont", name("Symbol"))]));
            put(12, d(vec![("Title", Object::string_literal("info")), ("Prev", r(11))]));
        }
        1 | 3 => {
            // two pages under an intermediate node with inherited resources, shared font
            put(1, d(vec![("Type", name("Catalog")), ("Pages", r(2))]));
            put(2, d(vec![("Type", name("Pages")), ("Kids", arr(vec![r(3)])), ("Count", Object::Integer(2)), ("Resources", r(8))]));
            // page order (5 then 4) deliberately differs from object-number order
            put(3, d(vec![("Type", name("Pages")), ("Parent", r(2)), ("Kids", arr(vec![r(5), r(4)])), ("Count", Object::Integer(2))]));
            put(4, d(vec![("Type", name("Page")), ("Parent", r(3)), ("Contents", r(6))]));
            put(5, d(vec![("Type", name("Page")), ("Parent", r(3)), ("Contents", arr(vec![r(7)]))]));
            put(6, stream(vec![], b"BT /F1 9 Tf (p1) Tj ET"));
            put(7, stream(vec![], b"BT /F1 9 Tf (p2) Tj ET"));
            put(8, d(vec![("Font", d(vec![("F1", r(9))])), ("XObject", d(vec![("X0", r(10))]))]));
            put(9, d(vec![("Type", name("Font")), ("Subtype", name("Type1")), ("BaseFont", name("Courier"))]));
            put(10, stream(vec![("Type", name("XObject")), ("Subtype", name("Form"))], b"q Q"));
            put(11, d(vec![("Title", Object::string_literal("info"))]));
            put(12, stream(vec![("Kind", name("Meta"))], b"<x/>"));
        }
        _ => {
            // annotations, a content array behind a reference, a content stream shared by two pages,
            // an array holding the same reference twice, a stream dictionary with a direct reference
            put(1, d(vec![("Type", name("Catalog")), ("Pages", r(2)), ("Twice", arr(vec![r(12), r(12), r(13)]))]));
            put(2, d(vec![("Type", name("Pages")), ("Kids", arr(vec![r(3), r(4), r(5)])), ("Count", Object::Integer(3))]));
            put(3, d(vec![("Type", name("Page")), ("Parent", r(2)), ("Contents", r(6)), ("Annots", arr(vec![r(9), r(10)])), ("Resources", d(vec![("Font", d(vec![("F1", r(11))]))]))]));
            put(4, d(vec![("Type", name("Page")), ("Parent", r(2)), ("Contents", r(7)), ("Annots", arr(vec![r(10)]))]));
            put(5, d(vec![("Type", name("Page")), ("Parent", r(2)), ("Contents", r(7)), ("Annots", arr(vec![]))]));
            put(6, arr(vec![r(8), r(7)]));
            put(7, stream(vec![], b"(shared) Tj"));
            put(8, stream(vec![("Link", r(12))], b"(first) Tj"));
            put(9, d(vec![("Type", name("Annot")), ("Subtype", name("Text")), ("P", r(3))]));
            put(10, d(vec![("Type", name("Annot")), ("Subtype", name("Link")), ("Dest", arr(vec![r(4), name("Fit")]))]));
            put(11, d(vec![("Type", name("Font")), ("Subtype", name("Type1")), ("BaseFont", name("Times"))]));
            put(12, d(vec![("Shared", Object::Integer(12))]));
            put(13, stream(vec![], b""));
            put(14, d(vec![("Title", Object::string_literal("info"))]));
        }
    }
    doc.objects = o;
    doc.max_id = doc.objects.keys().map(|x| x.0).max().unwrap();
    doc.trailer.set("Root", r(1));
    if k == 0 {
        doc.trailer.set("Info", r(8));
        if let Some(Object::Dictionary(c)) = doc.objects.get_mut(&(1, 0)) {
            c.set("Meta", r(9));
        }
    }
    if k == 1 || k == 3 {
        doc.trailer.set("Info", r(11));
        if let Some(Object::Dictionary(c)) = doc.objects.get_mut(&(1, 0)) {
            c.set("Meta", r(12));
        }
    }
    if k == 4 {
        doc.trailer.set("Info", r(12));
        doc.trailer.set("Lost", r(9));
    }
    if k == 2 {
        doc.trailer.set("Info", r(14));
        doc.trailer.set("Direct", arr(vec![r(12)]));
    }
    if k == 3 {
        // the same document written by the reference writer with object streams, then loaded
        let spec = FileSpec {
            version: "1.6".into(),
            mark: vec![0xe2, 0xe3, 0xcf, 0xd3],
            style: Style::Stream,
            sections: vec![Section { objects: doc.objects.clone(), trailer: doc.trailer.clone(), objstm: Some(1), omit_xref: vec![], extra_members: vec![] }],
            helper_base: None,
        };
        let (bytes, _) = refpdf::write(&spec, &mut vharness::choose::Chooser::new());
        return util::load(&bytes).expect("start document 3 loads");
    }
    doc
}

// ---------------------------------------------------------------------------------------------
// harness-side graph functions (independent of lopdf's traversal code)

fn refs_in(o: &Object, out: &mut Vec<ObjectId>) {
    match o {
        Object::Reference(id) => out.push(*id),
        Object::Array(a) => a.iter().for_each(|x| refs_in(x, out)),
        Object::Dictionary(dd) => dd.iter().for_each(|(_, v)| refs_in(v, out)),
        Object::Stream(s) => s.dict.iter().for_each(|(_, v)| refs_in(v, out)),
        _ => {}
    }
}

fn reachable(doc: &Document) -> BTreeSet<ObjectId> {
    let mut seen = BTreeSet::new();
    let mut q: VecDeque<ObjectId> = VecDeque::new();
    let mut first = vec![];
    refs_in(&Object::Dictionary(doc.trailer.clone()), &mut first);
    q.extend(first);
    while let Some(id) = q.pop_front() {
        if !seen.insert(id) {
            continue;
        }
        if let Some(o) = doc.objects.get(&id) {
            let mut v = vec![];
            refs_in(o, &mut v);
            q.extend(v);
        }
    }
    seen
}

fn deref<'a>(doc: &'a Document, mut o: &'a Object) -> Option<&'a Object> {
    for _ in 0..32 {
        match o {
            Object::Reference(id) => o = doc.objects.get(id)?,
            other => return Some(other),
        }
    }
    None
}

fn as_dict<'a>(o: &'a Object) -> Option<&'a Dictionary> {
    match o {
        Object::Dictionary(dd) => Some(dd),
        Object::Stream(s) => Some(&s.dict),
        _ => None,
    }
}

/// leaf pages in depth-first order (harness's own walk)
fn pages_of(doc: &Document) -> Vec<ObjectId> {
    fn walk(doc: &Document, id: ObjectId, out: &mut Vec<ObjectId>, depth: usize, seen: &mut HashSet<ObjectId>) {
        if depth > 64 || !seen.insert(id) {
            return;
        }
        let Some(dd) = doc.objects.get(&id).and_then(as_dict) else { return };
        match dd.get(b"Type").and_then(Object::as_name).ok() {
            Some(b"Page") => out.push(id),
            Some(b"Pages") => {
                if let Some(Object::Array(kids)) = dd.get(b"Kids").ok().and_then(|k| deref(doc, k)) {
                    for k in kids {
                        if let Object::Reference(kid) = k {
                            walk(doc, *kid, out, depth + 1, seen);
                        }
                    }
                }
            }
            _ => {}
        }
    }
    let mut out = vec![];
    let root = doc.trailer.get(b"Root").ok().and_then(|x| deref(doc, x)).and_then(as_dict);
    if let Some(Object::Reference(p)) = root.and_then(|c| c.get(b"Pages").ok()) {
        walk(doc, *p, &mut out, 0, &mut HashSet::new());
    }
    out
}

/// I5: Count of every reachable Pages node equals the number of its leaf Page descendants
fn check_counts(doc: &Document) -> Option<String> {
    fn leaves(doc: &Document, id: ObjectId, depth: usize) -> i64 {
        if depth > 64 {
            return 0;
        }
        let Some(dd) = doc.objects.get(&id).and_then(as_dict) else { return 0 };
        match dd.get(b"Type").and_then(Object::as_name).ok() {
            Some(b"Page") => 1,
            Some(b"Pages") => match dd.get(b"Kids").ok().and_then(|k| deref(doc, k)) {
                Some(Object::Array(kids)) => kids.iter().map(|k| if let Object::Reference(kid) = k { leaves(doc, *kid, depth + 1) } else { 0 }).sum(),
                _ => 0,
            },
            _ => 0,
        }
    }
    for id in reachable(doc) {
        if let Some(dd) = doc.objects.get(&id).and_then(as_dict) {
            if dd.get(b"Type").and_then(Object::as_name).ok() == Some(b"Pages") {
                let n = leaves(doc, id, 0);
                match dd.get(b"Count").ok().and_then(|c| deref(doc, c)) {
                    Some(Object::Integer(c)) if *c == n => {}
                    other => return Some(format!("Pages node {} {}: Count {:?} but {} leaf pages", id.0, id.1, other.map(vharness::objjson::show), n)),
                }
            }
        }
    }
    None
}

/// content stream ids of a page, resolved by the harness
fn content_ids(doc: &Document, page: ObjectId) -> Vec<ObjectId> {
    let Some(dd) = doc.objects.get(&page).and_then(as_dict) else { return vec![] };
    let Ok(c) = dd.get(b"Contents") else { return vec![] };
    let mut out = vec![];
    match c {
        Object::Reference(id) => match doc.objects.get(id).and_then(|o| deref(doc, o)) {
            Some(Object::Array(a)) => a.iter().for_each(|x| {
                if let Object::Reference(i) = x {
                    out.push(*i)
                }
            }),
            _ => {
                // reference (chain) to a stream
                let mut cur = *id;
                for _ in 0..32 {
                    match doc.objects.get(&cur) {
                        Some(Object::Reference(n)) => cur = *n,
                        _ => break,
                    }
                }
                out.push(cur);
            }
        },
        Object::Array(a) => a.iter().for_each(|x| {
            if let Object::Reference(i) = x {
                out.push(*i)
            }
        }),
        _ => {}
    }
    out
}

fn plain(doc: &Document, id: ObjectId) -> Option<Vec<u8>> {
    match doc.objects.get(&id) {
        Some(Object::Stream(s)) => s.get_plain_content().ok(),
        _ => None,
    }
}

/// effective (category, name) resource pairs: the nearest Resources dictionary up the Parent chain
fn effective_resources(doc: &Document, page: ObjectId) -> BTreeSet<(Vec<u8>, Vec<u8>)> {
    let mut cur = page;
    for _ in 0..64 {
        let Some(dd) = doc.objects.get(&cur).and_then(as_dict) else { break };
        if let Ok(res) = dd.get(b"Resources") {
            let mut out = BTreeSet::new();
            if let Some(rd) = deref(doc, res).and_then(as_dict) {
                for (cat, v) in rd.iter() {
                    if let Some(cd) = deref(doc, v).and_then(as_dict) {
                        for (n, _) in cd.iter() {
                            out.insert((cat.clone(), n.clone()));
                        }
                    }
                }
            }
            return out;
        }
        match dd.get(b"Parent") {
            Ok(Object::Reference(p)) => cur = *p,
            _ => break,
        }
    }
    BTreeSet::new()
}

/// lock-step walk of two documents from their trailers: Some(message) unless `after` equals
/// `before` with references renamed by a one-to-one map (dangling stays dangling)
fn isomorphic(before: &Document, after: &Document) -> Result<BTreeMap<ObjectId, ObjectId>, String> {
    let mut rho: BTreeMap<ObjectId, ObjectId> = BTreeMap::new();
    let mut inv: BTreeMap<ObjectId, ObjectId> = BTreeMap::new();
    let mut queue: VecDeque<(ObjectId, ObjectId)> = VecDeque::new();
    fn cmp_obj(
        a: &Object, b: &Object, path: &str, rho: &mut BTreeMap<ObjectId, ObjectId>, inv: &mut BTreeMap<ObjectId, ObjectId>, queue: &mut VecDeque<(ObjectId, ObjectId)>,
    ) -> Result<(), String> {
        match (a, b) {
            // a reference that resolved to nothing may come back as null (ISO 32000-1 7.3.10);
            // whether it really was dangling is checked by the caller through `nulled`
            (Object::Reference(x), Object::Null) => {
                rho.entry(*x).or_insert((0, 65535));
                Ok(())
            }
            (Object::Reference(x), Object::Reference(y)) => {
                match rho.get(x) {
                    Some(z) if z == y => {}
                    Some(z) => return Err(format!("{}: reference {:?} maps to both {:?} and {:?}", path, x, z, y)),
                    None => {
                        if let Some(w) = inv.get(y) {
                            return Err(format!("{}: references {:?} and {:?} both map to {:?}", path, w, x, y));
                        }
                        rho.insert(*x, *y);
                        inv.insert(*y, *x);
                        queue.push_back((*x, *y));
                    }
                }
                Ok(())
            }
            (Object::Array(x), Object::Array(y)) => {
                if x.len() != y.len() {
                    return Err(format!("{}: array length {} vs {}", path, x.len(), y.len()));
                }
                for (i, (p, q)) in x.iter().zip(y).enumerate() {
                    cmp_obj(p, q, &format!("{}[{}]", path, i), rho, inv, queue)?;
                }
                Ok(())
            }
            (Object::Dictionary(x), Object::Dictionary(y)) => cmp_dict(x, y, path, rho, inv, queue),
            (Object::Stream(x), Object::Stream(y)) => {
                cmp_dict(&x.dict, &y.dict, path, rho, inv, queue)?;
                if x.content != y.content {
                    return Err(format!("{}: stream content differs", path));
                }
                Ok(())
            }
            _ => match cmp::diff_obj(a, b, path) {
                None => Ok(()),
                Some(m) => Err(m),
            },
        }
    }
    fn cmp_dict(
        x: &Dictionary, y: &Dictionary, path: &str, rho: &mut BTreeMap<ObjectId, ObjectId>, inv: &mut BTreeMap<ObjectId, ObjectId>, queue: &mut VecDeque<(ObjectId, ObjectId)>,
    ) -> Result<(), String> {
        if x.len() != y.len() {
            return Err(format!("{}: dictionary sizes differ", path));
        }
        for (k, v) in x.iter() {
            match y.get(k) {
                Ok(w) => cmp_obj(v, w, &format!("{}/{}", path, String::from_utf8_lossy(k)), rho, inv, queue)?,
                Err(_) => return Err(format!("{}: key {} missing", path, String::from_utf8_lossy(k))),
            }
        }
        Ok(())
    }
    let ignore = cmp::XREF_BOOKKEEPING;
    let mut ta = before.trailer.clone();
    let mut tb = after.trailer.clone();
    for k in ignore {
        ta.remove(k);
        tb.remove(k);
    }
    cmp_dict(&ta, &tb, "trailer", &mut rho, &mut inv, &mut queue)?;
    while let Some((x, y)) = queue.pop_front() {
        match (before.objects.get(&x), after.objects.get(&y)) {
            (None, None) => {}
            (Some(a), Some(b)) => cmp_obj(a, b, &format!("obj{:?}->{:?}", x, y), &mut rho, &mut inv, &mut queue)?,
            (None, Some(_)) => return Err(format!("dangling reference {:?} resolves to object {:?} afterwards", x, y)),
            (Some(_), None) => return Err(format!("object {:?} (renamed {:?}) is missing afterwards", x, y)),
        }
    }
    // references that became null must have been dangling
    let nulled: Vec<ObjectId> = rho.iter().filter(|(_, v)| **v == (0, 65535)).map(|(k, _)| *k).collect();
    for x in nulled {
        if before.objects.contains_key(&x) {
            return Err(format!("reference to existing object {:?} became null", x));
        }
        rho.remove(&x);
    }
    Ok(rho)
}

// ---------------------------------------------------------------------------------------------
// operations

#[derive(Debug, Clone, PartialEq)]
enum Op {
    NewId,
    Add(u8),
    Set(u8, u8),
    Delete(u8),
    RemoveAnnot(u8),
    Prune,
    DeletePages(Vec<u32>),
    Renumber,
    RenumberWith(u32),
    Compress,
    Decompress,
    AddContents(u8, u8),
    ChangeContent(u8, u8),
    AddToContent(u8),
    AddXObject(u8),
    AddGState(u8),
    Outline(u8),
    DeleteZeroLength,
    SaveReload(bool),
    /// delete_object on an id that new_object_id handed out and that holds no object
    DeleteReserved,
}

fn alphabet() -> Vec<Op> {
    let mut v = vec![Op::NewId, Op::Add(0), Op::Add(1), Op::Set(0, 0), Op::Set(1, 1), Op::Set(0, 2), Op::DeleteReserved];
    for i in 0..4 {
        v.push(Op::Delete(i));
    }
    v.push(Op::RemoveAnnot(0));
    v.push(Op::RemoveAnnot(1));
    v.push(Op::Prune);
    v.push(Op::DeletePages(vec![1]));
    v.push(Op::DeletePages(vec![2]));
    v.push(Op::DeletePages(vec![1, 2]));
    // unusual but legal argument lists: a repeated number, unsorted, a number that does not exist
    v.push(Op::DeletePages(vec![2, 2]));
    v.push(Op::DeletePages(vec![2, 1, 2]));
    v.push(Op::DeletePages(vec![7, 1]));
    v.push(Op::Renumber);
    v.push(Op::RenumberWith(5));
    v.push(Op::Compress);
    v.push(Op::Decompress);
    for p in 0..2 {
        v.push(Op::AddContents(p, 0));
        v.push(Op::ChangeContent(p, 1));
        v.push(Op::AddXObject(p));
        v.push(Op::AddGState(p));
    }
    v.push(Op::ChangeContent(0, 3));
    v.push(Op::AddContents(1, 3));
    v.push(Op::AddToContent(0));
    v.push(Op::AddContents(1, 2));
    v.push(Op::Outline(1));
    v.push(Op::Outline(2));
    v.push(Op::DeleteZeroLength);
    v.push(Op::SaveReload(true));
    v.push(Op::SaveReload(false));
    v
}

fn op_json(o: &Op) -> Value {
    json!(format!("{:?}", o))
}

fn op_from(s: &str) -> Op {
    alphabet().into_iter().find(|o| format!("{:?}", o) == s).unwrap_or_else(|| {
        eprintln!("MACHINERY: unknown op {}", s);
        std::process::exit(3)
    })
}

/// the abstract model carried next to the real document
#[derive(Clone, Debug, Default)]
struct Model {
    /// ids handed out by new_object_id and not used yet
    handed_out: BTreeSet<ObjectId>,
    /// per live page (in page order): plain content pieces
    content: Vec<Vec<Vec<u8>>>,
    counter: u32,
}

fn payload(kind: u8, counter: u32) -> Vec<u8> {
    match kind {
        0 => format!("BT ({}) Tj ET", counter).into_bytes(),
        1 => format!("q {} 0 0 1 0 0 cm Q % a longer replacement content {} that can be compressed well: aaaaaaaaaaaaaaaaaaaaaaaaaaaaaaaaaaaaaaaaaaaaaaaaaaaaaaaaaaaaaaaaaaaaaaaaaaaa", counter, counter).into_bytes(),
        // several KiB of one repeated operator: deflates far better than 100:1
        // (kept to 6 KB: every state of the search holds its own copy of the document)
        3 => format!("% {}\n{}", counter, "q Q\n".repeat(1500)).into_bytes(),
        _ => vec![],
    }
}

fn model_of(doc: &Document) -> Model {
    let mut m = Model::default();
    for p in pages_of(doc) {
        m.content.push(content_ids(doc, p).iter().filter_map(|i| plain(doc, *i)).collect());
    }
    m
}

/// candidates for delete_object: reachable objects that are not page-tree nodes nor the catalog
fn deletable(doc: &Document) -> Vec<ObjectId> {
    let mut v = vec![];
    let root = match doc.trailer.get(b"Root") {
        Ok(Object::Reference(x)) => Some(*x),
        _ => None,
    };
    for id in reachable(doc) {
        if Some(id) == root {
            continue;
        }
        if let Some(o) = doc.objects.get(&id) {
            let t = as_dict(o).and_then(|dd| dd.get(b"Type").and_then(Object::as_name).ok());
            if t == Some(b"Page") || t == Some(b"Pages") || t == Some(b"Catalog") {
                continue;
            }
            v.push(id);
        }
    }
    v
}

/// candidates for set_object: reachable objects outside the page tree's closure (replacing a
/// content stream or a resource dictionary by an unrelated value makes the document ill-formed,
/// after which "what the content edits imply" is no longer defined)
fn settable(doc: &Document) -> Vec<ObjectId> {
    let mut in_pages: BTreeSet<ObjectId> = BTreeSet::new();
    let root = doc.trailer.get(b"Root").ok().and_then(|x| deref(doc, x)).and_then(as_dict);
    if let Some(Object::Reference(p)) = root.and_then(|c| c.get(b"Pages").ok()) {
        let mut q = VecDeque::from(vec![*p]);
        while let Some(id) = q.pop_front() {
            if !in_pages.insert(id) {
                continue;
            }
            if let Some(o) = doc.objects.get(&id) {
                let mut v = vec![];
                refs_in(o, &mut v);
                q.extend(v);
            }
        }
    }
    deletable(doc).into_iter().filter(|id| !in_pages.contains(id)).collect()
}

fn annots(doc: &Document) -> Vec<ObjectId> {
    let mut v = vec![];
    for (id, o) in &doc.objects {
        if as_dict(o).and_then(|dd| dd.get(b"Type").and_then(Object::as_name).ok()) == Some(b"Annot") {
            v.push(*id);
        }
    }
    v
}

/// expected version of an object after references to `gone` were removed
fn strip_refs(o: &Object, gone: &BTreeSet<ObjectId>) -> Object {
    match o {
        Object::Array(a) => Object::Array(a.iter().filter(|x| !matches!(x, Object::Reference(i) if gone.contains(i))).map(|x| strip_refs(x, gone)).collect()),
        Object::Dictionary(dd) => {
            let mut n = Dictionary::new();
            for (k, v) in dd.iter() {
                if !matches!(v, Object::Reference(i) if gone.contains(i)) {
                    n.set(k.clone(), strip_refs(v, gone));
                }
            }
            Object::Dictionary(n)
        }
        Object::Stream(s) => {
            let mut n = Dictionary::new();
            for (k, v) in s.dict.iter() {
                if !matches!(v, Object::Reference(i) if gone.contains(i)) {
                    n.set(k.clone(), strip_refs(v, gone));
                }
            }
            let mut st = s.clone();
            st.dict = n;
            Object::Stream(st)
        }
        other => other.clone(),
    }
}

fn has_ref(o: &Object, id: ObjectId) -> bool {
    let mut v = vec![];
    refs_in(o, &mut v);
    v.contains(&id)
}

/// (finding id, message)
type Fail = (Option<&'static str>, String);

/// objects reachable before must be present and equal afterwards, outside `footprint`
fn unchanged_except(before: &Document, after: &Document, footprint: &BTreeSet<ObjectId>, ignore_count: bool) -> Option<String> {
    for id in reachable(before) {
        if footprint.contains(&id) {
            continue;
        }
        match (before.objects.get(&id), after.objects.get(&id)) {
            (None, _) => {}
            (Some(_), None) => return Some(format!("object {} {} (reachable before) is gone", id.0, id.1)),
            (Some(a), Some(b)) => {
                let (a2, b2) = if ignore_count { (drop_count(a), drop_count(b)) } else { (a.clone(), b.clone()) };
                if let Some(m) = cmp::diff_obj(&a2, &b2, &format!("obj({} {})", id.0, id.1)) {
                    return Some(format!("object altered: {}", m));
                }
            }
        }
    }
    None
}

fn drop_count(o: &Object) -> Object {
    if let Object::Dictionary(dd) = o {
        if dd.get(b"Type").and_then(Object::as_name).ok() == Some(b"Pages") {
            let mut n = dd.clone();
            n.remove(b"Count");
            return Object::Dictionary(n);
        }
    }
    o.clone()
}

/// Apply `op` to (doc, model); Err = invariant violated.
fn step(doc: &mut Document, m: &mut Model, op: &Op) -> Result<(), Fail> {
    let before = doc.clone();
    let pages = pages_of(&before);
    m.counter += 1;
    let c = m.counter;
    let keys: BTreeSet<ObjectId> = before.objects.keys().cloned().collect();
    let fresh = |id: ObjectId, m: &Model| -> Result<(), Fail> {
        if keys.contains(&id) {
            return Err((None, format!("newly allocated id {:?} collides with an existing object", id)));
        }
        if m.handed_out.contains(&id) {
            return Err((None, format!("id {:?} was handed out twice", id)));
        }
        Ok(())
    };
    let guard = |r: Result<(), String>| -> Result<(), Fail> { r.map_err(|p| (None, format!("operation panicked: {}", p))) };
    let nothing: BTreeSet<ObjectId> = BTreeSet::new();
    match op {
        Op::NewId => {
            let id = util::guard(|| doc.new_object_id()).map_err(|p| (None, p))?;
            fresh(id, m)?;
            m.handed_out.insert(id);
            if let Some(x) = unchanged_except(&before, doc, &nothing, false) {
                return Err((None, x));
            }
        }
        Op::Add(k) => {
            let o = match k {
                0 => d(vec![("Added", Object::Integer(c as i64))]),
                _ => stream(vec![("Added", Object::Integer(c as i64))], &payload(1, c)),
            };
            let id = util::guard(|| doc.add_object(o.clone())).map_err(|p| (None, p))?;
            fresh(id, m)?;
            if doc.objects.get(&id) != Some(&o) {
                return Err((None, "add_object did not store the object".into()));
            }
            if let Some(x) = unchanged_except(&before, doc, &nothing, false) {
                return Err((None, x));
            }
        }
        Op::Set(i, k) => {
            let cand = settable(&before);
            let Some(id) = cand.get(*i as usize).cloned() else { return Ok(()) };
            let o = match k {
                0 => d(vec![("Replaced", Object::Integer(c as i64))]),
                1 => arr(vec![Object::Integer(c as i64)]),
                _ => {
                    // a reachable object that refers to an id handed out by new_object_id (no object yet)
                    let Some(reserved) = m.handed_out.iter().next().cloned() else { return Ok(()) };
                    d(vec![("Replaced", Object::Integer(c as i64)), ("Reserved", Object::Reference(reserved)), ("Twice", arr(vec![Object::Reference(reserved), Object::Reference(reserved)]))])
                }
            };
            guard(util::guard(|| doc.set_object(id, o.clone())))?;
            let fp: BTreeSet<ObjectId> = [id].into_iter().collect();
            if let Some(x) = unchanged_except(&before, doc, &fp, false) {
                return Err((None, x));
            }
            *m = Model { handed_out: m.handed_out.clone(), counter: m.counter, ..model_of(doc) };
        }
        Op::Delete(i) => {
            let cand = deletable(&before);
            let Some(id) = cand.get(*i as usize).cloned() else { return Ok(()) };
            guard(util::guard(|| doc.delete_object(id)).map(|_| ()))?;
            check_deleted(&before, doc, &[id].into_iter().collect())?;
            *m = Model { handed_out: m.handed_out.clone(), counter: m.counter, ..model_after_delete(&before, m, &[id]) };
        }
        Op::DeleteReserved => {
            let Some(id) = m.handed_out.iter().next().cloned() else { return Ok(()) };
            guard(util::guard(|| doc.delete_object(id)).map(|_| ()))?;
            check_deleted(&before, doc, &[id].into_iter().collect())?;
            m.handed_out.remove(&id);
        }
        Op::RemoveAnnot(i) => {
            let a = annots(&before);
            let Some(id) = a.get(*i as usize).cloned() else { return Ok(()) };
            let _ = util::guard(|| doc.remove_object(&id)).map_err(|p| (None, p))?;
            // only Annots arrays of pages may change, and only by losing the reference
            let fp: BTreeSet<ObjectId> = pages.iter().cloned().collect();
            if let Some(x) = unchanged_except(&before, doc, &fp, false) {
                return Err((None, x));
            }
            for p in &pages {
                let (Some(Object::Dictionary(a0)), Some(Object::Dictionary(a1))) = (before.objects.get(p), doc.objects.get(p)) else {
                    return Err((None, "page object vanished".into()));
                };
                let mut e = a0.clone();
                if let Ok(Object::Array(an)) = a0.get(b"Annots") {
                    let left: Vec<Object> = an.iter().filter(|x| **x != Object::Reference(id)).cloned().collect();
                    if a1.get(b"Annots").ok() != Some(&Object::Array(left.clone())) && a1.get(b"Annots").ok() != a0.get(b"Annots").ok() {
                        return Err((None, format!("page {:?}: Annots changed in an unexpected way", p)));
                    }
                    e.set("Annots", a1.get(b"Annots").cloned().unwrap_or(Object::Null));
                }
                if cmp::diff_dict(&e, a1, "page", &[]).is_some() {
                    return Err((None, format!("remove_object altered page {:?} outside its Annots", p)));
                }
            }
        }
        Op::Prune => {
            let expect: BTreeSet<ObjectId> = keys.difference(&reachable(&before)).cloned().collect();
            let got: BTreeSet<ObjectId> = util::guard(|| doc.prune_objects()).map_err(|p| (None, p))?.into_iter().collect();
            if got != expect {
                return Err((None, format!("prune_objects returned {:?}, unreachable objects are {:?}", got, expect)));
            }
            let left: BTreeSet<ObjectId> = doc.objects.keys().cloned().collect();
            let want: BTreeSet<ObjectId> = keys.difference(&expect).cloned().collect();
            if left != want {
                return Err((None, format!("after prune objects are {:?}, expected {:?}", left, want)));
            }
            if let Some(x) = unchanged_except(&before, doc, &nothing, false) {
                return Err((None, x));
            }
        }
        Op::DeletePages(ns) => {
            guard(util::guard(|| doc.delete_pages(ns)))?;
            let gone: Vec<ObjectId> = ns.iter().filter_map(|n| pages.get(*n as usize - 1).cloned()).collect();
            check_deleted_ignoring_count(&before, doc, &gone.iter().cloned().collect())?;
            let keep: Vec<usize> = (0..pages.len()).filter(|i| !ns.contains(&(*i as u32 + 1))).collect();
            m.content = keep.iter().filter_map(|i| m.content.get(*i).cloned()).collect();
            let now = pages_of(doc);
            let want: Vec<ObjectId> = keep.iter().map(|i| pages[*i]).collect();
            if now != want {
                return Err((None, format!("pages after delete_pages({:?}) are {:?}, expected {:?}", ns, now, want)));
            }
        }
        Op::Renumber | Op::RenumberWith(_) => {
            match op {
                Op::Renumber => guard(util::guard(|| doc.renumber_objects()))?,
                Op::RenumberWith(s) => guard(util::guard(|| doc.renumber_objects_with(*s)))?,
                _ => {}
            }
            match isomorphic(&before, doc) {
                Ok(rho) => {
                    // ids handed out but unused are meaningless after renumbering
                    m.handed_out.clear();
                    let old_pages: Vec<ObjectId> = pages.iter().map(|p| *rho.get(p).unwrap_or(p)).collect();
                    if pages_of(doc) != old_pages {
                        return Err((None, "page order changed under renumbering".into()));
                    }
                }
                Err(e) => {
                    let f = if e.contains("dangling reference") { Some("dangling-ref-collision") } else { None };
                    return Err((f, format!("renumbering is not a pure renaming: {}", e)));
                }
            }
            if doc.objects.keys().any(|k| k.0 > doc.max_id) {
                return Err((None, "max_id below an existing object number after renumbering".into()));
            }
        }
        Op::Compress | Op::Decompress => {
            if *op == Op::Compress {
                guard(util::guard(|| doc.compress()))?;
            } else {
                guard(util::guard(|| doc.decompress()))?;
            }
            for id in reachable(&before) {
                match (before.objects.get(&id), doc.objects.get(&id)) {
                    (Some(Object::Stream(a)), Some(Object::Stream(b))) => {
                        if a.get_plain_content().ok() != b.get_plain_content().ok() {
                            return Err((None, format!("stream {:?}: plain content changed under {:?}", id, op)));
                        }
                        if b.dict.get(b"Length").ok() != Some(&Object::Integer(b.content.len() as i64)) {
                            return Err((None, format!("stream {:?}: Length entry != content length after {:?}", id, op)));
                        }
                        let strip = |s: &Stream| {
                            let mut dd = s.dict.clone();
                            for k in [&b"Filter"[..], b"DecodeParms", b"Length"] {
                                dd.remove(k);
                            }
                            dd
                        };
                        if cmp::diff_dict(&strip(a), &strip(b), "dict", &[]).is_some() {
                            return Err((None, format!("stream {:?}: dictionary changed beyond Filter/DecodeParms/Length", id)));
                        }
                    }
                    (Some(a), Some(b)) => {
                        if cmp::diff_obj(a, b, "o").is_some() {
                            return Err((None, format!("object {:?} altered by {:?}", id, op)));
                        }
                    }
                    (Some(_), None) => return Err((None, format!("object {:?} removed by {:?}", id, op))),
                    _ => {}
                }
            }
        }
        Op::AddContents(p, k) | Op::ChangeContent(p, k) => {
            let Some(page) = pages.get(*p as usize).cloned() else { return Ok(()) };
            let body = payload(*k, c);
            let is_add = matches!(op, Op::AddContents(..));
            let res = if is_add { util::guard(|| doc.add_page_contents(page, body.clone())) } else { util::guard(|| doc.change_page_content(page, body.clone())) };
            let res = res.map_err(|pn| (None, pn))?;
            if res.is_err() {
                // an error is acceptable only if nothing changed
                if let Some(x) = unchanged_except(&before, doc, &nothing, false) {
                    return Err((None, format!("operation returned Err but {}", x)));
                }
                return Ok(());
            }
            let mut fp: BTreeSet<ObjectId> = [page].into_iter().collect();
            if !is_add {
                fp.extend(content_ids(&before, page));
            }
            if let Some(x) = unchanged_except(&before, doc, &fp, false) {
                return Err((None, x));
            }
            if let Some(pc) = m.content.get_mut(*p as usize) {
                if is_add {
                    pc.push(body);
                } else {
                    *pc = vec![body];
                }
            }
            for id in doc.objects.keys() {
                if !keys.contains(id) {
                    fresh(*id, m)?;
                }
            }
        }
        Op::AddToContent(p) => {
            let Some(page) = pages.get(*p as usize).cloned() else { return Ok(()) };
            let content = Content { operations: vec![Operation::new("q", vec![]), Operation::new("Tj", vec![Object::string_literal(format!("t{}", c))]), Operation::new("Q", vec![])] };
            let bytes = content.encode().unwrap();
            let _ = util::guard(|| doc.add_to_page_content(page, content)).map_err(|pn| (None, pn))?;
            let fp: BTreeSet<ObjectId> = [page].into_iter().collect();
            if let Some(x) = unchanged_except(&before, doc, &fp, false) {
                return Err((None, x));
            }
            if let Some(pc) = m.content.get_mut(*p as usize) {
                pc.push(bytes);
            }
        }
        Op::AddXObject(p) | Op::AddGState(p) => {
            let Some(page) = pages.get(*p as usize).cloned() else { return Ok(()) };
            let target = before.objects.keys().next().cloned().unwrap_or((1, 0));
            let had = effective_resources(&before, page);
            let nm = format!("N{}", c);
            let is_x = matches!(op, Op::AddXObject(_));
            let res = if is_x {
                util::guard(|| doc.add_xobject(page, nm.as_bytes().to_vec(), target))
            } else {
                util::guard(|| doc.add_graphics_state(page, nm.as_bytes().to_vec(), target))
            };
            let _ = res.map_err(|pn| (None, pn))?;
            let now = effective_resources(doc, page);
            let lost: Vec<String> = had.difference(&now).map(|(cc, n)| format!("/{}/{}", String::from_utf8_lossy(cc), String::from_utf8_lossy(n))).collect();
            if !lost.is_empty() {
                let inherited = !before.objects.get(&page).and_then(as_dict).map(|dd| dd.has(b"Resources")).unwrap_or(false);
                return Err((if inherited { Some("resources-shadow-inherited") } else { None }, format!("page {:?} lost usable resources {:?} after {:?}", page, lost, op)));
            }
            let cat: &[u8] = if is_x { b"XObject" } else { b"ExtGState" };
            if !now.contains(&(cat.to_vec(), nm.as_bytes().to_vec())) {
                // not demanded by the statement (e.g. the page's Resources is not a dictionary)
                let _ = cat;
            }
            // other pages keep what they could use
            for q in &pages {
                let a = effective_resources(&before, *q);
                let b = effective_resources(doc, *q);
                if !a.is_subset(&b) {
                    return Err((None, format!("page {:?} lost resources when a resource was added to page {:?}", q, page)));
                }
            }
        }
        Op::Outline(n) => {
            for i in 0..*n {
                let pg = pages.get(i as usize % pages.len().max(1)).cloned().unwrap_or((0, 0));
                let parent = if i == 1 { Some(doc.max_bookmark_id) } else { None };
                doc.add_bookmark(Bookmark::new(format!("B{}-{}", c, i), [0.0, 0.0, 0.0], 0, pg), parent);
            }
            let root = util::guard(|| doc.build_outline()).map_err(|pn| (None, pn))?;
            for id in doc.objects.keys() {
                if !keys.contains(id) {
                    fresh(*id, m)?;
                    if id.0 > doc.max_id {
                        return Err((None, format!("build_outline created object {:?} above max_id {}", id, doc.max_id)));
                    }
                }
            }
            if let Some(x) = unchanged_except(&before, doc, &nothing, false) {
                return Err((None, x));
            }
            if let (Some(root), Ok(cat)) = (root, doc.catalog_mut()) {
                cat.set("Outlines", Object::Reference(root));
            }
            doc.bookmarks.clear();
            doc.bookmark_table.clear();
        }
        Op::DeleteZeroLength => {
            let zero: Vec<ObjectId> = before.objects.iter().filter(|(_, o)| matches!(o, Object::Stream(s) if s.content.is_empty())).map(|(i, _)| *i).collect();
            let got = util::guard(|| doc.delete_zero_length_streams()).map_err(|pn| (None, pn))?;
            if got.iter().cloned().collect::<BTreeSet<_>>() != zero.iter().cloned().collect::<BTreeSet<_>>() {
                return Err((None, format!("delete_zero_length_streams returned {:?}, zero-length streams are {:?}", got, zero)));
            }
            check_deleted(&before, doc, &zero.iter().cloned().collect())?;
            *m = Model { handed_out: m.handed_out.clone(), counter: m.counter, ..model_after_delete(&before, m, &zero) };
        }
        Op::SaveReload(table) => {
            let bytes = util::save_bytes(doc, *table).map_err(|e| (None, format!("save failed: {}", e)))?;
            let view = rt::strict_reader(&bytes, doc).map_err(|e| (None, format!("strict reader rejects the saved file: {}", e)))?;
            let _ = view;
            let loaded = util::load(&bytes).map_err(|e| (None, format!("reload failed: {}", e)))?;
            if let Some(x) = cmp::diff_docs(doc, &loaded) {
                return Err((None, format!("reloaded document differs: {}", x)));
            }
            *doc = loaded;
            m.handed_out.clear();
        }
    }
    // invariants evaluated in every state
    if let Some(x) = check_counts(doc) {
        return Err((None, x));
    }
    let now_pages = pages_of(doc);
    if now_pages.len() != m.content.len() {
        return Err((None, format!("model has {} pages, document has {}", m.content.len(), now_pages.len())));
    }
    for (i, p) in now_pages.iter().enumerate() {
        let want: Vec<u8> = m.content[i].concat();
        match util::guard(|| doc.get_page_content(*p)) {
            Ok(Ok(got)) => {
                if got != want {
                    let f = classify_content(&before, op, &pages, i);
                    return Err((f, format!("page {} ({:?}): content is {:?}, the edits imply {:?}", i + 1, p, String::from_utf8_lossy(&got), String::from_utf8_lossy(&want))));
                }
            }
            Ok(Err(e)) => return Err((None, format!("get_page_content failed: {}", e))),
            Err(pn) => return Err((None, pn)),
        }
    }
    let lp = util::guard(|| doc.get_pages()).map_err(|pn| (None, pn))?;
    if lp.values().cloned().collect::<Vec<_>>() != now_pages {
        return Err((None, "get_pages() disagrees with the page tree".into()));
    }
    for id in &m.handed_out {
        if doc.objects.contains_key(id) && !matches!(op, Op::NewId) {
            // an id handed out by new_object_id was given to another object by a later allocation
            return Err((None, format!("id {:?} handed out by new_object_id is now used by an object the caller did not put there", id)));
        }
    }
    Ok(())
}

/// content mismatch classification (DESIGN Appendix A)
fn classify_content(before: &Document, op: &Op, pages: &[ObjectId], failing_page: usize) -> Option<&'static str> {
    match op {
        Op::AddContents(p, _) | Op::AddToContent(p) => {
            // Contents was a reference to an array: old content dropped from view
            let page = pages.get(*p as usize)?;
            let dd = before.objects.get(page).and_then(as_dict)?;
            if let Ok(Object::Reference(id)) = dd.get(b"Contents") {
                if matches!(before.objects.get(id), Some(Object::Array(_))) && failing_page == *p as usize {
                    return Some("contents-indirect-array");
                }
            }
            None
        }
        Op::ChangeContent(p, _) => {
            // the changed stream is shared with the failing page
            let page = pages.get(*p as usize)?;
            let mine: BTreeSet<ObjectId> = content_ids(before, *page).into_iter().collect();
            let other = pages.get(failing_page)?;
            if failing_page != *p as usize && content_ids(before, *other).iter().any(|i| mine.contains(i)) {
                return Some("shared-content-stream");
            }
            None
        }
        _ => None,
    }
}

fn model_after_delete(before: &Document, m: &Model, gone: &[ObjectId]) -> Model {
    let mut n = m.clone();
    let pages = pages_of(before);
    for (pi, p) in pages.iter().enumerate() {
        let ids = content_ids(before, *p);
        // which pieces of the model belong to deleted streams: positions in the harness's own list
        let mut keep = vec![];
        for (k, piece) in m.content.get(pi).cloned().unwrap_or_default().into_iter().enumerate() {
            let id = ids.get(k);
            // a Contents entry that is itself deleted (the array / the single stream) removes everything
            let contents_holder_gone = match before.objects.get(p).and_then(as_dict).and_then(|dd| dd.get(b"Contents").ok()) {
                Some(Object::Reference(h)) => gone.contains(h),
                _ => false,
            };
            if contents_holder_gone || id.map(|i| gone.contains(i)).unwrap_or(false) {
                continue;
            }
            keep.push(piece);
        }
        if let Some(slot) = n.content.get_mut(pi) {
            *slot = keep;
        }
    }
    n
}

fn check_deleted(before: &Document, after: &Document, gone: &BTreeSet<ObjectId>) -> Result<(), Fail> {
    check_deleted_impl(before, after, gone, false)
}
fn check_deleted_ignoring_count(before: &Document, after: &Document, gone: &BTreeSet<ObjectId>) -> Result<(), Fail> {
    check_deleted_impl(before, after, gone, true)
}

fn check_deleted_impl(before: &Document, after: &Document, gone: &BTreeSet<ObjectId>, ignore_count: bool) -> Result<(), Fail> {
    for id in gone {
        if after.objects.contains_key(id) {
            return Err((None, format!("deleted object {:?} still exists", id)));
        }
    }
    // no reference to a deleted object in the trailer or in any object reachable from it
    for id in gone {
        if has_ref(&Object::Dictionary(after.trailer.clone()), *id) {
            return Err((Some("delete-leftover-trailer"), format!("trailer still refers to deleted object {:?}", id)));
        }
        for rid in reachable(after) {
            if let Some(o) = after.objects.get(&rid) {
                if has_ref(o, *id) {
                    let f = match o {
                        Object::Stream(_) => Some("delete-leftover-streamdict"),
                        _ => {
                            // the same reference twice in one array?
                            let twice = before.objects.get(&rid).map(|b| count_in_arrays(b, *id) >= 2).unwrap_or(false);
                            if twice {
                                Some("delete-leftover-array-dup")
                            } else {
                                None
                            }
                        }
                    };
                    return Err((f, format!("object {:?} still refers to deleted object {:?}: {}", rid, id, vharness::run::truncate(&vharness::objjson::show(o), 200))));
                }
            }
        }
    }
    // everything else: equal to the previous version with those references removed
    let reach_after = reachable(after);
    for rid in reachable(before) {
        if gone.contains(&rid) {
            continue;
        }
        if let (Some(b), Some(a)) = (before.objects.get(&rid), after.objects.get(&rid)) {
            if !reach_after.contains(&rid) && cmp::diff_obj(b, a, "o").is_none() {
                // no longer reachable from the trailer: may keep its references
                continue;
            }
            let mut want = strip_refs(b, gone);
            let mut got = a.clone();
            if ignore_count {
                want = drop_count(&want);
                got = drop_count(&got);
            }
            if let Some(m) = cmp::diff_obj(&want, &got, &format!("obj({} {})", rid.0, rid.1)) {
                return Err((None, format!("deletion altered an object beyond removing the reference: {}", m)));
            }
        } else if before.objects.contains_key(&rid) && !after.objects.contains_key(&rid) {
            return Err((None, format!("deletion removed another reachable object {:?}", rid)));
        }
    }
    Ok(())
}

fn count_in_arrays(o: &Object, id: ObjectId) -> usize {
    match o {
        Object::Array(a) => {
            let here = a.iter().filter(|x| **x == Object::Reference(id)).count();
            here.max(a.iter().map(|x| count_in_arrays(x, id)).max().unwrap_or(0))
        }
        Object::Dictionary(dd) => dd.iter().map(|(_, v)| count_in_arrays(v, id)).max().unwrap_or(0),
        Object::Stream(s) => s.dict.iter().map(|(_, v)| count_in_arrays(v, id)).max().unwrap_or(0),
        _ => 0,
    }
}

fn state_digest(doc: &Document, m: &Model) -> u64 {
    let mut b = cmp::digest_doc(doc).to_be_bytes().to_vec();
    for id in &m.handed_out {
        b.extend(id.0.to_be_bytes());
    }
    b.extend((doc.bookmarks.len() as u32).to_be_bytes());
    vharness::run::fnv(&b)
}

fn main() {
    let run = Run::from_args("C11", "model_checking");
    util::quiet_panics();
    util::init_pool();
    util::pin_schedule();
    let ops = alphabet();
    if let Mode::Replay(path) = run.mode.clone() {
        let c = vharness::run::read_replay(&path);
        let mut doc = start_doc(c["start"].as_u64().unwrap() as usize);
        let mut m = model_of(&doc);
        let mut res = None;
        for o in c["ops"].as_array().unwrap() {
            let op = op_from(o.as_str().unwrap());
            if let Err((_, msg)) = step(&mut doc, &mut m, &op) {
                res = Some(format!("after {:?}: {}", op, msg));
                break;
            }
        }
        match &res {
            Some(x) => println!("observed: {}", x),
            None => println!("observed: all invariants hold along the sequence"),
        }
        run.finish_replay(res.is_some());
    }
    run.rule(
        "breadth-first search over sequences of editing-operation instances (alphabet printed in the evidence) from 5 start documents (one with sparse numbering and dangling references), on the real \
         Document with an abstract model; states deduplicated by canonical document digest + model; depth 3 (quick) / 4 (thorough); 8 invariants after \
         every transition; non-trivial = a transition that changes the document digest",
    );
    run.assume("start documents are well-formed; delete_object is only applied to objects that are not page-tree nodes or the catalog (removing pages is delete_pages' job)");
    run.set("alphabet", json!(ops.iter().map(op_json).collect::<Vec<_>>()));
    let depth = if run.thorough { 4 } else { 3 };
    let per_depth: Mutex<BTreeMap<usize, u64>> = Mutex::new(BTreeMap::new());
    for sk in 0..5usize {
        let start = start_doc(sk);
        let m0 = model_of(&start);
        // sanity: invariants hold in the start state
        if let Some(x) = check_counts(&start) {
            eprintln!("MACHINERY: start document {} violates Count invariant: {}", sk, x);
            std::process::exit(3);
        }
        let mut seen: HashSet<u64> = HashSet::new();
        seen.insert(state_digest(&start, &m0));
        let mut frontier: Vec<(Vec<usize>, Document, Model)> = vec![(vec![], start.clone(), m0)];
        run.add_states(1);
        for dlevel in 0..depth {
            let results: Mutex<Vec<(Vec<usize>, Document, Model, u64)>> = Mutex::new(vec![]);
            let jobs: Vec<(usize, usize)> = (0..frontier.len()).flat_map(|f| (0..ops.len()).map(move |o| (f, o))).collect();
            util::par_for(jobs.len(), |j| {
                let (fi, oi) = jobs[j];
                let (path, doc, model) = &frontier[fi];
                let mut d2 = doc.clone();
                let mut m2 = model.clone();
                run.add_transitions(1);
                run.eval(1);
                let before_digest = cmp::digest_doc(doc);
                match step(&mut d2, &mut m2, &ops[oi]) {
                    Ok(()) => {
                        run.add_traces(1);
                        if cmp::digest_doc(&d2) != before_digest {
                            run.nontrivial(1);
                        }
                        let dg = state_digest(&d2, &m2);
                        let mut p = path.clone();
                        p.push(oi);
                        // the documents of the last level are never expanded: keep only their digests
                        if dlevel + 1 == depth {
                            results.lock().unwrap().push((p, Document::new(), Model::default(), dg));
                        } else {
                            results.lock().unwrap().push((p, d2, m2, dg));
                        }
                    }
                    Err((f, msg)) => {
                        let mut p: Vec<Value> = path.iter().map(|i| op_json(&ops[*i])).collect();
                        p.push(op_json(&ops[oi]));
                        run.fail(f, json!({"start": sk, "ops": p}), &msg, "the document stays sound after every editing call (invariants I1-I8 of DESIGN §4 C11)");
                    }
                }
            });
            let mut next = vec![];
            let mut rs = results.into_inner().unwrap();
            rs.sort_by(|a, b| a.0.cmp(&b.0));
            for (p, d2, m2, dg) in rs {
                if seen.insert(dg) {
                    next.push((p, d2, m2));
                }
            }
            *per_depth.lock().unwrap().entry(dlevel + 1).or_insert(0) += next.len() as u64;
            run.add_states(next.len() as u64);
            frontier = next;
        }
        if sk == 2 {
            if let Some((p, _, _)) = frontier.get(frontier.len() / 2) {
                run.sample(json!({"start": sk, "ops": p.iter().map(|i| op_json(&ops[*i])).collect::<Vec<_>>()}));
            }
        }
    }
    run.sample(json!({"start": 1, "ops": ["AddXObject(0)", "DeletePages([1])", "SaveReload(false)"]}));
    run.set("new_states_per_depth", json!(per_depth.lock().unwrap().clone()));
    run.set("depth", json!(depth));
    run.exhaustive(true);
    run.finish();
}
