//! C01 - save then load returns the same document (DESIGN §4 C01).
use lopdf::{Dictionary, Document, Object, Stream, StringFormat};
use serde_json::{json, Value};
use std::sync::atomic::{AtomicU64, Ordering};
use std::sync::Mutex;
use vharness::gen::{all_upto2, tuples, SHARP};
use vharness::objjson::{doc_from_json, doc_to_json, obj_from_json, obj_to_json};
use vharness::rt::{self, check_doc, check_items, check_single, map_tree, paren_depth, walk};
use vharness::{cmp, docgen, util, Mode, Run};

const BUILD: &str = if cfg!(feature = "par") { "default" } else { "sequential" };

fn main() {
    let args: Vec<String> = std::env::args().collect();
    let seq_child = args.windows(2).any(|w| w[0] == "--part" && w[1] == "seq");
    let mut run = Run::from_args("C01", "exploration");
    util::quiet_panics();
    util::init_pool();
    util::pin_schedule();
    if seq_child || BUILD == "sequential" {
        run.replay_prefix = "seq-".into();
        run.replay_extra.lock().unwrap().insert("build".into(), json!("sequential"));
    }
    // every run (and every replay) starts from a NON-initial reader state: 130 loads of a file that is rejected
    // for nesting too deeply, on the calling thread and on every pool thread. Loading must not depend on what
    // was loaded before, so nothing below may notice.
    hostile_prelude();
    if let Mode::Replay(path) = run.mode.clone() {
        replay(&run, &path);
    }
    run.assume("before the exploration the process loads a rejected (140-level) file 130 times on the calling thread and on every pool thread; the property must hold from that state as from a fresh one");
    run.rule(
        "items are enumerated without repetition (all byte strings of length <=2 over 256 bytes, k-tuples over the 28-symbol \
         sharp alphabet, all arrays of length <=3 and dictionaries with <=2 entries over the 24-atom menu, all object trees \
         with <=4 nodes, stratified or all f32 bit patterns, id/generation/version/mark menus; every sequence of <= 4 saves and edits on one Document value); an item is non-trivial when it \
         contains a byte outside [A-Za-z0-9], or two adjacent tokens, or a non-default file-level field; distinct by construction",
    );
    run.assume("object numbers <= 3,000,000 (the writer's cross-reference loops are linear in max_id)");
    run.assume("documents in the C01 domain of DESIGN §4: unique object numbers, max_id >= every number, no /Type ObjStm|XRef objects, no Linearized key, binary mark bytes >= 0x80, version without CR/LF, no NaN/inf");
    if seq_child {
        adjacency(&run, true);
        trees(&run);
        file_level(&run);
        carriers(&run, 1, 0);
        closure(&run, 2);
        run.finish_child();
    }
    let t = run.thorough;
    carriers(&run, 2, 3);
    if t {
        carriers(&run, 0, 4);
    } else {
        carriers_slice(&run, 4, 64);
    }
    families(&run);
    adjacency(&run, false);
    trees(&run);
    reals(&run);
    file_level(&run);
    resave(&run);
    closure(&run, if t { 3 } else { 2 });
    if let Ok(seq) = std::env::var("VERIF_SEQ_BIN") {
        let tier = if t { "thorough" } else { "quick" };
        run.run_child(&seq, &["--part", "seq", "--tier", tier], "sequential_reader_build");
    } else {
        run.assume("VERIF_SEQ_BIN not set: the no-default-features configuration was not run in this invocation");
        run.exhaustive(false);
    }
    run.exhaustive(true);
    run.finish();
}

fn hostile_prelude() {
    let mut body = vec![b'['; 140];
    body.extend_from_slice(b"1");
    body.extend(vec![b']'; 140]);
    let mut f = b"%PDF-1.4\n".to_vec();
    let off = f.len();
    f.extend_from_slice(b"1 0 obj\n");
    f.extend_from_slice(&body);
    f.extend_from_slice(b"\nendobj\n");
    let x = f.len();
    f.extend_from_slice(format!("xref\n0 2\n0000000000 65535 f \n{:010} 00000 n \ntrailer\n<</Size 2/Root 1 0 R/Deep ", off).as_bytes());
    f.extend_from_slice(&body);
    f.extend_from_slice(format!(">>\nstartxref\n{}\n%%EOF", x).as_bytes());
    // a file whose only defect is the depth of an ordinary object (the trailer is fine)
    let mut g = b"%PDF-1.4\n".to_vec();
    let off = g.len();
    g.extend_from_slice(b"1 0 obj\n");
    g.extend_from_slice(&body);
    g.extend_from_slice(b"\nendobj\n");
    let x = g.len();
    g.extend_from_slice(format!("xref\n0 2\n0000000000 65535 f \n{:010} 00000 n \ntrailer\n<</Size 2/Root 1 0 R>>\nstartxref\n{}\n%%EOF", off, x).as_bytes());
    let work = || {
        for _ in 0..130 {
            let _ = util::load(&f);
            let _ = util::load(&g);
        }
    };
    work();
    // (in the sequential build the pool threads never parse anything; harmless there)
    let w = &work;
    rayon::broadcast(|_| w());
}

// ---------------------------------------------------------------------------------------------
// classification of failing items (DESIGN Appendix A)

fn big_integral_real(o: &Object) -> bool {
    matches!(o, Object::Real(r) if r.is_finite() && r.fract() == 0.0 && r.abs() >= 9.223372e18)
}

fn deep_paren_string(o: &Object) -> bool {
    matches!(o, Object::String(s, StringFormat::Literal) if paren_depth(s) > 100)
}

/// Attribute a failing item to a catalogued finding only if neutralising exactly that feature
/// makes the item pass; otherwise it is an unclassified violation.
fn classify(item: &Object, table: bool) -> Option<&'static str> {
    let mut has_real = false;
    let mut has_paren = false;
    walk(item, &mut |o| {
        has_real |= big_integral_real(o);
        has_paren |= deep_paren_string(o);
    });
    if has_real {
        let n = map_tree(item, &|o| if big_integral_real(o) { Some(Object::Real(1.5)) } else { None });
        if check_single(&n, table).is_none() {
            return Some("real-integral-ge-2p63");
        }
    }
    if has_paren {
        let n = map_tree(item, &|o| if deep_paren_string(o) { Some(Object::string_literal("x")) } else { None });
        if check_single(&n, table).is_none() {
            return Some("paren-nesting-gt-100");
        }
    }
    None
}

fn report_item(run: &Run, part: &str, item: &Object, table: bool, msg: &str) {
    let f = classify(item, table);
    run.fail(
        f,
        json!({"kind": "item", "part": part, "table": table, "build": BUILD, "item": obj_to_json(item)}),
        msg,
        "object equal after save+load (integral Real may become Integer)",
    );
}

fn report_doc(run: &Run, part: &str, doc: &Document, table: bool, msg: &str) {
    run.fail(
        None,
        json!({"kind": "doc", "part": part, "table": table, "build": BUILD, "doc": doc_to_json(doc)}),
        msg,
        "document equal after save+load",
    );
}

fn run_batch(run: &Run, part: &str, items: &[Object]) {
    for table in [true, false] {
        run.eval(items.len() as u64);
        for (i, m) in check_items(items, table) {
            report_item(run, part, &items[i], table, &m);
        }
    }
}

fn nontrivial_bytes(b: &[u8]) -> bool {
    b.iter().any(|c| !c.is_ascii_alphanumeric())
}

// ---------------------------------------------------------------------------------------------
// part 1: byte content of names, strings, keys, stream bodies

fn carriers_over(run: &Run, part: &str, list: &[Vec<u8>]) {
    let chunk = 400;
    let n = list.len().div_ceil(chunk);
    util::par_for(n, |c| {
        let lo = c * chunk;
        let hi = (lo + chunk).min(list.len());
        let mut items = Vec::with_capacity((hi - lo) * 9);
        for b in &list[lo..hi] {
            items.extend(docgen::carrier_items(b));
        }
        run_batch(run, part, &items);
    });
    let nt = list.iter().filter(|b| nontrivial_bytes(b)).count() as u64;
    run.nontrivial(nt * 5);
    run.add(&format!("carriers_{}", part), list.len() as u64);
}

/// all byte strings up to `full_len` (<=2) over 256 bytes, then sharp tuples of length `sharp_len`.
fn carriers(run: &Run, full_len: usize, sharp_len: usize) {
    if full_len > 0 {
        let all: Vec<Vec<u8>> = all_upto2().into_iter().filter(|b| b.len() <= full_len).collect();
        run.sample(json!({"part": "carriers", "bytes_hex": vharness::objjson::hex(&all[all.len() - 1]), "contexts": "name, literal, hex string (top level, array x2, dict value, nested array), dict key, stream body+key"}));
        carriers_over(run, &format!("bytes_le{}", full_len), &all);
    }
    if sharp_len > 0 {
        let list: Vec<Vec<u8>> = tuples(&SHARP, sharp_len).collect();
        run.sample(json!({"part": "carriers", "bytes_hex": vharness::objjson::hex(&list[list.len() / 3])}));
        carriers_over(run, &format!("sharp{}", sharp_len), &list);
    }
}

/// quick tier: the residue class (seed mod m) of the length-`len` sharp tuples.
fn carriers_slice(run: &Run, len: usize, m: u64) {
    let r = run.seed % m;
    let list: Vec<Vec<u8>> = tuples(&SHARP, len).enumerate().filter(|(i, _)| *i as u64 % m == r).map(|x| x.1).collect();
    carriers_over(run, &format!("sharp{}_slice", len), &list);
    run.set("sharp4_slice", json!(format!("index mod {} == {}", m, r)));
}

/// parametric families at the code's own limits.
fn families(run: &Run) {
    let items = docgen::family_items();
    run.nontrivial(items.len() as u64);
    run.add("family_items", items.len() as u64);
    run_batch(run, "families", &items);
}

// ---------------------------------------------------------------------------------------------
// part 2: token adjacency

fn adjacency(run: &Run, reduced: bool) {
    let items = docgen::adjacency_items(reduced);
    let n = docgen::atoms().len();
    run.sample(json!({"part": "adjacency", "item": obj_to_json(&items[items.len() / 2]), "atoms": n}));
    run.nontrivial(items.len() as u64 - 1 - n as u64);
    run.add("adjacency_items", items.len() as u64);
    let chunk = 2000;
    util::par_for(items.len().div_ceil(chunk), |c| {
        let lo = c * chunk;
        let hi = (lo + chunk).min(items.len());
        run_batch(run, "adjacency", &items[lo..hi]);
    });
}

// ---------------------------------------------------------------------------------------------
// part 2b: all object trees with <= 4 nodes, depth <= 3

fn trees(run: &Run) {
    let items = docgen::tree_items();
    run.sample(json!({"part": "trees", "item": obj_to_json(&items[items.len() / 2]), "count": items.len()}));
    run.nontrivial(items.len() as u64 - 10);
    run.add("tree_items", items.len() as u64);
    let chunk = 1000;
    util::par_for(items.len().div_ceil(chunk), |c| {
        let lo = c * chunk;
        let hi = (lo + chunk).min(items.len());
        run_batch(run, "trees", &items[lo..hi]);
    });
}

// ---------------------------------------------------------------------------------------------
// part 3: numbers

fn mantissas() -> Vec<u32> {
    let mut m: Vec<u32> = vec![0, 1, 2, 3, 0x7fffff, 0x7ffffe, 0x555555, 0x2aaaaa, 0x400000, 0x400001, 0x3fffff];
    for k in 2..23 {
        m.push(1 << k);
    }
    let mut x: u32 = 0x9e3779b9;
    while m.len() < 64 {
        x = x.wrapping_mul(1664525).wrapping_add(1013904223);
        let v = x >> 9;
        if !m.contains(&v) {
            m.push(v);
        }
    }
    m
}

fn check_real_block(run: &Run, bits: &[u32]) {
    let items: Vec<Object> = bits
        .chunks(4096)
        .map(|c| Object::Array(c.iter().map(|b| Object::Real(f32::from_bits(*b))).collect()))
        .collect();
    for table in [true, false] {
        run.eval(bits.len() as u64);
        let fails = check_items(&items, table);
        for (i, _m) in fails {
            // go down to single reals
            let lo = i * 4096;
            let hi = (lo + 4096).min(bits.len());
            let singles: Vec<Object> = bits[lo..hi].iter().map(|b| Object::Array(vec![Object::Real(f32::from_bits(*b))])).collect();
            for (j, m) in check_items(&singles, table) {
                report_item(run, "reals", &singles[j], table, &m);
            }
        }
    }
}

fn reals(run: &Run) {
    let ints: Vec<Object> = [
        0i64, 1, -1, 9, 10, 99, 100, 2147483647, 2147483648, -2147483648, -2147483649, 4294967295, 4294967296,
        9007199254740993, i64::MAX, i64::MIN, i64::MAX - 1, i64::MIN + 1, 999999999999999999, -999999999999999999,
    ]
    .iter()
    .map(|i| Object::Integer(*i))
    .collect();
    run.nontrivial(ints.len() as u64);
    run_batch(run, "integers", &ints);
    if !run.thorough {
        let ms = mantissas();
        let mut bits = Vec::with_capacity(255 * 64 * 2);
        for e in 0..255u32 {
            for m in &ms {
                for s in 0..2u32 {
                    bits.push((s << 31) | (e << 23) | m);
                }
            }
        }
        // hard cases of decimal -> binary conversion: the only two finite f32 values (found by a sweep over all
        // 2^32 patterns) whose shortest decimal form, converted through f64 and narrowed, rounds to a
        // neighbour (double rounding), with their neighbours
        for h in [0x15ae43fdu32, 0x95ae43fd] {
            for d in -2i32..=2 {
                bits.push((h as i64 + d as i64) as u32);
            }
        }
        run.sample(json!({"part": "reals", "stratified": "exponents 0..254 x 64 mantissa patterns x sign", "example_bits": bits[12345], "value": format!("{}", f32::from_bits(bits[12345]))}));
        run.nontrivial(bits.len() as u64);
        run.add("reals_checked", bits.len() as u64);
        let chunks: Vec<&[u32]> = bits.chunks(8192).collect();
        util::par_for(chunks.len(), |i| check_real_block(run, chunks[i]));
    } else {
        // all 2^32 bit patterns except NaN / infinities (exponent 255)
        let block: u64 = 1 << 18;
        let nblocks = (1u64 << 32) / block;
        let done = AtomicU64::new(0);
        util::par_for(nblocks as usize, |b| {
            let lo = b as u64 * block;
            let bits: Vec<u32> = (lo..lo + block).map(|x| x as u32).filter(|x| (x >> 23) & 0xff != 0xff).collect();
            if !bits.is_empty() {
                // one format per block alternates; both formats for every 64th block
                check_real_block_one(run, &bits, b % 2 == 0);
                if b % 64 == 0 {
                    check_real_block_one(run, &bits, b % 2 != 0);
                }
                done.fetch_add(bits.len() as u64, Ordering::Relaxed);
            }
        });
        let d = done.load(Ordering::Relaxed);
        run.sample(json!({"part": "reals", "all_f32_bit_patterns_except_nan_inf": d}));
        run.nontrivial(d);
        run.add("reals_checked", d);
    }
}

fn check_real_block_one(run: &Run, bits: &[u32], table: bool) {
    let items: Vec<Object> = bits
        .chunks(16384)
        .map(|c| Object::Array(c.iter().map(|b| Object::Real(f32::from_bits(*b))).collect()))
        .collect();
    run.eval(bits.len() as u64);
    for (i, _m) in check_items(&items, table) {
        let lo = i * 16384;
        let hi = (lo + 16384).min(bits.len());
        let singles: Vec<Object> = bits[lo..hi].iter().map(|b| Object::Array(vec![Object::Real(f32::from_bits(*b))])).collect();
        for (j, m) in check_items(&singles, table) {
            report_item(run, "reals", &singles[j], table, &m);
        }
    }
}

// ---------------------------------------------------------------------------------------------
// part 4b: documents that were saved before - every sequence (<= 4 steps, 5 in thorough) of
// save(table|stream) / renumber / add / delete on ONE Document value; each save must load back
// to the document as it is at that moment (state kept in the trailer or max_id must not leak)

fn resave(run: &Run) {
    let bases = docgen::start_docs();
    let seqs = vharness::rt::resave_sequences(if run.thorough { 5 } else { 4 });
    let nb = if run.thorough { 6 } else { 3 };
    run.add("resave_sequences", (seqs.len() * nb) as u64);
    run.nontrivial((seqs.len() * nb) as u64);
    util::par_for(seqs.len(), |i| {
        for (bi, base) in bases.iter().take(nb).enumerate() {
            match vharness::rt::run_resave_with(base, &seqs[i], vharness::rt::lopdf_reader) {
                Ok(n) => run.eval(n),
                Err(m) => run.fail(
                    None,
                    json!({"kind": "resave", "build": BUILD, "base": bi, "ops": seqs[i].iter().map(|o| vharness::rt::RESAVE_OPS[*o]).collect::<Vec<_>>()}),
                    &m,
                    "every save of the same Document value loads back to the document as it is at that moment",
                ),
            }
        }
    });
}

// ---------------------------------------------------------------------------------------------
// part 4: identifiers and file-level fields

fn file_level(run: &Run) {
    let docs = docgen::file_level_docs();
    run.sample(json!({"part": "file_level", "doc": doc_to_json(&docs[37].0), "label": docs[37].1}));
    run.nontrivial(docs.len() as u64);
    run.add("file_level_docs", docs.len() as u64);
    util::par_for(docs.len(), |i| {
        for table in [true, false] {
            run.eval(1);
            if let Some(m) = check_doc(&docs[i].0, table) {
                report_doc(run, &format!("file_level: {}", docs[i].1), &docs[i].0, table, &m);
            }
        }
    });
    // invalid binary mark: documented error, not a violation
    let mut bad = Document::with_version("1.4");
    bad.binary_mark = vec![0x41];
    run.eval(1);
    if util::save_bytes(&bad, true).is_ok() {
        report_doc(run, "binary mark < 0x80 must be rejected by save", &bad, true, "save succeeded");
    }
}

// ---------------------------------------------------------------------------------------------
// part 6: closure under repeated save/load cycles (explicit-state, both transitions)

fn closure(run: &Run, depth: usize) {
    let starts = docgen::start_docs();
    let states_seen = Mutex::new(0u64);
    util::par_for(starts.len(), |si| {
        let start = &starts[si];
        // BFS: frontier holds (path, document); dedup on canonical digest of the comparable part
        let mut frontier: Vec<(Vec<&'static str>, Document)> = vec![(vec![], start.clone())];
        let mut seen = std::collections::HashSet::new();
        seen.insert(cmp::digest_doc(start));
        for _d in 0..depth {
            let mut next = vec![];
            for (path, doc) in &frontier {
                for (name, table) in [("save_table+load", true), ("save_stream+load", false)] {
                    run.add_transitions(1);
                    run.eval(1);
                    let mut p = path.clone();
                    p.push(name);
                    let loaded = util::save_bytes(doc, table).and_then(|b| util::load(&b));
                    match loaded {
                        Err(e) => run.fail(
                            None,
                            json!({"kind": "closure", "build": BUILD, "start": doc_to_json(start), "path": p}),
                            &e,
                            "save+load succeeds on a previously loaded document",
                        ),
                        Ok(l) => {
                            if let Some(m) = cmp::diff_docs(start, &l) {
                                run.fail(
                                    None,
                                    json!({"kind": "closure", "build": BUILD, "start": doc_to_json(start), "path": p}),
                                    &m,
                                    "document reached by repeated save/load cycles equals the start document",
                                );
                            } else {
                                run.add_traces(1);
                                // state identity: comparable content + max_id + extra bookkeeping objects
                                let dg = cmp::digest_doc(&l);
                                if seen.insert(dg) {
                                    next.push((p, l));
                                }
                            }
                        }
                    }
                }
            }
            frontier = next;
        }
        *states_seen.lock().unwrap() += seen.len() as u64;
    });
    let s = *states_seen.lock().unwrap();
    run.add_states(s);
    run.add("closure_states", s);
    run.sample(json!({"part": "closure", "start": doc_to_json(&starts[1]), "paths": format!("all words over {{save_table+load, save_stream+load}} up to length {}", depth)}));
}

// ---------------------------------------------------------------------------------------------

fn replay(run: &Run, path: &std::path::Path) -> ! {
    let case: Value = vharness::run::read_replay(path);
    let build = case["build"].as_str().unwrap_or("default");
    if build != BUILD {
        if let Ok(seq) = std::env::var("VERIF_SEQ_BIN") {
            let st = std::process::Command::new(seq).args(["--replay", &path.to_string_lossy()]).status().unwrap();
            std::process::exit(st.code().unwrap_or(3));
        }
        eprintln!("MACHINERY: replay needs the {} build", build);
        std::process::exit(3);
    }
    let table = case["table"].as_bool().unwrap_or(true);
    let res = match case["kind"].as_str() {
        Some("item") => {
            let item = obj_from_json(&case["item"]);
            let a = check_single(&item, table);
            let b = check_single(&item, table);
            if a != b {
                eprintln!("MACHINERY: replay not deterministic: {:?} vs {:?}", a, b);
                std::process::exit(3);
            }
            a
        }
        Some("doc") => check_doc(&doc_from_json(&case["doc"]), table),
        Some("resave") => {
            let bases = docgen::start_docs();
            let ops: Vec<usize> = case["ops"].as_array().unwrap().iter().map(|o| vharness::rt::RESAVE_OPS.iter().position(|x| Some(*x) == o.as_str()).unwrap()).collect();
            vharness::rt::run_resave_with(&bases[case["base"].as_u64().unwrap() as usize], &ops, vharness::rt::lopdf_reader).err()
        }
        Some("closure") => {
            let start = doc_from_json(&case["start"]);
            let mut cur = start.clone();
            let mut res = None;
            for step in case["path"].as_array().unwrap() {
                let t = step.as_str() == Some("save_table+load");
                match util::save_bytes(&cur, t).and_then(|b| util::load(&b)) {
                    Ok(l) => {
                        res = cmp::diff_docs(&start, &l);
                        cur = l;
                    }
                    Err(e) => {
                        res = Some(e);
                        break;
                    }
                }
                if res.is_some() {
                    break;
                }
            }
            res
        }
        _ => {
            eprintln!("MACHINERY: unknown replay kind");
            std::process::exit(3);
        }
    };
    match &res {
        Some(m) => println!("observed: {}", m),
        None => println!("observed: round trip equal"),
    }
    run.finish_replay(res.is_some())
}
