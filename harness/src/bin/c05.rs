//! C05 - encrypt then decrypt restores every string and stream (DESIGN §4 C05).
//!
//! Explicit-state search on the real lopdf code: for every start tuple (document x handler
//! configuration x password pair x permission set x cross-reference format) a breadth-first search
//! to depth 4 over {encrypt, save_to+load_mem, decrypt(user), decrypt(owner), decrypt(wrong1),
//! decrypt(wrong2)}. Every transition calls the real `Document` method on a clone; the abstract
//! state is tracked next to it and the invariants of the property statement are evaluated on the
//! result of every transition.
use lopdf::{Document, EncryptionState, Object, ObjectId};
use serde_json::{json, Value};
use std::collections::{BTreeMap, BTreeSet, HashMap, HashSet};
use std::sync::atomic::{AtomicU64, Ordering};
use std::sync::Mutex;
use vharness::refcrypt::menu::{self, doc_from_portable as doc_from_json, doc_to_portable as doc_to_json, Config, DocKind, IdShape, Leaf, F};
use vharness::refcrypt::{pdfdoc_code, pdfdoc_encodable, utf8_prep, utf8_prep_full, EncDict};
use vharness::{cmp, util, Mode, Run};

const DEPTH: usize = 4;

#[derive(Clone, Copy, PartialEq, Eq, Hash, Debug, PartialOrd, Ord)]
enum Abs {
    Plain,
    EncMem,
    EncReloaded,
    DecUser,
    DecOwner,
}

impl Abs {
    fn encrypted(self) -> bool {
        matches!(self, Abs::EncMem | Abs::EncReloaded)
    }
    fn name(self) -> &'static str {
        match self {
            Abs::Plain => "Plain",
            Abs::EncMem => "EncryptedInMemory",
            Abs::EncReloaded => "EncryptedReloaded",
            Abs::DecUser => "DecryptedByUser",
            Abs::DecOwner => "DecryptedByOwner",
        }
    }
}

#[derive(Clone, Copy, PartialEq, Eq, Debug)]
enum Op {
    Encrypt,
    /// `doc.encrypt(&doc.encryption_state.clone().unwrap())`: put the protection back with the parameters the
    /// library kept when it decrypted the document (only where such a state exists)
    EncryptKept,
    SaveLoad,
    DecUser,
    DecOwner,
    DecWrong1,
    DecWrong2,
}

const OPS: [Op; 7] = [Op::Encrypt, Op::EncryptKept, Op::SaveLoad, Op::DecUser, Op::DecOwner, Op::DecWrong1, Op::DecWrong2];

impl Op {
    fn name(self) -> &'static str {
        match self {
            Op::Encrypt => "encrypt",
            Op::EncryptKept => "encrypt(kept state)",
            Op::SaveLoad => "save_to+load_mem",
            Op::DecUser => "decrypt(user)",
            Op::DecOwner => "decrypt(owner)",
            Op::DecWrong1 => "decrypt(wrong1)",
            Op::DecWrong2 => "decrypt(wrong2)",
        }
    }
    fn from_name(s: &str) -> Option<Op> {
        OPS.iter().copied().find(|o| o.name() == s)
    }
}

/// One start tuple.
struct Tuple {
    kind: DocKind,
    cfg: Config,
    pair: String,
    user: String,
    owner: String,
    wrong1: String,
    wrong2: String,
    perms: u64,
    table: bool,
    /// shape of the trailer's /ID entry
    id_shape: IdShape,
    /// depth of the ladders of the deep documents (0: not a deep document)
    depth: usize,
    /// the document nests deeper than the reader accepts: save_to+load_mem is not a transition
    in_memory_only: bool,
    /// evaluate authenticate_user_password / authenticate_owner_password / authenticate_password on every encrypted
    /// state (revision 6, quick tier: the long-password family only - revision 5 runs the same code with a cheap hash)
    auth_probes: bool,
    plain: Document,
}

#[derive(Clone, Debug)]
struct Failure {
    /// which invariant of the statement is broken
    inv: &'static str,
    detail: String,
    finding: Option<&'static str>,
    /// the real document no longer corresponds to any model state: the branch is not explored further
    hard: bool,
}

fn expected_text(inv: &str) -> &'static str {
    match inv {
        "encrypt-succeeds" => "encrypt on an unencrypted document returns Ok and marks the document encrypted (trailer /Encrypt -> encryption dictionary)",
        "ciphertext-differs" => "after encryption no string or stream of 16 bytes or more that is subject to a non-identity filter still equals its plaintext",
        "decrypt-user-restores" | "encrypted-state-decryptable" => "decrypt with the user password returns Ok, every object equals the plaintext byte for byte, /Encrypt and the encryption dictionary are gone",
        "decrypt-owner-restores" => "decrypt with the owner password returns Ok, every object equals the plaintext byte for byte, /Encrypt and the encryption dictionary are gone",
        "wrong-password-rejected" => "a password that is neither the user nor the owner password is rejected with an error and the document is unchanged",
        "encrypt-on-encrypted-rejected" => "encrypt on an encrypted document returns an error and leaves it unchanged",
        "decrypt-on-unencrypted-rejected" => "decrypt on an unencrypted document returns an error and leaves it unchanged",
        "reload-keeps-plaintext" => "save_to + load_mem of an unencrypted state returns the plaintext document",
        "kept-state-present" => "after a successful decrypt the document keeps the parameters it was decrypted with (Document::encryption_state is Some)",
        "re-encrypt-with-kept-state" => "encrypt with the state the library kept returns Ok, the document is encrypted again and decrypts to the plaintext with the user and the owner password",
        "named-filters-encoded" => "the encryption dictionary of the encrypted document defines (in CF, with the right CFM) every crypt filter that StmF, StrF or a stream's own Crypt filter names - otherwise no reader, lopdf included, can decrypt that stream",
        "authenticate-accepts" => "on an encrypted document authenticate_user_password / authenticate_password accept the user password and authenticate_owner_password / authenticate_password accept the owner password",
        "reload-of-encrypted" => "save_to + load_mem of an encrypted state either is still encrypted and equal to the state before saving, or (only if the empty password is the user or owner password) is decrypted to the plaintext",
        _ => "invariant of the C05 model",
    }
}

// ---------------------------------------------------------------------------------------------
// password semantics of the model (the standard's, not lopdf's)

/// Bytes the standard derives keys from; None if the password cannot be represented (R <= 4).
fn effective(r: i64, pw: &str) -> Option<Vec<u8>> {
    if r <= 4 {
        pw.chars().map(pdfdoc_code).collect::<Option<Vec<u8>>>().map(|mut b| {
            b.truncate(32);
            b
        })
    } else {
        utf8_prep(pw).ok()
    }
}

fn same_pw(r: i64, a: &str, b: &str) -> bool {
    a == b || matches!((effective(r, a), effective(r, b)), (Some(x), Some(y)) if x == y)
}

/// What lopdf's PDFDocEncoding step keeps of a password (classifier only).
fn reduced(pw: &str) -> Vec<u8> {
    let mut b: Vec<u8> = pw.chars().filter_map(pdfdoc_code).collect();
    b.truncate(32);
    b
}

fn neutral_spelling(pw: &str) -> String {
    pw.chars().map(|c| if pdfdoc_code(c).is_some() { c } else { 'x' }).collect()
}

fn make_wrong1(r: i64, user: &str, owner: &str) -> String {
    for c in ['q', 'Q', 'z', '7'] {
        let mut s: String = String::new();
        s.push(c);
        s.extend(user.chars().skip(1));
        if !same_pw(r, &s, user) && !same_pw(r, &s, owner) && reduced(&s) != reduced(user) && reduced(&s) != reduced(owner) {
            return s;
        }
    }
    "not-the-password".to_string()
}

const WRONG2: &str = "\u{43d}\u{435}\u{432}\u{435}\u{440}\u{43d}\u{44b}\u{439}";

// ---------------------------------------------------------------------------------------------
// comparisons

fn is_structural(o: &Object) -> bool {
    matches!(o.type_name(), Ok(b"XRef") | Ok(b"ObjStm"))
}

fn content_objects(d: &Document) -> BTreeMap<ObjectId, Object> {
    d.objects.iter().filter(|(_, o)| !is_structural(o)).map(|(k, v)| (*k, v.clone())).collect()
}

/// Equality up to cross-reference bookkeeping (DESIGN §2.6), symmetric in structural objects.
fn diff_docs_sym(expected: &Document, actual: &Document) -> Option<String> {
    if expected.version != actual.version {
        return Some(format!("version {:?} became {:?}", expected.version, actual.version));
    }
    // exact equality first (the structural comparison builds a path string per level, which is quadratic
    // in the nesting depth of the deep documents); anything not exactly equal goes through cmp::diff_objects
    let exact = expected.objects.iter().filter(|(_, o)| !is_structural(o)).all(|(id, o)| actual.objects.get(id) == Some(o))
        && actual.objects.iter().all(|(id, o)| is_structural(o) || expected.objects.get(id).map(|e| !is_structural(e)).unwrap_or(false));
    let objects = if exact { None } else { cmp::diff_objects(&content_objects(expected), &actual.objects) };
    objects.or_else(|| cmp::diff_trailer(&expected.trailer, &actual.trailer))
}

/// For the deep documents: at which nesting depth the first string differs (the path alone is hard to read).
fn deep_note(t: &Tuple, d: &Document) -> String {
    if !t.kind.is_deep() {
        return String::new();
    }
    let mut best: Option<(usize, ObjectId)> = None;
    let mut count = 0;
    for (id, p) in &t.plain.objects {
        if let Some(k) = d.objects.get(id).and_then(|o| menu::first_differing_string_depth(p, o)) {
            count += 1;
            if best.map(|b| k < b.0).unwrap_or(true) {
                best = Some((k, *id));
            }
        }
    }
    match best {
        Some((k, id)) => format!(
            "strings differ in {} object(s); the shallowest differing string is enclosed by {} arrays/dictionaries (object {} {}, ladders of depth {}): ",
            count, k, id.0, id.1, t.depth
        ),
        None => String::new(),
    }
}

/// For the documents of long strings: which strings differ (the values themselves would fill pages).
fn sized_note(t: &Tuple, d: &Document, m: &str) -> String {
    fn fmt(f: &lopdf::StringFormat) -> &'static str {
        match f {
            lopdf::StringFormat::Literal => "literal",
            lopdf::StringFormat::Hexadecimal => "hexadecimal",
        }
    }
    fn go(a: &Object, b: &Object, path: &mut String, out: &mut Vec<String>) {
        let keep = path.len();
        match (a, b) {
            (Object::String(x, fx), Object::String(y, fy)) if x != y => out.push(format!(
                "{}: a {} string of {} bytes in the plaintext document, here a {} string of {} bytes{}",
                path,
                fmt(fx),
                x.len(),
                fmt(fy),
                y.len(),
                if x.len() == y.len() { format!(" ({} of them differ)", x.iter().zip(y.iter()).filter(|(p, q)| p != q).count()) } else { String::new() }
            )),
            (Object::Array(x), Object::Array(y)) => {
                for (i, (p, q)) in x.iter().zip(y.iter()).enumerate() {
                    path.push_str(&format!("[{}]", i));
                    go(p, q, path, out);
                    path.truncate(keep);
                }
            }
            (Object::Dictionary(x), Object::Dictionary(y)) => {
                for (k, p) in x.iter() {
                    if let Ok(q) = y.get(k) {
                        path.push('/');
                        path.push_str(&String::from_utf8_lossy(k));
                        go(p, q, path, out);
                        path.truncate(keep);
                    }
                }
            }
            _ => {}
        }
    }
    let mut out = vec![];
    for (id, p) in &t.plain.objects {
        if let Some(o) = d.objects.get(id) {
            go(p, o, &mut format!("obj({} {})", id.0, id.1), &mut out);
        }
    }
    if out.is_empty() {
        vharness::run::truncate(m, 300)
    } else {
        format!("{} string(s) are not restored: {}", out.len(), out.iter().take(3).cloned().collect::<Vec<_>>().join("; "))
    }
}

fn short_path(p: &str) -> String {
    if p.len() <= 140 {
        p.to_string()
    } else {
        format!("{}...({} characters)...{}", &p[..60], p.len() - 100, &p[p.len() - 40..])
    }
}

/// The decrypted / plaintext invariant: no /Encrypt, every object equal to the plaintext, nothing extra.
fn diff_plain(t: &Tuple, d: &Document) -> Option<String> {
    if d.trailer.has(b"Encrypt") {
        return Some("trailer still has /Encrypt".into());
    }
    diff_docs_sym(&t.plain, d).map(|m| {
        if t.kind.is_deep() {
            format!("{}{}", deep_note(t, d), vharness::run::truncate(&m, 100))
        } else if is_sized(t.kind) {
            sized_note(t, d, &m)
        } else {
            m
        }
    })
}

fn outcome_kind<T>(r: &Result<Result<T, lopdf::Error>, String>) -> String {
    match r {
        Ok(Ok(_)) => "Ok".into(),
        Ok(Err(e)) => {
            let s = format!("{:?}", e);
            format!("Err({})", vharness::run::truncate(&s, 60))
        }
        Err(p) => format!("PANIC {}", vharness::run::truncate(p, 80)),
    }
}

fn try_decrypt(d: &mut Document, pw: &str) -> Result<Result<(), lopdf::Error>, String> {
    util::guard(|| d.decrypt(pw))
}

// ---------------------------------------------------------------------------------------------
// classification of failing cases (DESIGN Appendix A); narrow: predicate AND neutralisation

/// finding (i): R <= 4, the password authenticates as owner, differs from the user password, and the
/// same state decrypts correctly with the user password.
fn classify_owner_key(t: &Tuple, pre: &Document, offered: &str) -> Option<&'static str> {
    let r = t.cfg.revision();
    // (if what lopdf keeps of both passwords is equal, lopdf derives the right key)
    if r > 4 || reduced(&t.user) == reduced(offered) {
        return None;
    }
    if !matches!(util::guard(|| pre.authenticate_owner_password(offered)), Ok(Ok(()))) {
        return None;
    }
    let mut c = pre.clone();
    if matches!(try_decrypt(&mut c, &t.user), Ok(Ok(()))) && diff_plain(t, &c).is_none() {
        Some("owner-key-r2-4")
    } else {
        None
    }
}

/// first 127 bytes of a password, if that is a character boundary
fn cut127(pw: &str) -> Option<String> {
    if pw.len() <= 127 {
        Some(pw.to_string())
    } else if pw.is_char_boundary(127) {
        Some(pw[..127].to_string())
    } else {
        None
    }
}

/// finding (vi): R >= 5, the prepared user or owner password is longer than 127 bytes, and the case
/// passes when the document is *encrypted* with the first 127 bytes (what Algorithms 8/9 use) while
/// the full password is still the one offered to decrypt.
fn classify_long_password(t: &Tuple, offered: &str) -> Option<&'static str> {
    if t.cfg.revision() < 5 {
        return None;
    }
    let too_long = |p: &str| utf8_prep_full(p).map(|b| b.len() > 127).unwrap_or(false);
    if !too_long(&t.user) && !too_long(&t.owner) {
        return None;
    }
    let (u, o) = (cut127(&t.user)?, cut127(&t.owner)?);
    let state = menu::build_state(&t.cfg, &t.plain, &u, &o, t.perms).ok()?;
    let mut d = t.plain.clone();
    if !matches!(util::guard(|| d.encrypt(&state)), Ok(Ok(()))) {
        return None;
    }
    if matches!(try_decrypt(&mut d, offered), Ok(Ok(()))) && diff_plain(t, &d).is_none() {
        Some("r6-password-over-127")
    } else {
        None
    }
}

/// finding (iii): R <= 4, the offered password has characters outside PDFDocEncoding, what is left of it
/// equals what is left of the user or owner password, and the same password with those characters
/// spelled as 'x' is rejected.
fn classify_collapse_accept(t: &Tuple, pre: &Document, offered: &str) -> Option<&'static str> {
    if t.cfg.revision() > 4 || pdfdoc_encodable(offered) {
        return None;
    }
    let red = reduced(offered);
    if red != reduced(&t.user) && red != reduced(&t.owner) {
        return None;
    }
    let neutral = neutral_spelling(offered);
    if reduced(&neutral) == reduced(&t.user) || reduced(&neutral) == reduced(&t.owner) {
        return None;
    }
    // "rejected" is judged at the authentication step: whether decrypt with a wrongly derived AES key
    // fails on the first object (document unchanged) or later is a matter of chance
    if matches!(util::guard(|| pre.authenticate_password(&neutral)), Ok(Err(_))) {
        Some("nonlatin-password-collapse")
    } else {
        None
    }
}

/// Re-run "encrypt; save; load" with other passwords: Some(true) if the reloaded document is still
/// encrypted, equal to the saved state and opens with the user password.
fn reload_with(t: &Tuple, user: &str, owner: &str) -> Option<bool> {
    let state = menu::build_state(&t.cfg, &t.plain, user, owner, t.perms).ok()?;
    let mut d = t.plain.clone();
    if !matches!(util::guard(|| d.encrypt(&state)), Ok(Ok(()))) {
        return None;
    }
    let loaded = util::save_bytes(&d, t.table).and_then(|b| util::load(&b)).ok()?;
    if !loaded.is_encrypted() || diff_docs_sym(&d, &loaded).is_some() {
        return Some(false);
    }
    let mut c = loaded.clone();
    Some(matches!(try_decrypt(&mut c, user), Ok(Ok(()))) && diff_plain(t, &c).is_none())
}

/// Failures of save+load of an encrypted state.
fn classify_reload(t: &Tuple, pre: &Document) -> Option<&'static str> {
    let r = t.cfg.revision();
    if r > 4 {
        return None;
    }
    let user_bad = !pdfdoc_encodable(&t.user);
    let owner_bad = !pdfdoc_encodable(&t.owner);
    if (user_bad && reduced(&t.user).is_empty()) || (owner_bad && reduced(&t.owner).is_empty()) {
        // finding (iii): a non-Latin password is reduced to the empty password, which the loader offers
        let u = neutral_spelling(&t.user);
        let o = neutral_spelling(&t.owner);
        if !u.is_empty() && !o.is_empty() && reload_with(t, &u, &o) == Some(true) {
            return Some("nonlatin-password-collapse");
        }
        return None;
    }
    // finding (i): the loader's empty password authenticates as owner and the key is then derived from it
    if !reduced(&t.user).is_empty()
        && matches!(util::guard(|| pre.authenticate_owner_password("")), Ok(Ok(())))
        && reload_with(t, &t.user, "neutral-owner-password") == Some(true)
    {
        return Some("owner-key-r2-4");
    }
    None
}

// ---------------------------------------------------------------------------------------------
// invariants of the Encrypted states

fn check_encrypted(t: &Tuple, d: &Document) -> Vec<Failure> {
    let mut out = vec![];
    let enc_id = match d.trailer.get(b"Encrypt").and_then(Object::as_reference) {
        Ok(id) if d.is_encrypted() => id,
        _ => {
            out.push(Failure { inv: "encrypt-succeeds", detail: "document is not marked encrypted after encrypt".into(), finding: None, hard: true });
            return out;
        }
    };
    // ciphertext differs from plaintext (>= 16 bytes, non-identity filter)
    let mut sd: Vec<String> = vec![];
    let mut md: Vec<String> = vec![];
    let mut other: Vec<String> = vec![];
    for (id, p) in &t.plain.objects {
        // object-stream containers and cross-reference streams a loaded start document still holds are
        // bookkeeping: the writer drops them and their numbers are reused
        if is_structural(p) {
            continue;
        }
        let Some(o) = d.objects.get(id) else {
            out.push(Failure { inv: "encrypt-succeeds", detail: format!("object {} {} disappeared", id.0, id.1), finding: None, hard: true });
            return out;
        };
        let same_shape = menu::zip_leaves(&t.cfg, p, o, &format!("obj({} {})", id.0, id.1), &mut |path, leaf, m, a, b| {
            // (the Contents of a signature dictionary - or of what may be one - is not "subject to a filter" under
            // ISO 32000-2 7.6.2: encrypting it and leaving it alone are both accepted, it must only come back)
            if a.len() >= 16 && m != F::Identity && a == b && leaf != Leaf::SigContents {
                if leaf == Leaf::StrInStreamDict {
                    sd.push(short_path(path));
                } else if leaf == Leaf::StrInMetadataDict && !t.cfg.em {
                    md.push(short_path(path));
                } else {
                    other.push(short_path(path));
                }
            }
        });
        if !same_shape {
            out.push(Failure { inv: "encrypt-succeeds", detail: format!("object {} {} changed shape", id.0, id.1), finding: None, hard: true });
            return out;
        }
    }
    for (id, o) in &d.objects {
        if *id != enc_id && !t.plain.objects.contains_key(id) && !is_structural(o) {
            out.push(Failure { inv: "encrypt-succeeds", detail: format!("unexpected object {} {}", id.0, id.1), finding: None, hard: true });
        }
    }
    if !sd.is_empty() {
        out.push(Failure {
            inv: "ciphertext-differs",
            detail: format!("{} string(s) inside stream dictionaries still equal their plaintext, first {}", sd.len(), sd[0]),
            finding: Some("stream-dict-strings"),
            hard: false,
        });
    }
    if !md.is_empty() {
        out.push(Failure {
            inv: "ciphertext-differs",
            detail: format!("{} string(s) inside non-stream dictionaries typed /Metadata still equal their plaintext (EncryptMetadata false), first {}", md.len(), md[0]),
            finding: Some("metadata-dict-exempt"),
            hard: false,
        });
    }
    if !other.is_empty() {
        out.push(Failure {
            inv: "ciphertext-differs",
            detail: format!("{} string(s)/stream(s) still equal their plaintext, first {}", other.len(), other[0]),
            finding: None,
            hard: false,
        });
    }
    // the encoded dictionary defines every crypt filter that is named (read by the reference handler's parser)
    if t.cfg.has_filters() {
        if let Some(Ok(enc)) = d.objects.get(&enc_id).and_then(|o| o.as_dict().ok()).map(EncDict::parse) {
            let mut used: BTreeSet<Vec<u8>> = [t.cfg.filter_name(t.cfg.stm), t.cfg.filter_name(t.cfg.strf)].into_iter().collect();
            for p in t.plain.objects.values() {
                if let Object::Stream(st) = p {
                    if let Some(Some(n)) = menu::crypt_override_name(&st.dict) {
                        used.insert(n);
                    }
                }
            }
            let missing: Vec<String> = t
                .cfg
                .cf_entries()
                .into_iter()
                .filter(|(n, _)| used.contains(n))
                .filter_map(|(n, f)| match enc.cf.get(&n) {
                    Some(cfm) if cfm.as_slice() == menu::nominal_cfm(f) => None,
                    Some(cfm) => Some(format!("/{} has CFM /{} instead of /{}", String::from_utf8_lossy(&n), String::from_utf8_lossy(cfm), String::from_utf8_lossy(menu::nominal_cfm(f)))),
                    None => Some(format!("/{} is not in CF", String::from_utf8_lossy(&n))),
                })
                .collect();
            if !missing.is_empty() {
                out.push(Failure {
                    inv: "named-filters-encoded",
                    detail: format!(
                        "crypt filters registered in the EncryptionState and named by StmF, StrF or a stream's Crypt filter: {}; CF of the written dictionary holds [{}]",
                        missing.join(", "),
                        enc.cf.keys().map(|k| format!("/{}", String::from_utf8_lossy(k))).collect::<Vec<_>>().join(" ")
                    ),
                    finding: None,
                    hard: false,
                });
            }
        }
    }
    // authenticate_* accept the two passwords
    if t.auth_probes {
        let r = t.cfg.revision();
        let absent_owner = r <= 4 && same_pw(r, &t.owner, "") && !same_pw(r, &t.user, "");
        let mut bad: Vec<String> = vec![];
        let mut probe = |what: &str, res: Result<Result<(), lopdf::Error>, String>| {
            if !matches!(res, Ok(Ok(()))) {
                bad.push(format!("{} returned {}", what, outcome_kind(&res)));
            }
        };
        probe("authenticate_user_password(user)", util::guard(|| d.authenticate_user_password(&t.user)));
        probe("authenticate_password(user)", util::guard(|| d.authenticate_password(&t.user)));
        if !absent_owner {
            probe("authenticate_owner_password(owner)", util::guard(|| d.authenticate_owner_password(&t.owner)));
            probe("authenticate_password(owner)", util::guard(|| d.authenticate_password(&t.owner)));
        }
        if !bad.is_empty() {
            out.push(Failure { inv: "authenticate-accepts", detail: bad.join("; "), finding: classify_long_password(t, &t.user).or_else(|| classify_long_password(t, &t.owner)), hard: false });
        }
    }
    // decryptable to the plaintext (this is what makes merging states on the model value sound)
    let mut c = d.clone();
    let r = try_decrypt(&mut c, &t.user);
    let problem = match &r {
        Ok(Ok(())) => diff_plain(t, &c).map(|m| format!("decrypt(user) of this state returned Ok but {}", m)),
        _ => Some(format!("decrypt(user) of this state returned {}", outcome_kind(&r))),
    };
    if let Some(p) = problem {
        out.push(Failure { inv: "encrypted-state-decryptable", detail: p, finding: classify_long_password(t, &t.user), hard: true });
    }
    out
}

// ---------------------------------------------------------------------------------------------
// transitions

struct Node {
    abs: Abs,
    reloaded: bool,
    /// the current (or last) protection of the document was put on with the state the library kept
    kept: bool,
    doc: Document,
    path: Vec<Op>,
}

type Key = (Abs, bool, bool);

struct Step {
    next: Option<Key>,
    doc: Document,
    failures: Vec<Failure>,
    outcome: String,
}

fn rejected(inv: &'static str, pre: &Document, after: &Document, kind: &str, finding: Option<&'static str>) -> Vec<Failure> {
    let mut f = vec![];
    let unchanged = cmp::digest_doc(pre) == cmp::digest_doc(after);
    if !kind.starts_with("Err(") {
        f.push(Failure { inv, detail: format!("returned {}{}", kind, if unchanged { "" } else { " and changed the document" }), finding, hard: true });
    } else if !unchanged {
        f.push(Failure { inv, detail: format!("returned {} but changed the document", kind), finding, hard: true });
    }
    f
}

fn apply_op(t: &Tuple, state: &EncryptionState, node: &Node, op: Op) -> Step {
    let r = t.cfg.revision();
    let enc = node.abs.encrypted();
    let mut d = node.doc.clone();
    match op {
        Op::Encrypt | Op::EncryptKept => {
            let kept_state = node.doc.encryption_state.clone();
            let res = if op == Op::Encrypt {
                util::guard(|| d.encrypt(state))
            } else {
                match &kept_state {
                    Some(k) => util::guard(|| d.encrypt(k)),
                    // (the explorer does not offer this transition where the library kept no state)
                    None => return Step { next: None, doc: d, failures: vec![], outcome: "not applicable".into() },
                }
            };
            let kind = outcome_kind(&res);
            if enc {
                let failures = rejected("encrypt-on-encrypted-rejected", &node.doc, &d, &kind, None);
                return Step { next: None, doc: d, failures, outcome: kind };
            }
            let inv = if op == Op::Encrypt { "encrypt-succeeds" } else { "re-encrypt-with-kept-state" };
            if !matches!(res, Ok(Ok(()))) {
                let failures = vec![Failure { inv, detail: format!("returned {}", kind), finding: None, hard: true }];
                return Step { next: None, doc: d, failures, outcome: kind };
            }
            let failures = if op == Op::EncryptKept { judge_reencrypted(t, &d) } else { check_encrypted(t, &d) };
            Step { next: Some((Abs::EncMem, node.reloaded, op == Op::EncryptKept)), doc: d, failures, outcome: kind }
        }
        Op::SaveLoad => {
            let loaded = util::save_bytes(&node.doc, t.table).and_then(|b| util::load(&b));
            if !enc {
                return match loaded {
                    Err(e) => Step {
                        next: None,
                        doc: d,
                        failures: vec![Failure { inv: "reload-keeps-plaintext", detail: e.clone(), finding: None, hard: true }],
                        outcome: "load failed".into(),
                    },
                    Ok(l) => {
                        let failures = match diff_plain(t, &l) {
                            Some(m) => vec![Failure { inv: "reload-keeps-plaintext", detail: m, finding: None, hard: true }],
                            None => vec![],
                        };
                        Step { next: Some((node.abs, true, node.kept)), doc: l, failures, outcome: "plaintext".into() }
                    }
                };
            }
            let user_empty = same_pw(r, &t.user, "");
            let owner_empty = same_pw(r, &t.owner, "");
            match loaded {
                Err(e) => Step {
                    next: None,
                    doc: d,
                    failures: vec![Failure { inv: "reload-of-encrypted", detail: format!("save+load failed: {}", e), finding: classify_reload(t, &node.doc), hard: true }],
                    outcome: "load failed".into(),
                },
                Ok(l) => {
                    if l.is_encrypted() {
                        let mut failures = vec![];
                        if let Some(m) = diff_docs_sym(&node.doc, &l) {
                            failures.push(Failure { inv: "reload-of-encrypted", detail: format!("differs from the saved state: {}", m), finding: None, hard: true });
                        } else {
                            failures = check_encrypted(t, &l);
                        }
                        Step { next: Some((Abs::EncReloaded, true, node.kept)), doc: l, failures, outcome: "still encrypted".into() }
                    } else {
                        let plain_diff = diff_plain(t, &l);
                        let mut failures = vec![];
                        if !(user_empty || owner_empty) {
                            failures.push(Failure {
                                inv: "reload-of-encrypted",
                                detail: format!(
                                    "the loader opened the document with the empty password although neither password is empty{}",
                                    if plain_diff.is_some() { " (and the content is not the plaintext)" } else { "" }
                                ),
                                finding: classify_reload(t, &node.doc),
                                hard: true,
                            });
                        } else if let Some(m) = plain_diff {
                            failures.push(Failure {
                                inv: "reload-of-encrypted",
                                detail: format!("auto-decrypted on load but not to the plaintext: {}", m),
                                finding: classify_reload(t, &node.doc),
                                hard: true,
                            });
                        }
                        let abs = if user_empty { Abs::DecUser } else { Abs::DecOwner };
                        Step { next: Some((abs, true, node.kept)), doc: l, failures, outcome: "auto-decrypted".into() }
                    }
                }
            }
        }
        Op::DecUser | Op::DecOwner => {
            let pw = if op == Op::DecUser { &t.user } else { &t.owner };
            let res = try_decrypt(&mut d, pw);
            let kind = outcome_kind(&res);
            if !enc {
                let failures = rejected("decrypt-on-unencrypted-rejected", &node.doc, &d, &kind, None);
                return Step { next: None, doc: d, failures, outcome: kind };
            }
            let inv = if op == Op::DecUser { "decrypt-user-restores" } else { "decrypt-owner-restores" };
            let abs = if op == Op::DecUser { Abs::DecUser } else { Abs::DecOwner };
            // an empty owner password next to a non-empty user password means "no owner password"
            // (Algorithm 3 step a): rejecting it is as acceptable as opening the document with it
            let absent_owner = op == Op::DecOwner && r <= 4 && same_pw(r, &t.owner, "") && !same_pw(r, &t.user, "");
            let problem = match &res {
                Ok(Ok(())) => diff_plain(t, &d).map(|m| format!("returned Ok but {}", m)),
                Ok(Err(_))
                    if absent_owner
                        && cmp::digest_doc(&node.doc) == cmp::digest_doc(&d)
                        && !matches!(util::guard(|| node.doc.authenticate_password(pw)), Ok(Ok(()))) =>
                {
                    return Step { next: None, doc: d, failures: vec![], outcome: format!("{} (absent owner password)", kind) };
                }
                _ => Some(format!(
                    "returned {}{}",
                    kind,
                    if cmp::digest_doc(&node.doc) == cmp::digest_doc(&d) { "" } else { " and left the document partly processed" }
                )),
            };
            match problem {
                None => {
                    // Document::encryption_state: "the parameters that were used to decrypt this document if the
                    // document has been decrypted"
                    let failures = if d.encryption_state.is_some() {
                        vec![]
                    } else {
                        vec![Failure { inv: "kept-state-present", detail: "decrypt returned Ok and Document::encryption_state is None".into(), finding: None, hard: false }]
                    };
                    Step { next: Some((abs, node.reloaded, node.kept)), doc: d, failures, outcome: kind }
                }
                Some(p) => {
                    let finding = if op == Op::DecOwner { classify_owner_key(t, &node.doc, pw) } else { None }.or_else(|| classify_long_password(t, pw));
                    Step { next: None, doc: d, failures: vec![Failure { inv, detail: p, finding, hard: true }], outcome: kind }
                }
            }
        }
        Op::DecWrong1 | Op::DecWrong2 => {
            let pw = if op == Op::DecWrong1 { &t.wrong1 } else { &t.wrong2 };
            let res = try_decrypt(&mut d, pw);
            let kind = outcome_kind(&res);
            if !enc {
                let failures = rejected("decrypt-on-unencrypted-rejected", &node.doc, &d, &kind, None);
                return Step { next: None, doc: d, failures, outcome: kind };
            }
            let mut failures = rejected("wrong-password-rejected", &node.doc, &d, &kind, None);
            // deterministic part of "rejected": the password must not authenticate. (With a wrongly
            // derived key an AES document may by chance fail on its first object and stay unchanged.)
            if failures.is_empty() && matches!(util::guard(|| node.doc.authenticate_password(pw)), Ok(Ok(()))) {
                failures.push(Failure {
                    inv: "wrong-password-rejected",
                    detail: format!("authenticate_password accepts it; decrypt returned {}", kind),
                    finding: None,
                    hard: true,
                });
            }
            if !failures.is_empty() {
                let f = classify_collapse_accept(t, &node.doc, pw);
                for x in failures.iter_mut() {
                    x.finding = f;
                }
            }
            Step { next: None, doc: d, failures, outcome: kind }
        }
    }
}

// ---------------------------------------------------------------------------------------------
// exploration

fn case_json(t: &Tuple, path: &[Op]) -> Value {
    json!({
        "doc": t.kind.name(),
        "config": t.cfg.to_json(),
        "pair": t.pair,
        "user": t.user,
        "owner": t.owner,
        "wrong1": t.wrong1,
        "wrong2": t.wrong2,
        "perms": t.perms,
        "table": t.table,
        "id_shape": t.id_shape.name(),
        "ladder_depth": t.depth,
        "in_memory_only": t.in_memory_only,
        "auth_probes": t.auth_probes,
        "path": path.iter().map(|o| o.name()).collect::<Vec<_>>(),
        "plain": doc_to_json(&t.plain),
    })
}

fn tuple_from_case(v: &Value) -> Tuple {
    let cfg = Config::from_json(&v["config"]);
    let kind = DocKind::from_name(v["doc"].as_str().unwrap_or("page"));
    let plain = if v.get("plain").map(|p| p.is_object()).unwrap_or(false) {
        doc_from_json(&v["plain"])
    } else {
        menu::build_doc(kind, &cfg, &menu::id_of_len(16), false)
    };
    Tuple {
        kind,
        cfg,
        pair: v["pair"].as_str().unwrap_or("").to_string(),
        user: v["user"].as_str().unwrap_or("").to_string(),
        owner: v["owner"].as_str().unwrap_or("").to_string(),
        wrong1: v["wrong1"].as_str().unwrap_or("").to_string(),
        wrong2: v["wrong2"].as_str().unwrap_or("").to_string(),
        perms: v["perms"].as_u64().unwrap_or(0),
        table: v["table"].as_bool().unwrap_or(true),
        id_shape: IdShape::from_name(v["id_shape"].as_str().unwrap_or("hex")),
        depth: v["ladder_depth"].as_u64().unwrap_or(0) as usize,
        in_memory_only: v["in_memory_only"].as_bool().unwrap_or(false),
        auth_probes: v["auth_probes"].as_bool().unwrap_or(true),
        plain,
    }
}

type Sig = BTreeSet<(String, String)>;

fn signature(f: &[Failure]) -> Sig {
    f.iter().map(|x| (x.inv.to_string(), x.finding.unwrap_or("-").to_string())).collect()
}

/// Execute `path` from the plaintext document on the real code; returns the failures of the last step.
fn run_path(t: &Tuple, path: &[Op]) -> Result<Vec<Failure>, String> {
    let state = menu::build_state(&t.cfg, &t.plain, &t.user, &t.owner, t.perms)?;
    let mut node = Node { abs: Abs::Plain, reloaded: false, kept: false, doc: t.plain.clone(), path: vec![] };
    for (i, op) in path.iter().enumerate() {
        let step = apply_op(t, &state, &node, *op);
        if i + 1 == path.len() {
            return Ok(step.failures);
        }
        if step.failures.iter().any(|f| f.hard) {
            return Err(format!("step {} ({}) already fails: {:?}", i, op.name(), step.failures));
        }
        if let Some((abs, reloaded, kept)) = step.next {
            node = Node { abs, reloaded, kept, doc: step.doc, path: vec![] };
        }
    }
    Ok(vec![])
}

/// The real documents around a failing transition. lopdf draws IVs, salts and paddings at random when it
/// encrypts, so a failure is a deterministic function of these documents, not of the path that led to them.
struct Artefact<'a> {
    abs: Abs,
    reloaded: bool,
    kept: bool,
    op: Op,
    pre: &'a Document,
    /// result of a successful `encrypt` (the only randomised transition)
    post: Option<&'a Document>,
}

/// Re-evaluate a failing transition on the captured documents.
fn judge(t: &Tuple, state: &EncryptionState, a: &Artefact) -> Vec<Failure> {
    match a.post {
        Some(post) if a.op == Op::Encrypt && !a.abs.encrypted() => check_encrypted(t, post),
        // (a document re-encrypted with the kept state: the captured result is judged; the kept state itself is
        // not part of a replay file)
        Some(post) if a.op == Op::EncryptKept && !a.abs.encrypted() => judge_reencrypted(t, post),
        _ => apply_op(t, state, &Node { abs: a.abs, reloaded: a.reloaded, kept: a.kept, doc: a.pre.clone(), path: vec![] }, a.op).failures,
    }
}

/// The checks `apply_op` makes on the result of `encrypt(kept state)`, on a captured document.
fn judge_reencrypted(t: &Tuple, post: &Document) -> Vec<Failure> {
    let r = t.cfg.revision();
    let inv = "re-encrypt-with-kept-state";
    let mut failures = check_encrypted(t, post);
    if failures.is_empty() && !same_pw(r, &t.user, &t.owner) && !(r <= 4 && same_pw(r, &t.owner, "")) {
        let mut c = post.clone();
        let ro = try_decrypt(&mut c, &t.owner);
        let problem = match &ro {
            Ok(Ok(())) => diff_plain(t, &c),
            _ => Some(outcome_kind(&ro)),
        };
        if let Some(p) = problem {
            failures.push(Failure { inv, detail: format!("decrypt(owner) of the re-encrypted document: {}", p), finding: classify_long_password(t, &t.owner), hard: true });
        }
    }
    for f in failures.iter_mut() {
        if f.inv == "encrypt-succeeds" || f.inv == "encrypted-state-decryptable" {
            f.inv = inv;
        }
    }
    failures
}

fn invariants(f: &[Failure]) -> BTreeSet<String> {
    f.iter().map(|x| x.inv.to_string()).collect()
}

fn abs_from_name(s: &str) -> Abs {
    [Abs::Plain, Abs::EncMem, Abs::EncReloaded, Abs::DecUser, Abs::DecOwner].into_iter().find(|a| a.name() == s).unwrap_or(Abs::Plain)
}

#[derive(Default)]
struct Stats {
    states: u64,
    transitions: u64,
    traces: u64,
    outcomes: HashMap<String, u64>,
    reached_encrypted: bool,
}

fn explore(run: &Run, t: &Tuple) -> Stats {
    let mut st = Stats::default();
    let state = match menu::build_state(&t.cfg, &t.plain, &t.user, &t.owner, t.perms) {
        Ok(s) => s,
        Err(e) => {
            // refusing to encrypt with a password that revision <= 4 cannot represent is a legitimate
            // answer: the property is then vacuous for this tuple
            if t.cfg.revision() <= 4 && (!pdfdoc_encodable(&t.user) || !pdfdoc_encodable(&t.owner)) {
                run.add("tuples_refused_unencodable_password", 1);
            } else if t.cfg.revision() <= 4 && !t.id_shape.usable() {
                // Algorithm 2 (R <= 4) hashes the first element of /ID: without one there is nothing to derive the
                // key from, and refusing is a legitimate answer (revisions 5 and 6 never use the identifier)
                run.add("tuples_refused_no_usable_file_identifier", 1);
            } else {
                run.fail(None, case_json(t, &[]), &e, "EncryptionState can be built for a legal configuration");
            }
            return st;
        }
    };
    run.eval(1);
    let mut seen: HashSet<Key> = HashSet::new();
    seen.insert((Abs::Plain, false, false));
    let mut frontier = vec![Node { abs: Abs::Plain, reloaded: false, kept: false, doc: t.plain.clone(), path: vec![] }];
    for _depth in 0..DEPTH {
        let mut next = vec![];
        for node in &frontier {
            for op in OPS {
                // a document nested deeper than the reader accepts cannot be written and read back
                if op == Op::SaveLoad && t.in_memory_only {
                    continue;
                }
                // there is a kept state only after a decrypt (by the caller or by the loader)
                if op == Op::EncryptKept && node.doc.encryption_state.is_none() {
                    continue;
                }
                st.transitions += 1;
                run.eval(1);
                let step = apply_op(t, &state, node, op);
                *st.outcomes.entry(format!("{} --{}--> {}", node.abs.name(), op.name(), step.outcome)).or_insert(0) += 1;
                let mut path = node.path.clone();
                path.push(op);
                if step.failures.is_empty() {
                    st.traces += 1;
                } else {
                    // replay discipline: the failing transition is re-evaluated twice on the captured documents
                    // (the state before it and, for encrypt, the encrypted document lopdf produced). Re-running
                    // the path would draw new random salts/IVs; a failure that depends on them is still a
                    // violation and the captured document is its witness.
                    let produced = (op == Op::Encrypt || op == Op::EncryptKept) && !node.abs.encrypted() && step.outcome == "Ok";
                    let art = Artefact { abs: node.abs, reloaded: node.reloaded, kept: node.kept, op, pre: &node.doc, post: if produced { Some(&step.doc) } else { None } };
                    let sig = signature(&step.failures);
                    let mut findings_stable = true;
                    for _ in 0..2 {
                        let again = judge(t, &state, &art);
                        if invariants(&again) != invariants(&step.failures) {
                            eprintln!(
                                "MACHINERY: the same captured documents give different outcomes: {} first {:?} again {:?}",
                                case_json(t, &path)["path"],
                                sig,
                                signature(&again)
                            );
                            std::process::exit(3);
                        }
                        // the classifier encrypts afresh for its neutralised variants: if its answer is not
                        // stable the case stays unclassified
                        findings_stable &= signature(&again) == sig;
                    }
                    for f in &step.failures {
                        let mut cj = case_json(t, &path);
                        // (a replay file cannot carry the kept state: when encrypt(kept state) itself fails the replay
                        // executes the path afresh instead of judging captured documents)
                        if !(op == Op::EncryptKept && art.post.is_none()) {
                            cj["artefact"] = json!({
                                "abstract_state": node.abs.name(), "reloaded": node.reloaded, "kept": node.kept, "transition": op.name(),
                                "before": doc_to_json(art.pre), "after_encrypt": art.post.map(doc_to_json),
                            });
                        }
                        run.fail(if findings_stable { f.finding } else { None }, cj, &format!("[{}] after {}: {}", f.inv, op.name(), f.detail), expected_text(f.inv));
                    }
                }
                if step.failures.iter().any(|f| f.hard) {
                    continue;
                }
                if let Some(key) = step.next {
                    if key.0.encrypted() {
                        st.reached_encrypted = true;
                    }
                    // quick bound, revision 6: a document re-protected with the kept state is judged (both passwords
                    // open it) but not explored further - revision 5 runs the same code with a cheaper hash and is
                    // explored in full
                    let leaf = key.2 && t.cfg.revision() == 6 && !run.thorough;
                    if seen.insert(key) && !leaf {
                        next.push(Node { abs: key.0, reloaded: key.1, kept: key.2, doc: step.doc, path });
                    }
                }
            }
        }
        frontier = next;
    }
    st.states = seen.len() as u64;
    st
}

struct Spec {
    kind: DocKind,
    cfg: Config,
    pair: usize,
    perms: u64,
    table: bool,
    id_shape: IdShape,
    depth: usize,
}

/// Ladder depths of the two deep documents: the deepest nesting the reader accepts (measured), and a depth
/// far beyond it that still covers 256, 512, 1000 and 1024.
#[derive(Clone, Copy)]
struct Depths {
    loadable: usize,
    memory: usize,
}

const DEEP_MEMORY_DEPTH: usize = 1100;

/// Largest ladder depth for which the deep document survives save_to + load_mem unchanged.
fn measure_reader_limit() -> usize {
    let mut best = 0;
    for d in 64..=200 {
        let doc = menu::build_deep(DocKind::DeepLoadable, d, &menu::id_of_len(16));
        let ok = [true, false].iter().all(|table| match util::save_bytes(&doc, *table).and_then(|b| util::load(&b)) {
            Ok(l) => diff_docs_sym(&doc, &l).is_none(),
            Err(_) => false,
        });
        if ok {
            best = d;
        } else if best > 0 {
            break;
        }
    }
    best
}

/// Configurations the file-identifier shapes are crossed with: one per key-derivation variant.
fn id_family_configs() -> Vec<Config> {
    use vharness::refcrypt::menu::Ver;
    menu::configs()
        .into_iter()
        .filter(|c| match c.ver {
            Ver::V1 => true,
            Ver::V2(b) => b == 40 || b == 128,
            Ver::V4 => c.stm == c.strf && c.stm != F::Identity,
            Ver::R5 => true,
            Ver::V5 => c.stm == F::Aes256 && c.strf == F::Aes256,
        })
        .collect()
}

fn main_kinds() -> Vec<DocKind> {
    let mut v = DocKind::C05_ALL.to_vec();
    v.push(DocKind::CryptArray);
    v.push(DocKind::CryptBare);
    v
}

/// Every password pair a `Spec` can name: the 9 pairs of the main product, then (revisions 5 and 6 only) the pairs
/// with a character across byte 127 and the long non-Latin pairs.
fn all_pairs() -> Vec<(&'static str, String, String)> {
    let mut v = menu::password_pairs();
    v.extend(menu::straddling_pairs());
    v.extend(menu::long_nonlatin_pairs());
    v.extend(menu::pdfdoc_special_pairs());
    v
}

/// index range (in `all_pairs`) of the long passwords for revisions 5 and 6
fn long_pair_range() -> std::ops::Range<usize> {
    let first = menu::password_pairs().len();
    first..first + menu::straddling_pairs().len() + menu::long_nonlatin_pairs().len()
}

/// What is left of a password when every character outside printable ASCII is dropped - offered as a WRONG password in
/// the PDFDocEncoding family (None when that is the user or the owner password under the standard's equivalence).
fn stripped_wrong(r: i64, pw: &str, user: &str, owner: &str) -> Option<String> {
    let s: String = pw.chars().filter(|c| (' '..='~').contains(c)).collect();
    if same_pw(r, &s, user) || same_pw(r, &s, owner) {
        None
    } else {
        Some(s)
    }
}

fn count_strings(d: &Document) -> u64 {
    fn go(o: &Object) -> u64 {
        match o {
            Object::String(..) => 1,
            Object::Array(a) => a.iter().map(go).sum(),
            Object::Dictionary(d) => d.iter().map(|(_, x)| go(x)).sum(),
            Object::Stream(s) => s.dict.iter().map(|(_, x)| go(x)).sum(),
            _ => 0,
        }
    }
    d.objects.values().map(go).sum()
}

fn is_sized(kind: DocKind) -> bool {
    matches!(kind, DocKind::BigStrings | DocKind::HugeStrings)
}

fn specs(run: &Run, depths: Depths) -> (Vec<Spec>, u64) {
    let configs = menu::configs();
    let pairs = menu::password_pairs();
    let perms = menu::perm_menu();
    let mut out = vec![];
    let mut rest: u64 = 0;
    const M: u64 = 97;
    for (ci, cfg) in configs.iter().enumerate() {
        for pi in 0..pairs.len() {
            for (ki, kind) in main_kinds().iter().enumerate() {
                if kind.needs_filters() && !cfg.has_filters() {
                    continue;
                }
                // revision 6 costs ~0.5 CPU-s per tuple (Algorithm 2.B runs ~20 times): the quick bound takes
                // every third document per (configuration, password pair) and the thorough bound one
                // cross-reference format per tuple; everything else is the full product
                let r6 = cfg.revision() == 6;
                for (mi, p) in perms.iter().enumerate() {
                    for table in [true, false] {
                        let parity = table == ((ci + pi + ki) % 2 == 0);
                        if r6 && !parity {
                            continue;
                        }
                        // revision 6, thorough bound: permissions all, none and one single flag in rotation
                        if r6 && mi >= 2 && mi != 2 + (ci + pi + ki) % 8 {
                            continue;
                        }
                        // the two newer Crypt-parameter documents: quick takes three password pairs (lopdf against itself
                        // cannot see which filter was chosen, only that both directions chose the same)
                        let crypt_extra = matches!(kind, DocKind::CryptArray | DocKind::CryptBare);
                        let pair_in_quick = !crypt_extra || matches!(pairs[pi].0, "distinct" | "empty_user" | "both_empty");
                        let in_quick = mi == 0 && parity && pair_in_quick && (!r6 || (ci + pi + ki) % 3 == 0);
                        let take = if run.thorough || in_quick {
                            true
                        } else {
                            rest += 1;
                            (rest - 1) % M == run.seed % M
                        };
                        if take {
                            out.push(Spec { kind: *kind, cfg: cfg.clone(), pair: pi, perms: *p, table, id_shape: IdShape::Hex, depth: 0 });
                        }
                    }
                }
            }
        }
    }
    let all = menu::all_flags();
    // --- deep-nesting family: both ladder documents x every configuration x password pairs (nesting does not
    // interact with the password pair or the permission word: quick takes the pair with two distinct passwords and
    // the one whose empty user password makes the loader decrypt; thorough every pair), permissions = all
    for (ci, cfg) in configs.iter().enumerate() {
        for (ki, kind) in [DocKind::DeepLoadable, DocKind::DeepMemory].into_iter().enumerate() {
            // quick, the 1100-level document: one configuration per (version, stream method, string method) -
            // nesting meets the configuration only through the method applied to strings and stream bodies
            // V2 key lengths other than 40 and 128 add nothing here either
            let reduced = cfg.identity_in_cf || (cfg.has_filters() && !cfg.em) || matches!(cfg.ver, vharness::refcrypt::menu::Ver::V2(b) if b != 40 && b != 128);
            if !run.thorough && reduced {
                continue;
            }
            for (pi, pair) in pairs.iter().enumerate() {
                if !run.thorough && pair.0 != "distinct" && pair.0 != "empty_user" {
                    continue;
                }
                // revision 6, thorough: the two quick pairs and every third of the others
                if cfg.revision() == 6 && pair.0 != "distinct" && pair.0 != "empty_user" && (ci + ki + pi) % 3 != 0 {
                    continue;
                }
                let depth = if kind == DocKind::DeepLoadable { depths.loadable } else { depths.memory };
                out.push(Spec { kind, cfg: cfg.clone(), pair: pi, perms: all, table: (ci + ki + pi) % 2 == 0, id_shape: IdShape::Hex, depth });
            }
        }
    }
    // --- file-identifier family: the page document with every other shape of the trailer's /ID entry x one
    // configuration per key-derivation variant x every password pair, permissions = all
    for (ci, cfg) in id_family_configs().iter().enumerate() {
        for (si, shape) in IdShape::ALL.into_iter().enumerate() {
            if shape == IdShape::Hex {
                continue;
            }
            for pi in 0..pairs.len() {
                for (ki, kind) in [DocKind::Page, DocKind::Strings].into_iter().enumerate() {
                    // quick: the page document; revision 6 (which differs from revision 5 only in the hash) with
                    // EncryptMetadata true and three password pairs
                    let r6_quick = cfg.em && matches!(pairs[pi].0, "distinct" | "empty_user" | "both_empty");
                    if !run.thorough && (ki > 0 || (cfg.revision() == 6 && !r6_quick)) {
                        continue;
                    }
                    out.push(Spec { kind, cfg: cfg.clone(), pair: pi, perms: all, table: (ci + si + pi) % 2 == 0, id_shape: shape, depth: 0 });
                }
            }
        }
    }
    // --- extra-crypt-filter family: configurations whose CF holds more filters than StmF / StrF name (also with StmF =
    // StrF = /Identity, where a stream can only opt in) x the documents whose streams carry Crypt overrides - naming
    // every CF entry, /Identity, nothing, an unusable name; dictionary and array form - x password pairs
    let quick3 = |name: &str| matches!(name, "distinct" | "empty_user" | "both_empty");
    for (ci, cfg) in menu::configs_extra_cf().iter().enumerate() {
        let r6 = cfg.revision() == 6;
        for (ki, kind) in [DocKind::CryptNamed, DocKind::CryptUndefined, DocKind::Crypt, DocKind::CryptArray].into_iter().enumerate() {
            for (pi, pair) in pairs.iter().enumerate() {
                let in_quick = if r6 { cfg.em && ki < 2 && matches!(pair.0, "distinct" | "empty_user") } else { quick3(pair.0) };
                if !(in_quick || (run.thorough && (!r6 || quick3(pair.0)))) {
                    continue;
                }
                out.push(Spec { kind, cfg: cfg.clone(), pair: pi, perms: all, table: (ci + ki + pi) % 2 == 0, id_shape: IdShape::Hex, depth: 0 });
            }
        }
    }
    // --- key-name family: strings under key names that look special (Contents, ID, O, U, Perms, Cert, Filter, Encrypt,
    // ...), literal and hexadecimal, in ordinary dictionaries at every placement; real and doubtful signature
    // dictionaries x one configuration per key-derivation variant x password pairs
    for (ci, cfg) in id_family_configs().iter().enumerate() {
        let r6 = cfg.revision() == 6;
        for (ki, kind) in [DocKind::KeyNames, DocKind::SigDict, DocKind::SigAmbiguous].into_iter().enumerate() {
            for (pi, pair) in pairs.iter().enumerate() {
                let in_quick = matches!(pair.0, "distinct" | "empty_user") && (!r6 || cfg.em);
                if !(in_quick || (run.thorough && (!r6 || quick3(pair.0)))) {
                    continue;
                }
                out.push(Spec { kind, cfg: cfg.clone(), pair: pi, perms: all, table: (ci + ki + pi) % 2 == 1, id_shape: IdShape::Hex, depth: 0 });
            }
        }
    }
    // --- long-password family (revisions 5 and 6): passwords of around and beyond 127 UTF-8 bytes made of 2-, 3- and
    // 4-byte characters (all-Cyrillic, all-CJK, mixed), a character across byte 127, SASLprep changing the length
    let everything = all_pairs();
    let r6_quick = ["long_cyrillic", "long_cjk", "mixed_scripts", "prep_shrinks_below_127", "cut127_3byte", "short_user_long_owner"];
    for (ci, cfg) in configs.iter().filter(|c| c.revision() >= 5 && c.em && c.stm == F::Aes256 && c.strf == F::Aes256).enumerate() {
        for (pi, pair) in everything.iter().enumerate().skip(long_pair_range().start).take(long_pair_range().len()) {
            if cfg.revision() == 6 && !run.thorough && !r6_quick.contains(&pair.0) {
                continue;
            }
            out.push(Spec { kind: DocKind::Page, cfg: cfg.clone(), pair: pi, perms: all, table: (ci + pi) % 2 == 0, id_shape: IdShape::Hex, depth: 0 });
        }
    }
    // --- string size / format / content family: strings of 2^e - 1, 2^e, 2^e + 1 bytes (e = 7..12) x {literal, hexadecimal}
    // x {printable, mixed, all-binary, escape-heavy}, each as an entry of an ordinary dictionary / array AND as the Contents
    // of a signature dictionary, x one configuration per key-derivation variant x password pairs x BOTH cross-reference
    // formats; and the same axes at 2^16 +- 1 (twelve strings) with fewer configurations
    use vharness::refcrypt::menu::Ver;
    let first3 = |name: &str| matches!(name, "distinct" | "empty_user");
    let mut sized: Vec<Spec> = vec![];
    for (ci, cfg) in id_family_configs().iter().enumerate() {
        let r6 = cfg.revision() == 6;
        // quick: one configuration per cipher the strings can meet - RC4 (V2, 128-bit), AES-128 (V4), AES-256 (revision 5, whose
        // string and stream code is that of revision 6 with a cheap password hash; revision 6 with one password pair)
        let cipher_cfg = cfg.em && (matches!(cfg.ver, Ver::V2(128) | Ver::R5 | Ver::V5) || (cfg.ver == Ver::V4 && cfg.strf == F::Aes128));
        for (pi, pair) in pairs.iter().enumerate() {
            let in_quick = cipher_cfg && (pair.0 == "distinct" || (pair.0 == "empty_user" && !r6));
            if !(in_quick || (run.thorough && (!r6 || quick3(pair.0)))) {
                continue;
            }
            for table in [true, false] {
                // both cross-reference formats with two distinct passwords (the reloaded document is still encrypted); quick: one
                // format, alternating, where the loader itself decrypts (empty user password)
                if !run.thorough && pair.0 != "distinct" && table != ((ci + pi) % 2 == 0) {
                    continue;
                }
                sized.push(Spec { kind: DocKind::BigStrings, cfg: cfg.clone(), pair: pi, perms: all, table, id_shape: IdShape::Hex, depth: 0 });
            }
            let huge_quick = cipher_cfg && cfg.ver != Ver::R5 && pair.0 == "distinct";
            if huge_quick || (run.thorough && first3(pair.0) && (cfg.em || !r6)) {
                sized.push(Spec { kind: DocKind::HugeStrings, cfg: cfg.clone(), pair: pi, perms: all, table: (ci + pi) % 2 == 0, id_shape: IdShape::Hex, depth: 0 });
            }
        }
    }
    // --- PDFDocEncoding family (revisions 2-4): passwords with the characters PDFDocEncoding places at 0x18-0x1F, 0x80-0x9E,
    // 0xA0 and the control characters - inside ASCII words, passwords made of nothing else, on either side of the 32-byte
    // cut; the WRONG passwords offered are the same passwords without those characters
    let special_first = long_pair_range().end;
    for (ci, cfg) in id_family_configs().iter().filter(|c| c.revision() <= 4 && (c.em || run.thorough)).enumerate() {
        for pi in special_first..everything.len() {
            for table in [true, false] {
                if !run.thorough && table != ((ci + pi) % 2 == 0) {
                    continue;
                }
                out.push(Spec { kind: DocKind::Page, cfg: cfg.clone(), pair: pi, perms: all, table, id_shape: IdShape::Hex, depth: 0 });
            }
        }
    }
    // the tuples of the long-string documents cost seconds each: they are spread evenly over the list (the order of the list
    // only decides which worker thread meets which tuple)
    let step = (out.len() / sized.len().max(1)).max(1);
    for (k, spec) in sized.into_iter().enumerate() {
        out.insert((k * (step + 1)).min(out.len()), spec);
    }
    (out, rest)
}

fn build_tuple(s: &Spec, thorough: bool) -> Tuple {
    let pairs = all_pairs();
    let (name, user, owner) = pairs[s.pair].clone();
    let r = s.cfg.revision();
    let special = name.starts_with("pdfdoc_");
    Tuple {
        kind: s.kind,
        cfg: s.cfg.clone(),
        pair: name.to_string(),
        wrong1: special.then(|| stripped_wrong(r, &user, &user, &owner)).flatten().unwrap_or_else(|| make_wrong1(r, &user, &owner)),
        wrong2: special.then(|| stripped_wrong(r, &owner, &user, &owner)).flatten().unwrap_or_else(|| WRONG2.to_string()),
        user,
        owner,
        perms: s.perms,
        table: s.table,
        id_shape: s.id_shape,
        depth: s.depth,
        in_memory_only: s.kind == DocKind::DeepMemory,
        auth_probes: thorough || s.cfg.revision() != 6 || s.pair >= menu::password_pairs().len(),
        plain: {
            let id0 = menu::id_of_len(16);
            let mut d = if s.kind.is_deep() { menu::build_deep(s.kind, s.depth, &id0) } else { menu::build_doc(s.kind, &s.cfg, &id0, false) };
            if s.id_shape != IdShape::Hex {
                s.id_shape.apply(&mut d, &id0);
            }
            d
        },
    }
}

fn main() {
    let run = Run::from_args("C05", "model_checking");
    util::quiet_panics();
    util::init_pool();
    util::pin_schedule();
    if let Mode::Replay(path) = run.mode.clone() {
        replay(&run, &path);
    }
    run.rule(
        "start tuples = document menu (10 documents hitting every path of encrypt_object/decrypt_object, incl. non-stream dictionaries typed /Metadata, a document loaded from an object-stream file and edited afterwards, Crypt filter parameters in the array form of /DecodeParms and Crypt filters without /DecodeParms) x handler configurations \
         (V1; V2 x 12 key lengths; V4 x {RC4,AES-128,Identity}^2 x EncryptMetadata x two ways of naming Identity; R5; V5 x {AES-256,Identity}^2) \
         x 9 password pairs x permission sets {all, none, each single flag} x cross-reference format {table, stream} (revision 6: one format per tuple, alternating, and permission sets {all, none, one single flag in rotation}), enumerated in a fixed order without repetition; from each tuple a BFS to \
         depth 4 over 7 transitions on the real Document (encrypt, encrypt with the state the library kept after a decrypt, save_to+load_mem, decrypt with the user / owner / two wrong passwords), deduplicated on (abstract state, has-passed-through-save/load, protected-with-the-kept-state); \
         plus the deep-nesting family: two documents of 'ladders' (a string at EVERY nesting depth 1..D inside arrays, dictionaries, both alternating either way, and a stream dictionary; D = the deepest nesting the reader accepts, measured at start-up, resp. D = 1100 in memory only, where save_to+load_mem is not a transition; plus a 1030-element array and a 260-entry dictionary) x every configuration x password pairs; \
         plus the extra-crypt-filter family: configurations whose CF dictionary holds MORE crypt filters than StmF / StrF name (one extra filter per CFM of the version, names sorting before / between / after the default ones; V4 x {RC4,AES-128,Identity}^2, revision 5 and V5 x {AES-256,Identity}^2, incl. StmF = StrF = /Identity where a stream can only opt in) x documents whose streams carry Crypt overrides naming EVERY CF entry, /Identity, no name, and unusable names (undefined, other case, a string, an array, null), each in the dictionary form, the one-element array form and the array form next to a second filter; after every encrypt the written encryption dictionary is read by the reference handler's parser and must define every named filter; \
         plus the key-name family: strings of 16..33 bytes in literal AND hexadecimal format under 34 key names that look special (Contents, ID, O, U, OE, UE, Perms, Cert, Filter, Encrypt, CF, ...) in ordinary dictionaries - top-level, nested, in arrays, in stream dictionaries, in dictionaries typed /XRef, /ObjStm, /Encrypt and one shaped like an encryption dictionary - which must all be encrypted; real signature dictionaries (/Type /Sig or /DocTimeStamp + /ByteRange + hexadecimal /Contents) and doubtful ones, whose Contents must come back but may or may not be encrypted (ISO 32000-2 7.6.2); \
         plus the long-password family (revisions 5, 6): 14 pairs of passwords of 126..180 UTF-8 bytes - all-Cyrillic, all-CJK, all 4-byte, mixed, a 2-/3-/4-byte character across byte 127, the cut exactly on a boundary, only the user or only the owner password long, SASLprep shrinking the password below / expanding it beyond 127 bytes; on every encrypted state authenticate_user_password / authenticate_owner_password / authenticate_password must accept the passwords; \
         plus the string size / format / content family: strings of 2^e - 1, 2^e, 2^e + 1 bytes for e = 7..12 (and, in a second document, 2^16 - 1, 2^16, 2^16 + 1) x {literal, hexadecimal} format x {printable text, text and arbitrary bytes mixed, no printable byte at all, nothing but backslashes / unbalanced parentheses / CR / LF ending in a backslash (to 1025 bytes)}, each as an entry of an ORDINARY dictionary (one of them under the key Contents) or array AND as the Contents of a signature dictionary (/Type /Sig or /DocTimeStamp + /ByteRange; an indirect object, the direct value of a field, an array element), plus signature Contents of 0, 1, 15..33 bytes in both formats x RC4-128, AES-128, AES-256 x two password pairs x BOTH cross-reference formats: every string, whatever its format in the plaintext document, must be restored byte for byte by the in-memory round trip and after save_to + load_mem (a LITERAL-format Contents of a signature dictionary is not covered by the exemption of ISO 32000-2 7.6.2, which speaks of the hexadecimal string: it may be encrypted or left alone, but it must come back; the FORMAT a string has after reloading is not compared);          plus the PDFDocEncoding password family (revisions 2-4): 10 password pairs with the characters PDFDocEncoding places at 0x18-0x1F (spacing accents), 0x80-0x9E, 0xA0 and TAB/LF/CR - inside ASCII words, passwords consisting of nothing else, only the user or only the owner password affected, such a character as the 32nd / 33rd byte - where the wrong passwords offered are the same passwords WITHOUT those characters (the per-cell sweep against the reference's own table is C06's);          plus the file-identifier family: the trailer's /ID as literal strings, with an empty first string, with one element, absent, an empty array, with an integer or a name as first element, a string instead of an array x one configuration per key-derivation variant x 9 password pairs (revisions 5/6 never use the identifier: everything must work; revisions <= 4 without a first string: lopdf may refuse to build the state); a tuple is non-trivial \
         when an encrypted state was reached; states = distinct (tuple, abstract state) pairs reached; a trace is a path whose last transition \
         satisfied every invariant",
    );
    run.assume("documents carry a 16-byte file identifier (required input of Algorithm 2 for R <= 4) except in the file-identifier family; there, for R <= 4 and an /ID whose first element is not a string, refusing to build the encryption state is accepted (ISO 32000-1 requires /ID in an encrypted document); legal key lengths only");
    run.assume("Document::encryption_state is documented as 'the parameters that were used to decrypt this document if the document has been decrypted': after a successful decrypt it must be Some, and encrypting with it must give a document both passwords open");
    run.assume("documents nested deeper than the reader accepts (measured: the largest ladder depth that survives save_to+load_mem) are explored in memory only");
    run.assume("passwords are judged by the standard's equivalence: first 32 PDFDocEncoding bytes (R <= 4), SASLprep/UTF-8 truncated to 127 bytes (R >= 5); a password with characters outside PDFDocEncoding equals only itself");
    run.assume("an empty owner password next to a non-empty user password (R <= 4) means 'no owner password': decrypt(\"\") may either open the document correctly or be rejected");
    run.assume("the loader may or may not auto-decrypt when the empty password is the user or owner password; both are accepted, garbage or a failing load is not");
    run.assume("IVs, salts and U padding are random: ciphertext is never compared, only decrypted content; the documents around every failing transition are captured and the transition is re-evaluated twice on them (same invariants required)");
    run.assume("object numbers <= 65538 in saved documents (writer cost is linear in max_id); Identity-filtered objects are not required to stay plaintext (the statement does not say so)");
    let limit = measure_reader_limit();
    if !(64..200).contains(&limit) {
        eprintln!("MACHINERY: cannot measure the nesting depth the reader accepts (got {})", limit);
        std::process::exit(3);
    }
    let depths = Depths { loadable: limit, memory: DEEP_MEMORY_DEPTH };
    run.set("reader_nesting_limit_measured", json!(limit));
    run.set("ladder_depths", json!({"within_reader_limit": depths.loadable, "in_memory_only": depths.memory, "strings_at_every_depth": true}));
    let (list, rest) = specs(&run, depths);
    let total = Mutex::new(Stats::default());
    let samples: Mutex<Vec<Value>> = Mutex::new(vec![]);
    let done = AtomicU64::new(0);
    let cpu: Mutex<BTreeMap<String, f64>> = Mutex::new(BTreeMap::new());
    util::par_for(list.len(), |i| {
        let t = build_tuple(&list[i], run.thorough);
        let t0 = std::time::Instant::now();
        let st = explore(&run, &t);
        *cpu.lock().unwrap().entry(format!("R{} {}", t.cfg.revision(), t.kind.name())).or_insert(0.0) += t0.elapsed().as_secs_f64();
        let mut g = total.lock().unwrap();
        g.states += st.states;
        g.transitions += st.transitions;
        g.traces += st.traces;
        for (k, v) in st.outcomes {
            *g.outcomes.entry(k).or_insert(0) += v;
        }
        if st.reached_encrypted {
            run.nontrivial(1);
        }
        drop(g);
        done.fetch_add(1, Ordering::Relaxed);
        if i == 0 || i == list.len() / 3 || i == list.len() - 1 || i == 2 * list.len() / 3 {
            let mut c = case_json(&t, &[]);
            c.as_object_mut().unwrap().remove("path");
            c["explored"] = json!(format!("BFS depth {} over {:?}: {} states, {} transitions", DEPTH, OPS.map(|o| o.name()), st.states, st.transitions));
            samples.lock().unwrap().push(c);
        }
    });
    let g = total.into_inner().unwrap();
    run.add_states(g.states);
    run.add_transitions(g.transitions);
    run.add_traces(g.traces);
    for s in samples.into_inner().unwrap() {
        run.sample(s);
    }
    let mut oc: Vec<(String, u64)> = g.outcomes.into_iter().collect();
    oc.sort();
    run.set("outcomes_per_transition", json!(oc.into_iter().map(|(k, v)| json!([k, v])).collect::<Vec<_>>()));
    run.set("start_tuples", json!(list.len()));
    run.set(
        "cpu_seconds_by_revision_and_document",
        json!(cpu.into_inner().unwrap().into_iter().map(|(k, v)| (k, (v * 10.0).round() / 10.0)).collect::<BTreeMap<String, f64>>()),
    );
    run.set("configurations", json!(menu::configs().len()));
    run.set(
        "documents",
        json!(main_kinds()
            .iter()
            .chain([DocKind::DeepLoadable, DocKind::DeepMemory, DocKind::CryptNamed, DocKind::CryptUndefined, DocKind::KeyNames, DocKind::SigDict, DocKind::SigAmbiguous, DocKind::BigStrings, DocKind::HugeStrings].iter())
            .map(|d| d.name())
            .collect::<Vec<_>>()),
    );
    run.set("file_identifier_shapes", json!(IdShape::ALL.iter().map(|x| x.name()).collect::<Vec<_>>()));
    let fam = |f: &dyn Fn(&Spec) -> bool| list.iter().filter(|s| f(s)).count();
    run.set("start_tuples_deep_nesting_family", json!(fam(&|s| s.kind.is_deep())));
    run.set("start_tuples_file_identifier_family", json!(fam(&|s| s.id_shape != IdShape::Hex)));
    let extra_kinds = [DocKind::CryptNamed, DocKind::CryptUndefined];
    let key_kinds = [DocKind::KeyNames, DocKind::SigDict, DocKind::SigAmbiguous];
    run.set("start_tuples_extra_crypt_filter_family", json!(fam(&|s| s.cfg.extra_cf)));
    run.set("start_tuples_extra_crypt_filter_family_overrides_naming_every_cf_entry", json!(fam(&|s| s.cfg.extra_cf && extra_kinds.contains(&s.kind))));
    run.set("configurations_with_more_crypt_filters_than_stmf_strf_name", json!(menu::configs_extra_cf().iter().map(|c| c.to_json()).collect::<Vec<_>>()));
    run.set("start_tuples_key_name_family", json!(fam(&|s| key_kinds.contains(&s.kind))));
    run.set("key_names_carrying_strings", json!(menu::KEY_MENU.to_vec()));
    run.set("start_tuples_long_password_family", json!(fam(&|s| long_pair_range().contains(&s.pair))));
    run.set("start_tuples_pdfdoc_password_family", json!(fam(&|s| s.pair >= long_pair_range().end)));
    run.set("pdfdoc_password_pairs", json!(menu::pdfdoc_special_pairs().iter().map(|p| json!([p.0, p.1, p.2])).collect::<Vec<_>>()));
    run.set("start_tuples_string_size_family", json!(fam(&|s| s.kind == DocKind::BigStrings)));
    run.set("start_tuples_string_size_family_64k", json!(fam(&|s| s.kind == DocKind::HugeStrings)));
    run.set(
        "string_size_family",
        json!({"lengths": menu::BIG_LENS.to_vec(), "lengths_64k_document": menu::HUGE_LENS.to_vec(), "formats": ["literal", "hexadecimal"],
               "contents": [menu::Fill::Printable.name(), menu::Fill::Mixed.name(), menu::Fill::Binary.name(), menu::Fill::Tricky.name()],
               "placements": ["entry of an ordinary dictionary", "array element", "Contents of a signature dictionary (indirect)", "Contents of a signature dictionary that is the direct value of a field", "Contents of a signature dictionary inside an array"],
               "strings_in_the_document": count_strings(&menu::build_doc(DocKind::BigStrings, &menu::configs()[0], &menu::id_of_len(16), false)),
               "strings_in_the_64k_document": count_strings(&menu::build_doc(DocKind::HugeStrings, &menu::configs()[0], &menu::id_of_len(16), false))}),
    );
    run.set(
        "long_password_pairs_utf8_bytes_user_owner",
        json!(all_pairs().iter().skip(menu::password_pairs().len()).map(|p| json!([p.0, utf8_prep_full(&p.1).map(|b| b.len()).unwrap_or(0), utf8_prep_full(&p.2).map(|b| b.len()).unwrap_or(0)])).collect::<Vec<_>>()),
    );
    run.set("password_pairs", json!(menu::password_pairs().iter().map(|p| p.0).collect::<Vec<_>>()));
    run.set("depth", json!(DEPTH));
    if !run.thorough {
        run.set("quick_slice", json!(format!("all tuples with permissions=all and one cross-reference format (revision 6: every third document per configuration and password pair), plus every 97th (offset seed mod 97) of the {} remaining tuples of the thorough product; the two newer Crypt-parameter documents with three password pairs; deep-nesting family: both ladder documents x one configuration per (version, stream method, string method) x the password pairs 'distinct' and 'empty_user'; string size family: RC4-128, AES-128, revision 5 x (two distinct passwords x both cross-reference formats, empty user password x one format), revision 6 with two distinct passwords, the 64 KiB document with RC4-128, AES-128 and revision 6; PDFDocEncoding password family: one cross-reference format per tuple, EncryptMetadata true; file-identifier family: page document x 8 shapes x 11 configurations x 9 password pairs (revision 6: EncryptMetadata true, three pairs); revision 6: a document re-protected with the kept state is judged but not expanded", rest)));
    }
    run.exhaustive(true);
    run.finish();
}

fn replay(run: &Run, path: &std::path::Path) -> ! {
    let case = vharness::run::read_replay(path);
    let t = tuple_from_case(&case);
    let ops: Vec<Op> = case["path"].as_array().map(|a| a.iter().filter_map(|s| s.as_str().and_then(Op::from_name)).collect()).unwrap_or_default();
    println!("path: {}", case["path"]);
    let f = if case["artefact"].is_object() {
        // judge the captured documents (lopdf is not asked to encrypt again)
        let av = &case["artefact"];
        let state = menu::build_state(&t.cfg, &t.plain, &t.user, &t.owner, t.perms).unwrap_or_else(|e| {
            eprintln!("MACHINERY: cannot build the encryption state: {}", e);
            std::process::exit(3);
        });
        let pre = doc_from_json(&av["before"]);
        let post = if av["after_encrypt"].is_object() { Some(doc_from_json(&av["after_encrypt"])) } else { None };
        let art = Artefact {
            abs: abs_from_name(av["abstract_state"].as_str().unwrap_or("")),
            reloaded: av["reloaded"].as_bool().unwrap_or(false),
            kept: av["kept"].as_bool().unwrap_or(false),
            op: av["transition"].as_str().and_then(Op::from_name).unwrap_or(Op::Encrypt),
            pre: &pre,
            post: post.as_ref(),
        };
        let (a, b) = (judge(&t, &state, &art), judge(&t, &state, &art));
        if invariants(&a) != invariants(&b) {
            eprintln!("MACHINERY: the same captured documents give different outcomes: {:?} vs {:?}", signature(&a), signature(&b));
            std::process::exit(3);
        }
        println!("(judged on the captured documents of the failing transition)");
        a
    } else {
        // no captured documents: execute the path afresh; lopdf's random salts/IVs may differ between runs
        let a = run_path(&t, &ops);
        let b = run_path(&t, &ops);
        match (a, b) {
            (Ok(x), Ok(y)) => {
                if invariants(&x) != invariants(&y) {
                    println!("note: the two executions differ ({:?} vs {:?}): the outcome depends on lopdf's random salts/IVs", signature(&x), signature(&y));
                }
                if x.is_empty() {
                    y
                } else {
                    x
                }
            }
            (x, y) => {
                eprintln!("MACHINERY: path not executable: {:?} / {:?}", x.err(), y.err());
                std::process::exit(3);
            }
        }
    };
    if f.is_empty() {
        println!("observed: every invariant holds after the last transition");
    }
    for x in &f {
        println!("observed: [{}] {} (finding: {})", x.inv, x.detail, x.finding.unwrap_or("none"));
        println!("expected: {}", expected_text(x.inv));
    }
    run.finish_replay(!f.is_empty())
}
