//! C04 - parsing untrusted bytes never panics, aborts or hangs (DESIGN §4 C04).
use lopdf::content::Content;
use lopdf::{Dictionary, Document, IncrementalDocument, Object, ObjectStream, Stream, StringFormat};
use serde_json::{json, Value};
use std::collections::{BTreeMap, HashSet};
use std::sync::Mutex;
use vharness::absdoc::abs_doc;
use vharness::choose::Chooser;
use vharness::refpdf::{self, Style};
use vharness::strict::Lexer;
use vharness::worker::{self, Case, Class, Outcome};
use vharness::{docgen, util, Mode, Run};

// ---------------------------------------------------------------------------------------------
// entry points (worker side)

/// For dictionary-carrying entry points the input is `<dict>\n<content>`; the dictionary line
/// is read with the harness's own lexer.
fn split_dict(bytes: &[u8]) -> Option<(Dictionary, Vec<u8>)> {
    let nl = bytes.iter().position(|b| *b == b'\n')?;
    let mut lx = Lexer::new(&bytes[..nl], 0);
    lx.skip_ws();
    let d = lx.dictionary(0).ok()?;
    Some((d, bytes[nl + 1..].to_vec()))
}

fn run_entry(entry: &str, bytes: &[u8]) -> String {
    match entry {
        "load" => match Document::load_mem(bytes) {
            Ok(d) => format!("ok objects={}", d.objects.len()),
            Err(e) => format!("err {}", short(&e.to_string())),
        },
        "incload" => match IncrementalDocument::load_from(bytes) {
            Ok(d) => format!("ok objects={}", d.get_prev_documents().objects.len()),
            Err(e) => format!("err {}", short(&e.to_string())),
        },
        "content" => match Content::decode(bytes) {
            Ok(c) => {
                // re-encoding what was decoded is part of the byte-level surface too
                let _ = c.encode();
                format!("ok ops={}", c.operations.len())
            }
            Err(e) => format!("err {}", short(&e.to_string())),
        },
        "stream" => match split_dict(bytes) {
            None => "trivial harness-dict".into(),
            Some((d, c)) => {
                let s = Stream { dict: d, content: c, allows_compression: true, start_position: None };
                let r = s.decompressed_content();
                let _ = s.get_plain_content();
                let _ = s.decode_content();
                match r {
                    Ok(v) => format!("ok len={}", v.len()),
                    Err(e) => format!("err {}", short(&e.to_string())),
                }
            }
        },
        "objstm" => match split_dict(bytes) {
            None => "trivial harness-dict".into(),
            Some((d, c)) => {
                let mut s = Stream { dict: d, content: c, allows_compression: true, start_position: None };
                match ObjectStream::new(&mut s) {
                    Ok(o) => format!("ok objects={}", o.objects.len()),
                    Err(e) => format!("err {}", short(&e.to_string())),
                }
            }
        },
        "xrefstm" => match split_dict(bytes) {
            None => "trivial harness-dict".into(),
            Some((d, c)) => {
                let s = Stream { dict: d, content: c, allows_compression: true, start_position: None };
                match lopdf::xref::decode_xref_stream(s) {
                    Ok((x, _)) => format!("ok entries={}", x.entries.len()),
                    Err(e) => format!("err {}", short(&e.to_string())),
                }
            }
        },
        "cmap" => {
            let mut doc = Document::with_version("1.5");
            let sid = doc.add_object(Stream::new(Dictionary::new(), bytes.to_vec()));
            let mut f = Dictionary::new();
            f.set("Type", Object::Name(b"Font".to_vec()));
            f.set("Subtype", Object::Name(b"Type0".to_vec()));
            f.set("Encoding", Object::Name(b"Identity-H".to_vec()));
            f.set("ToUnicode", Object::Reference(sid));
            match f.get_font_encoding(&doc) {
                Ok(enc) => {
                    let mut n = 0;
                    for probe in [&[0u8, 1, 0, 2][..], &[0x10, 0x11, 0x12, 0xff, 0xff], &[1, 2, 3], &[0, 0, 0, 1, 0xff, 0xff, 0xff, 0xff, 9]] {
                        if let Ok(t) = Document::decode_text(&enc, probe) {
                            n += t.len();
                        }
                    }
                    // every 1- and 2-byte code in a window around the seeds' codes
                    for a in 0..=0x20u8 {
                        let _ = Document::decode_text(&enc, &[a]);
                        let _ = Document::decode_text(&enc, &[0, a]);
                        let _ = Document::decode_text(&enc, &[0xff, a]);
                    }
                    format!("ok decoded={}", n)
                }
                Err(e) => format!("err {}", short(&e.to_string())),
            }
        }
        "textstr" => {
            let r1 = lopdf::decode_text_string(&Object::String(bytes.to_vec(), StringFormat::Literal));
            // the one-byte tables through the public text API
            for encname in ["StandardEncoding", "MacRomanEncoding", "MacExpertEncoding", "WinAnsiEncoding", "PDFDocEncoding"] {
                let mut f = Dictionary::new();
                f.set("Type", Object::Name(b"Font".to_vec()));
                f.set("Encoding", Object::Name(encname.as_bytes().to_vec()));
                let doc = Document::new();
                if let Ok(enc) = f.get_font_encoding(&doc) {
                    if let Ok(t) = Document::decode_text(&enc, bytes) {
                        let _ = Document::encode_text(&enc, &t);
                    }
                }
            }
            match r1 {
                Ok(s) => format!("ok chars={}", s.chars().count()),
                Err(e) => format!("err {}", short(&e.to_string())),
            }
        }
        _ => "trivial unknown-entry".into(),
    }
}

fn short(s: &str) -> String {
    s.chars().take(60).collect()
}

// ---------------------------------------------------------------------------------------------
// seeds

struct Seed {
    entry: &'static str,
    name: String,
    bytes: Vec<u8>,
    /// byte-level edits at every position (small seeds) or only token-level edits
    byte_level: bool,
}

fn dict_line(e: &str, content: &[u8]) -> Vec<u8> {
    let mut v = e.as_bytes().to_vec();
    v.push(b'\n');
    v.extend_from_slice(content);
    v
}

fn flate(data: &[u8]) -> Vec<u8> {
    use std::io::Write;
    let mut e = flate2::write::ZlibEncoder::new(Vec::new(), flate2::Compression::default());
    e.write_all(data).unwrap();
    e.finish().unwrap()
}

const CMAP_SEED: &str = "/CIDInit /ProcSet findresource begin\n12 dict begin\nbegincmap\n/CIDSystemInfo << /Registry (Adobe) /Ordering (UCS) /Supplement 0 >> def\n/CMapName /Adobe-Identity-UCS def\n/CMapType 2 def\n1 begincodespacerange\n<0000> <FFFF>\nendcodespacerange\n2 beginbfchar\n<0001> <0048>\n<0002> <D83DDE00>\nendbfchar\n2 beginbfrange\n<0010> <0012> <0041>\n<0013> <0014> [<0061> <00620063>]\nendbfrange\nendcmap\nCMapName currentdict /CMap defineresource pop\nend\nend\n";

fn seeds() -> Vec<Seed> {
    let mut v = vec![];
    // (a) files from the reference writer: every xref flavour, object streams, indirect lengths, predictors
    let variants: Vec<(&str, usize, Style, Vec<(&str, usize)>)> = vec![
        ("table-plain", 3, Style::Table, vec![]),
        ("table-sparse", 1, Style::Table, vec![("xref.sections", 1)]),
        ("table-crlf-indirectlen", 5, Style::Table, vec![("stream.length", 2), ("eol.endobj", 1), ("xref.entry_eol", 2)]),
        ("stream-plain", 3, Style::Stream, vec![]),
        ("stream-objstm", 3, Style::Stream, vec![("os.partition", 1)]),
        ("stream-objstm2-flate", 1, Style::Stream, vec![("os.partition", 2), ("os.filter", 1), ("xs.filter", 1)]),
        ("stream-predictor", 3, Style::Stream, vec![("xs.filter", 2), ("os.partition", 1), ("os.filter", 1)]),
        ("stream-a85-len-in-objstm", 5, Style::Stream, vec![("xs.filter", 3), ("stream.length", 3), ("xs.w", 2)]),
        ("stream-index-absent", 6, Style::Stream, vec![("xs.index", 1), ("xs.w", 1)]),
        ("stream-parms-array", 3, Style::Stream, vec![("xs.filter", 4)]),
        ("junk-prefix", 6, Style::Table, vec![("file.junk", 1)]),
        ("strings", 0, Style::Table, vec![("str.literal", 3), ("str.hex", 2), ("name", 1)]),
    ];
    for (name, k, style, classes) in variants {
        let spec = abs_doc(k, style);
        let mut ch = Chooser::with_classes(&classes);
        let (bytes, _) = refpdf::write(&spec, &mut ch);
        let small = bytes.len() <= 1400;
        v.push(Seed { entry: "load", name: format!("ref:{}", name), bytes, byte_level: small });
    }
    // a two-revision file (Prev chain) from the reference writer and from lopdf's own writer
    {
        let mut spec = abs_doc(6, Style::Table);
        let mut s2 = spec.sections[0].clone();
        s2.objects.insert((2, 0), Object::Integer(2));
        spec.sections.push(s2);
        let (bytes, _) = refpdf::write(&spec, &mut Chooser::new());
        v.push(Seed { entry: "load", name: "ref:prev-chain-table".into(), bytes: bytes.clone(), byte_level: true });
        v.push(Seed { entry: "incload", name: "ref:prev-chain-table".into(), bytes, byte_level: false });
        let mut spec = abs_doc(6, Style::Stream);
        let mut s2 = spec.sections[0].clone();
        s2.objects.insert((2, 0), Object::string_literal("two"));
        s2.objstm = Some(1);
        spec.sections.push(s2);
        let (bytes, _) = refpdf::write(&spec, &mut Chooser::new());
        v.push(Seed { entry: "load", name: "ref:prev-chain-stream".into(), bytes, byte_level: true });
    }
    let docs = docgen::start_docs();
    for (i, table) in [(0usize, true), (1, false)] {
        let bytes = util::save_bytes(&docs[i], table).unwrap();
        v.push(Seed { entry: "load", name: format!("lopdf-saved:{}", i), bytes, byte_level: false });
    }
    // an encrypted file (encryption dictionary present): built by hand, parameters need not be valid
    {
        let mut spec = abs_doc(6, Style::Table);
        let mut e = Dictionary::new();
        e.set("Filter", Object::Name(b"Standard".to_vec()));
        e.set("V", Object::Integer(2));
        e.set("R", Object::Integer(3));
        e.set("Length", Object::Integer(128));
        e.set("O", Object::String(vec![0x41; 32], StringFormat::Hexadecimal));
        e.set("U", Object::String(vec![0x42; 32], StringFormat::Hexadecimal));
        e.set("P", Object::Integer(-1340));
        spec.sections[0].objects.insert((9, 0), Object::Dictionary(e));
        spec.sections[0].trailer.set("Encrypt", Object::Reference((9, 0)));
        spec.sections[0].trailer.set("ID", Object::Array(vec![Object::string_literal("0123456789abcdef"), Object::string_literal("0123456789abcdef")]));
        let (bytes, _) = refpdf::write(&spec, &mut Chooser::new());
        v.push(Seed { entry: "load", name: "ref:encrypt-dict".into(), bytes, byte_level: true });
    }
    // files encrypted by the reference security handler with an EMPTY user password: Reader::read then
    // authenticates and decrypts every string and stream while loading (decrypt-on-load path)
    for (name, bytes, small) in encrypted_seeds() {
        v.push(Seed { entry: "load", name: format!("ref-encrypted:{}", name), bytes, byte_level: small });
    }
    // repository assets (token-level only)
    for a in ["example.pdf", "Incremental.pdf", "unicode.pdf"] {
        if let Ok(bytes) = std::fs::read(format!("/repo/assets/{}", a)) {
            if !bytes.is_empty() {
                v.push(Seed { entry: "load", name: format!("asset:{}", a), bytes: bytes.clone(), byte_level: a == "example.pdf" });
                if a == "Incremental.pdf" {
                    v.push(Seed { entry: "incload", name: format!("asset:{}", a), bytes, byte_level: false });
                }
            }
        }
    }
    // (b) per-entry-point seeds
    v.push(Seed {
        entry: "content",
        name: "text+graphics".into(),
        bytes: b"q 1 0 0 1 72.5 -720 cm BT /F1 12 Tf (Hello \\(x\\)) Tj [(a) -120 <0041>] TJ ET\n0.5 g 10 10 100 50 re f* Q % c\n/Im1 Do".to_vec(),
        byte_level: true,
    });
    v.push(Seed {
        entry: "content",
        name: "inline-image".into(),
        bytes: b"q BI /W 2 /H 2 /CS /RGB /BPC 8 ID \x00\x01\x02\x03\x04\x05\x06\x07\x08\x09\x0a\x0b EI Q\nBI /Width 4 /Height 1 /ColorSpace /DeviceGray /BitsPerComponent 1 ID \xf0 EI".to_vec(),
        byte_level: true,
    });
    v.push(Seed { entry: "content", name: "dicts".into(), bytes: b"/OC /MC0 BDC << /A [1 2 (s)] /B << /C true >> >> DP null false EMC".to_vec(), byte_level: true });
    let plain = b"Hello PDF stream, hello predictor rows 0123456789";
    v.push(Seed { entry: "stream", name: "flate".into(), bytes: dict_line("<</Filter/FlateDecode>>", &flate(plain)), byte_level: true });
    {
        let mut rows = vec![];
        for (i, c) in plain.chunks(7).enumerate() {
            rows.push((i % 5) as u8);
            let mut r = c.to_vec();
            r.resize(7, 0);
            rows.extend(r);
        }
        v.push(Seed {
            entry: "stream",
            name: "flate-predictor".into(),
            bytes: dict_line("<</Filter/FlateDecode/DecodeParms<</Predictor 15/Columns 7/Colors 1/BitsPerComponent 8>>>>", &flate(&rows)),
            byte_level: true,
        });
        v.push(Seed {
            entry: "stream",
            name: "predictor-params".into(),
            bytes: dict_line("<</Filter[/ASCII85Decode/FlateDecode]/DecodeParms[null<</Predictor 12/Columns 7/Colors 2/BitsPerComponent 16>>]>>", &refpdf::ascii85_encode(&flate(&rows))),
            byte_level: false,
        });
    }
    v.push(Seed { entry: "stream", name: "ascii85".into(), bytes: dict_line("<</Filter/ASCII85Decode>>", &refpdf::ascii85_encode(plain)), byte_level: true });
    v.push(Seed {
        entry: "stream",
        name: "lzw".into(),
        bytes: dict_line("<</Filter/LZWDecode/DecodeParms<</EarlyChange 0>>>>", &[0x80, 0x0b, 0x60, 0x50, 0x22, 0x0c, 0x0c, 0x85, 0x01]),
        byte_level: true,
    });
    v.push(Seed {
        entry: "objstm",
        name: "objstm".into(),
        bytes: dict_line("<</Type/ObjStm/N 3/First 15>>", b"11 0 12 5 13 12 true [1 2] <</A (b)>>"),
        byte_level: true,
    });
    v.push(Seed {
        entry: "objstm",
        name: "objstm-flate".into(),
        bytes: dict_line("<</Type/ObjStm/N 2/First 10/Filter/FlateDecode>>", &flate(b"11 0 12 5 null (str)")),
        byte_level: false,
    });
    {
        let mut data = vec![];
        for (t, a, b) in [(0u8, 0u32, 65535u16), (1, 17, 0), (1, 90, 1), (2, 5, 0), (2, 5, 1)] {
            data.push(t);
            data.extend(a.to_be_bytes());
            data.extend(b.to_be_bytes());
        }
        v.push(Seed { entry: "xrefstm", name: "xrefstm".into(), bytes: dict_line("<</Type/XRef/Size 5/W[1 4 2]/Index[0 5]>>", &data), byte_level: true });
        v.push(Seed { entry: "xrefstm", name: "xrefstm-two-ranges".into(), bytes: dict_line("<</Type/XRef/Size 9/W[1 4 2]/Index[0 2 6 3]/Root 1 0 R>>", &data), byte_level: false });
    }
    v.push(Seed { entry: "cmap", name: "cmap".into(), bytes: CMAP_SEED.as_bytes().to_vec(), byte_level: true });
    // degenerate but grammatical CMaps: no mapping section, empty sections, no codespace range
    for (name, body) in [
        ("codespace-only", "1 begincodespacerange\n<0000> <FFFF>\nendcodespacerange\n"),
        ("two-codespaces-only", "2 begincodespacerange\n<00> <7F>\n<8000> <FFFF>\nendcodespacerange\n"),
        ("empty-sections", "1 begincodespacerange\n<0000> <FFFF>\nendcodespacerange\n0 beginbfchar\nendbfchar\n0 beginbfrange\nendbfrange\n"),
        ("no-codespace", "1 beginbfchar\n<0001> <0048>\nendbfchar\n"),
        ("nothing", ""),
        ("one-byte-codes", "1 begincodespacerange\n<00> <FF>\nendcodespacerange\n1 beginbfrange\n<20> <7E> <0020>\nendbfrange\n"),
        ("adjacent-identical-multiunit", "1 begincodespacerange\n<0000> <FFFF>\nendcodespacerange\n3 beginbfchar\n<0010> <00660069>\n<0011> <00660069>\n<0012> <00660069>\nendbfchar\n2 beginbfrange\n<0014> <0015> [<00410042> <00410042>]\n<0016> <0017> [<00410042> <00410042>]\nendbfrange\n"),
        ("adjacent-identical-ranges", "1 begincodespacerange\n<0000> <FFFF>\nendcodespacerange\n3 beginbfrange\n<0001> <0004> <D83DDFFC>\n<0005> <0008> <D83DDFFC>\n<0009> <000C> <FFFE>\nendbfrange\n"),
        ("mixed-lengths", "2 begincodespacerange\n<00> <7F>\n<8000> <FFFF>\nendcodespacerange\n2 beginbfchar\n<41> <0041>\n<8141> <4E00>\nendbfchar\n"),
    ] {
        let text = format!("/CIDInit /ProcSet findresource begin\n12 dict begin\nbegincmap\n/CMapName /X def\n/CMapType 2 def\n{}endcmap\nCMapName currentdict /CMap defineresource pop\nend\nend\n", body);
        v.push(Seed { entry: "cmap", name: format!("cmap-{}", name), bytes: text.into_bytes(), byte_level: false });
    }
    v.push(Seed { entry: "textstr", name: "utf16".into(), bytes: vec![0xfe, 0xff, 0x00, 0x41, 0xd8, 0x3d, 0xde, 0x00, 0x20, 0xac], byte_level: true });
    v.push(Seed { entry: "textstr", name: "utf8".into(), bytes: vec![0xef, 0xbb, 0xbf, b'a', 0xc3, 0xa9, 0xf0, 0x9f, 0x98, 0x80], byte_level: true });
    v.push(Seed { entry: "textstr", name: "pdfdoc".into(), bytes: vec![b'A', 0x18, 0x80, 0xa0, 0xad, 0xff, 0x7f, 0x09], byte_level: true });
    // language escape sequences (ESC lang [country] ESC) in UTF-16BE and UTF-8 text strings: complete, at the very end,
    // unterminated, a lone ESC as last unit
    let u16be = |t: &str| -> Vec<u8> {
        let mut b = vec![0xfe, 0xff];
        for u in t.encode_utf16() {
            b.extend_from_slice(&u.to_be_bytes());
        }
        b
    };
    for (i, t) in ["A\u{1b}en\u{1b}B", "AB\u{1b}enUS\u{1b}", "ABC\u{1b}en", "ABCD\u{1b}", "\u{1b}\u{1b}", "\u{1b}en\u{1b}x\u{1b}deDE\u{1b}y\u{1b}"].iter().enumerate() {
        v.push(Seed { entry: "textstr", name: format!("utf16-esc-{}", i), bytes: u16be(t), byte_level: true });
        let mut u8s = vec![0xef, 0xbb, 0xbf];
        u8s.extend_from_slice(t.as_bytes());
        v.push(Seed { entry: "textstr", name: format!("utf8-esc-{}", i), bytes: u8s, byte_level: true });
    }
    v
}

/// Small documents encrypted by the reference handler (deterministic IVs and salts) for every
/// handler flavour, user password empty, owner password "owner"; the last object is the
/// encryption dictionary. (name, file bytes, small enough for byte-level mutation)
fn encrypted_seeds() -> Vec<(String, Vec<u8>, bool)> {
    use vharness::refcrypt::{self as rc, Direction, EncDict, IvSource, MakeParams, Quirks};
    let mut out = vec![];
    let id0: Vec<u8> = (0u8..16).map(|i| i.wrapping_mul(17) ^ 0x5a).collect();
    let flavours: Vec<(&str, i64, i64, i64, bool, Vec<(&str, &str)>, Option<&str>, Option<&str>, bool)> = vec![
        ("v1r2-rc4-40", 1, 2, 40, false, vec![], None, None, true),
        ("v2r3-rc4-128", 2, 3, 128, true, vec![], None, None, true),
        ("v2r3-rc4-56", 2, 3, 56, true, vec![], None, None, true),
        ("v4r4-rc4", 4, 4, 128, true, vec![("StdCF", "V2")], Some("StdCF"), Some("StdCF"), true),
        ("v4r4-aesv2", 4, 4, 128, false, vec![("StdCF", "AESV2")], Some("StdCF"), Some("StdCF"), true),
        ("v4r4-aesv2-nometa", 4, 4, 128, false, vec![("StdCF", "AESV2")], Some("StdCF"), Some("StdCF"), false),
        ("v4r4-mixed-identity", 4, 4, 128, false, vec![("StdCF", "AESV2")], Some("Identity"), Some("StdCF"), true),
        ("v5r5-aesv3", 5, 5, 256, true, vec![("StdCF", "AESV3")], Some("StdCF"), Some("StdCF"), true),
        ("v5r6-aesv3", 5, 6, 256, true, vec![("StdCF", "AESV3")], Some("StdCF"), Some("StdCF"), true),
    ];
    for (name, v, r, bits, write_length, cf, stmf, strf, em) in flavours {
        for style in [Style::Table, Style::Stream] {
            let d = |e: Vec<(&str, Object)>| {
                let mut x = Dictionary::new();
                for (k, val) in e {
                    x.set(k, val);
                }
                x
            };
            let n = |s: &str| Object::Name(s.as_bytes().to_vec());
            let mut objects: BTreeMap<(u32, u16), Object> = BTreeMap::new();
            objects.insert((1, 0), Object::Dictionary(d(vec![("Type", n("Catalog")), ("Pages", Object::Reference((2, 0))), ("Metadata", Object::Reference((6, 0))), ("Lang", Object::string_literal("en"))])));
            objects.insert((2, 0), Object::Dictionary(d(vec![("Type", n("Pages")), ("Kids", Object::Array(vec![Object::Reference((3, 0))])), ("Count", Object::Integer(1))])));
            objects.insert((3, 0), Object::Dictionary(d(vec![("Type", n("Page")), ("Parent", Object::Reference((2, 0))), ("Contents", Object::Reference((4, 0)))])));
            objects.insert((4, 0), Object::Stream(Stream::new(Dictionary::new(), b"BT /F1 12 Tf (Hello) Tj ET".to_vec())));
            objects.insert((5, 0), Object::Dictionary(d(vec![("Title", Object::string_literal("secret title")), ("Nested", Object::Array(vec![Object::String(vec![0xfe, 0xff, 0, 0x41], StringFormat::Hexadecimal), Object::Dictionary(d(vec![("S", Object::string_literal(""))]))]))])));
            objects.insert((6, 0), Object::Stream(Stream::new(d(vec![("Type", n("Metadata")), ("Subtype", n("XML"))]), b"<x:xmpmeta/>".to_vec())));
            if v >= 4 {
                // a stream that names its own crypt filter
                objects.insert(
                    (7, 0),
                    Object::Stream(Stream::new(
                        d(vec![("Filter", Object::Array(vec![n("Crypt")])), ("DecodeParms", Object::Array(vec![Object::Dictionary(d(vec![("Type", n("CryptFilterDecodeParms")), ("Name", n("Identity"))]))]))]),
                        b"left alone".to_vec(),
                    )),
                );
            }
            let mp = MakeParams {
                v,
                r,
                key_bits: bits,
                write_length,
                p: -1340,
                encrypt_metadata: em,
                write_encrypt_metadata: !em,
                cf: cf.iter().map(|(a, b)| (a.as_bytes().to_vec(), b.as_bytes().to_vec())).collect(),
                stmf: stmf.map(|x| x.as_bytes().to_vec()),
                strf: strf.map(|x| x.as_bytes().to_vec()),
                file_key: core::array::from_fn(|i| (i as u8).wrapping_mul(7) ^ 0xa5),
                u_tail: [0x33; 16],
                salts: [[1; 8], [2; 8], [3; 8], [4; 8]],
                perms_tail: [9, 8, 7, 6],
            };
            let up = rc::prep(r, "").expect("empty password");
            let op = rc::prep(r, "owner").expect("owner password");
            let (dict, key) = rc::make(&mp, &id0, &up, &op);
            let enc = EncDict::parse(&dict).expect("reference reads its own dictionary");
            let rep = rc::apply(&mut objects, None, &enc, &key, Direction::Encrypt(IvSource::new([0x11; 16])), Quirks::default());
            assert!(rep.errors.is_empty(), "reference cannot encrypt its seed: {:?}", rep.errors);
            objects.insert((8, 0), Object::Dictionary(dict));
            let mut trailer = Dictionary::new();
            trailer.set("Root", Object::Reference((1, 0)));
            trailer.set("Info", Object::Reference((5, 0)));
            trailer.set("Encrypt", Object::Reference((8, 0)));
            trailer.set("ID", Object::Array(vec![Object::String(id0.clone(), StringFormat::Hexadecimal), Object::String(id0.clone(), StringFormat::Hexadecimal)]));
            let spec = refpdf::FileSpec {
                version: if v >= 5 { "2.0".into() } else { "1.6".into() },
                mark: vec![0xe2, 0xe3, 0xcf, 0xd3],
                style,
                sections: vec![refpdf::Section { objects, trailer, objstm: Some(0), omit_xref: vec![], extra_members: vec![] }],
                helper_base: None,
            };
            let (bytes, _) = refpdf::write(&spec, &mut Chooser::new());
            let small = style == Style::Table && (name == "v2r3-rc4-128" || name == "v4r4-aesv2");
            out.push((format!("{}-{}", name, if style == Style::Table { "table" } else { "stream" }), bytes, small));
        }
    }
    out
}

// ---------------------------------------------------------------------------------------------
// mutation operators: an edit replaces the byte range [start, end) by `with`

#[derive(Debug, Clone, PartialEq)]
struct Edit {
    start: usize,
    end: usize,
    with: Vec<u8>,
}

fn apply_edits(seed: &[u8], edits: &[Edit]) -> Vec<u8> {
    let mut e: Vec<&Edit> = edits.iter().collect();
    e.sort_by_key(|x| std::cmp::Reverse(x.start));
    let mut out = seed.to_vec();
    for ed in e {
        let s = ed.start.min(out.len());
        let en = ed.end.min(out.len()).max(s);
        out.splice(s..en, ed.with.iter().cloned());
    }
    out
}

const SHARP: [u8; 16] = [0, b'\n', b'\r', b' ', b'(', b')', b'<', b'>', b'[', b']', b'/', b'%', b'0', b'9', b'-', 0xff];

fn byte_edits(seed: &[u8]) -> Vec<Edit> {
    let mut v = vec![];
    for p in 0..seed.len() {
        for s in SHARP {
            if seed[p] != s {
                v.push(Edit { start: p, end: p + 1, with: vec![s] });
            }
            v.push(Edit { start: p, end: p, with: vec![s] });
        }
        for bit in 0..8 {
            v.push(Edit { start: p, end: p + 1, with: vec![seed[p] ^ (1 << bit)] });
        }
        v.push(Edit { start: p, end: p + 1, with: vec![] });
        v.push(Edit { start: p, end: seed.len(), with: vec![] }); // truncate
    }
    v
}

fn is_regular(c: u8) -> bool {
    !vharness::strict::is_ws(c) && !vharness::strict::is_delim(c)
}

/// token spans: maximal runs of regular characters, plus '/'-names, strings are left to byte edits
fn tokens(seed: &[u8]) -> Vec<(usize, usize)> {
    let mut v = vec![];
    let mut i = 0;
    while i < seed.len() {
        if is_regular(seed[i]) {
            let s = i;
            while i < seed.len() && is_regular(seed[i]) {
                i += 1;
            }
            v.push((s, i));
        } else {
            i += 1;
        }
    }
    v
}

const EXTREMES: [&str; 21] = [
    "0", "1", "-1", "2147483647", "2147483648", "4294967295", "4294967296", "9223372036854775807", "9223372036854775808",
    "100000000000000000000", "-9223372036854775808", "65535", "65536", "00000000000000000000001", "1.5", "1e5",
    // unsigned 64-bit and 32-bit ends (parsers that read into u64 / usize and add or narrow afterwards)
    "18446744073709551615", "18446744073709551614", "18446744073709551616", "4294967297", "4294967294",
];

fn token_edits(seed: &[u8]) -> Vec<Edit> {
    let toks = tokens(seed);
    let mut v = vec![];
    let ints: Vec<&(usize, usize)> = toks.iter().filter(|(s, e)| seed[*s..*e].iter().all(|c| c.is_ascii_digit() || *c == b'-' || *c == b'+')).collect();
    for (s, e) in &toks {
        // delete / duplicate the token
        v.push(Edit { start: *s, end: *e, with: vec![] });
        let mut dup = seed[*s..*e].to_vec();
        dup.push(b' ');
        dup.extend_from_slice(&seed[*s..*e]);
        v.push(Edit { start: *s, end: *e, with: dup });
        // replace by a value of another kind
        for r in [&b"null"[..], b"true", b"(s)", b"<41>", b"[]", b"<<>>", b"/N", b"1 0 R", b"[[[[[[[[[[", b"<</A<</A<</A"] {
            v.push(Edit { start: *s, end: *e, with: r.to_vec() });
        }
    }
    for (s, e) in &ints {
        for x in EXTREMES {
            v.push(Edit { start: *s, end: *e, with: x.as_bytes().to_vec() });
        }
        // every small value (offsets, counts, widths and indices near the sizes of a small input)
        if seed.len() <= 400 {
            for x in 0..=(seed.len() as i64 + 2).min(130) {
                v.push(Edit { start: *s, end: *e, with: x.to_string().into_bytes() });
            }
        }
        // its own offset, the file length and neighbours
        for x in [*s as i64, seed.len() as i64, seed.len() as i64 - 1, seed.len() as i64 + 1] {
            v.push(Edit { start: *s, end: *e, with: x.to_string().into_bytes() });
        }
        // every other integer token's value (retargets references, Prev, Length, offsets)
        let mut seen = HashSet::new();
        for (s2, e2) in ints.iter().take(40) {
            let val = &seed[*s2..*e2];
            if val != &seed[*s..*e] && seen.insert(val.to_vec()) {
                v.push(Edit { start: *s, end: *e, with: val.to_vec() });
            }
        }
    }
    // splice: move / copy a block of tokens elsewhere
    if toks.len() > 8 {
        for k in (0..toks.len() - 4).step_by(3) {
            let block = seed[toks[k].0..toks[k + 3].1].to_vec();
            let at = toks[(k * 7 + 5) % toks.len()].0;
            v.push(Edit { start: at, end: at, with: block });
        }
    }
    v
}

// ---------------------------------------------------------------------------------------------
// parametric adversarial families: (entry, label, bytes)

fn nest(open: &[u8], close: &[u8], n: usize, closed: bool) -> Vec<u8> {
    let mut v = Vec::with_capacity(n * (open.len() + close.len()));
    for _ in 0..n {
        v.extend_from_slice(open);
    }
    if closed {
        for _ in 0..n {
            v.extend_from_slice(close);
        }
    }
    v
}

fn wrap_pdf(obj: &[u8]) -> Vec<u8> {
    let mut f = b"%PDF-1.4\n".to_vec();
    let off = f.len();
    f.extend_from_slice(b"1 0 obj\n");
    f.extend_from_slice(obj);
    f.extend_from_slice(b"\nendobj\n");
    let x = f.len();
    f.extend_from_slice(format!("xref\n0 2\n0000000000 65535 f \n{:010} 00000 n \ntrailer\n<</Size 2/Root 1 0 R>>\nstartxref\n{}\n%%EOF", off, x).as_bytes());
    f
}

fn families(thorough: bool) -> Vec<(&'static str, String, Vec<u8>)> {
    let mut v: Vec<(&'static str, String, Vec<u8>)> = vec![];
    let depths: Vec<usize> = if thorough { vec![10, 100, 1000, 10_000, 100_000, 1_000_000] } else { vec![10, 100, 1000, 10_000, 100_000] };
    for d in &depths {
        for (nm, o, c) in [("array", &b"["[..], &b"]"[..]), ("dict", b"<</A", b">>"), ("paren", b"(", b")"), ("dict-array", b"<</K[", b"]>>")] {
            for closed in [true, false] {
                let body = nest(o, c, *d, closed);
                v.push(("load", format!("nest {} depth {} closed {}", nm, d, closed), wrap_pdf(&body)));
                v.push(("content", format!("nest {} depth {} closed {}", nm, d, closed), [body.clone(), b" Tj".to_vec()].concat()));
                let mut os = b"<</Type/ObjStm/N 1/First 4>>\n1 0 ".to_vec();
                os.extend_from_slice(&body);
                v.push(("objstm", format!("nest {} depth {} closed {}", nm, d, closed), os));
            }
        }
        // reference chains: object i refers to i+1
        if *d <= 10_000 {
            let mut f = b"%PDF-1.4\n".to_vec();
            let mut offs = vec![];
            for i in 1..=*d {
                offs.push(f.len());
                f.extend_from_slice(format!("{} 0 obj<</Length {} 0 R>>stream\nx\nendstream endobj\n", i, i % *d + 1).as_bytes());
            }
            let x = f.len();
            f.extend_from_slice(format!("xref\n0 {}\n0000000000 65535 f \n", d + 1).as_bytes());
            for o in offs {
                f.extend_from_slice(format!("{:010} 00000 n \n", o).as_bytes());
            }
            f.extend_from_slice(format!("trailer\n<</Size {}/Root 1 0 R>>\nstartxref\n{}\n%%EOF", d + 1, x).as_bytes());
            v.push(("load", format!("Length reference chain of {} streams (cyclic)", d), f));
        }
    }
    // many occurrences of structural keywords (searches that recurse or rescan per occurrence)
    for n in [100usize, 10_000, 100_000, 1_000_000] {
        for kw in [&b"%%EOF\n"[..], b"startxref\n0\n%%EOF\n", b"endstream\n", b"endobj\n", b"xref\n", b"trailer\n<<>>\n", b"stream\n", b"obj\n", b"%PDF-1.4\n"] {
            // a million occurrences: only the end-of-file markers in quick, every keyword in thorough
            let eof_marker = kw.starts_with(b"%%EOF") || kw.starts_with(b"startxref");
            if n > 100_000 && !eof_marker && !(thorough && (kw.starts_with(b"endstream") || kw.starts_with(b"endobj"))) {
                continue;
            }
            let body: Vec<u8> = kw.iter().cloned().cycle().take(kw.len() * n).collect();
            // as stream data inside a valid file, and as trailing / leading garbage
            let mut obj = format!("<</Length {}>>stream\n", body.len()).into_bytes();
            obj.extend_from_slice(&body);
            obj.extend_from_slice(b"\nendstream");
            v.push(("load", format!("{} x {:?} inside a stream", n, String::from_utf8_lossy(kw)), wrap_pdf(&obj)));
            let mut f = wrap_pdf(b"null");
            f.extend_from_slice(b"\n");
            f.extend_from_slice(&body);
            v.push(("load", format!("{} x {:?} after the file", n, String::from_utf8_lossy(kw)), f.clone()));
            v.push(("incload", format!("{} x {:?} after the file", n, String::from_utf8_lossy(kw)), f));
            let mut g = body.clone();
            g.extend_from_slice(&wrap_pdf(b"null"));
            v.push(("load", format!("{} x {:?} before the file", n, String::from_utf8_lossy(kw)), g));
        }
        // content streams and CMaps made of one repeated token
        for tok in [&b"q "[..], b"BT ", b"BI ", b"( ", b"<< ", b"/N ", b"1 ", b"% c\n", b"ID ", b"EI "] {
            if n > 100_000 && !thorough {
                continue;
            }
            let body: Vec<u8> = tok.iter().cloned().cycle().take(tok.len() * n).collect();
            v.push(("content", format!("{} x {:?}", n, String::from_utf8_lossy(tok)), body));
        }
        for tok in [&b"1 beginbfchar\n<01> <0041>\nendbfchar\n"[..], b"1 begincodespacerange\n<00> <FF>\nendcodespacerange\n", b"begincmap\n", b"<0001> "] {
            let body: Vec<u8> = tok.iter().cloned().cycle().take(tok.len() * n.min(100_000)).collect();
            v.push(("cmap", format!("{} x {:?}", n.min(100_000), String::from_utf8_lossy(tok)), body));
        }
    }
    // Prev cycles and self-references
    for prev in ["0", "9", "1000000", "-5", "18446744073709551616"] {
        let mut f = wrap_pdf(b"<</Type/Catalog>>");
        let s = String::from_utf8_lossy(&f).replace("/Root 1 0 R", &format!("/Root 1 0 R/Prev {}", prev));
        f = s.into_bytes();
        v.push(("load", format!("Prev {}", prev), f.clone()));
        v.push(("incload", format!("Prev {}", prev), f));
    }
    {
        // Prev pointing at its own xref section
        let base = wrap_pdf(b"null");
        let x = String::from_utf8_lossy(&base).rfind("xref\n0 2").unwrap();
        let f = String::from_utf8_lossy(&base).replace("/Root 1 0 R", &format!("/Root 1 0 R/Prev {}", x)).into_bytes();
        v.push(("load", "Prev -> own section".into(), f));
    }
    // cross-reference streams: W x Index x Size extremes
    let ws: [i64; 9] = [0, 1, 2, 4, 5, 8, 9, 1 << 31, 1 << 62];
    let idx: Vec<String> = vec!["[0 3]".into(), "[2147483648 2]".into(), "[9223372036854775807 2]".into(), "[-1 5]".into(), "[0 1 2]".into(), "[0 1048576]".into(), "[0 1099511627776]".into(), "[0 4611686018427387904]".into(), "[4294967295 3]".into()];
    let data: Vec<u8> = (0..64u8).collect();
    for a in ws {
        for b in ws {
            for c in [0i64, 1, 2, 8, 1 << 31] {
                if !thorough && a > 9 && b > 9 {
                    continue;
                }
                for (ii, ix) in idx.iter().enumerate() {
                    if !thorough && ii % 3 != (a.wrapping_add(b).wrapping_add(c).rem_euclid(3)) as usize {
                        continue;
                    }
                    for size in ["3", "0", "-1", "4294967296"] {
                        if size != "3" && (a > 2 || ii > 1) {
                            continue;
                        }
                        v.push((
                            "xrefstm",
                            format!("W[{} {} {}] Index{} Size {}", a, b, c, ix, size),
                            dict_line(&format!("<</Type/XRef/Size {}/W[{} {} {}]/Index{}>>", size, a, b, c, ix), &data),
                        ));
                    }
                }
            }
        }
    }
    // W arrays with more than three elements (only the first three are meaningful)
    for w in ["[0 0 0 1]", "[0 0 0 0 8]", "[0 0 0 8 8 8]", "[1 2 1 0]", "[1 2 1 255]", "[0 0 0 -1]", "[0 0 0 (s)]", "[0 0]", "[]", "[1 2 1 9223372036854775807]"] {
        for ix in ["[0 3]", "[0 1048576]", "[0 300000000]", "[0 4611686018427387904]"] {
            for size in ["3", "300000000", "4294967295"] {
                v.push(("xrefstm", format!("W{} Index{} Size {}", w, ix, size), dict_line(&format!("<</Type/XRef/Size {}/W{}/Index{}>>", size, w, ix), &data)));
                let mut f = b"%PDF-1.5\n".to_vec();
                let off = f.len();
                f.extend_from_slice(format!("1 0 obj\n<</Type/XRef/Size {}/W{}/Index{}/Root 1 0 R/Length 16>>stream\n0123456789abcdef\nendstream\nendobj\nstartxref\n{}\n%%EOF", size, w, ix, off).as_bytes());
                v.push(("load", format!("xref stream W{} Index{} Size {}", w, ix, size), f));
            }
        }
        // no Index at all: the count comes from Size
        for size in ["3", "300000000", "4294967295", "-5"] {
            v.push(("xrefstm", format!("W{} no Index Size {}", w, size), dict_line(&format!("<</Type/XRef/Size {}/W{}>>", size, w), &data)));
        }
    }
    // encryption dictionary grid: every combination of V, R and Length (and a few O/U lengths) on files whose
    // empty user password otherwise authenticates - parameter combinations no writer produces but any file may carry
    {
        let enc = encrypted_seeds();
        for tname in ["v2r3-rc4-128-table", "v4r4-rc4-table", "v5r6-aesv3-table"] {
            let Some((_, tmpl, _)) = enc.iter().find(|(n, _, _)| n == tname) else { continue };
            let Some(vpos) = tmpl.windows(3).position(|w| w == b"/V ") else { continue };
            let ppos = tmpl[vpos..].windows(3).position(|w| w == b"/P ").map(|p| p + vpos).unwrap_or(vpos);
            for vv in 0..=6 {
                for r in 0..=7 {
                    for len in ["", "/Length 0", "/Length 7", "/Length 8", "/Length 39", "/Length 40", "/Length 48", "/Length 128", "/Length 129", "/Length 256", "/Length 2048", "/Length -8"] {
                        let mut f = tmpl[..vpos].to_vec();
                        f.extend_from_slice(format!("/V {}/R {}{}", vv, r, len).as_bytes());
                        f.extend_from_slice(&tmpl[ppos..]);
                        let f = repair_table(&f).unwrap_or(f);
                        v.push(("load", format!("encrypt grid on {}: V {} R {} {}", tname, vv, r, len), f));
                    }
                }
            }
            // O / U of unusual lengths
            for (key, n) in [("O", 0usize), ("O", 31), ("O", 33), ("O", 48), ("U", 0), ("U", 16), ("U", 31), ("U", 33), ("U", 48), ("U", 127)] {
                let pat = format!("/{} <", key).into_bytes();
                if let Some(kp) = tmpl.windows(pat.len()).position(|w| w == pat.as_slice()) {
                    let end = tmpl[kp..].iter().position(|c| *c == b'>').map(|e| e + kp).unwrap_or(kp);
                    let mut f = tmpl[..kp + pat.len()].to_vec();
                    f.extend(std::iter::repeat(b"A7").take(n).flatten());
                    f.extend_from_slice(&tmpl[end..]);
                    let f = repair_table(&f).unwrap_or(f);
                    v.push(("load", format!("encrypt grid on {}: {} of {} bytes", tname, key, n), f));
                }
            }
        }
    }
    // object streams: N / First extremes, non-numeric index blocks
    for n in ["0", "1", "-1", "3", "1000000", "4611686018427387904", "9223372036854775807"] {
        for first in ["0", "1", "4", "15", "16", "100", "-1", "9223372036854775807"] {
            for body in [&b"11 0 12 5 13 12 true [1 2] <</A (b)>>"[..], b"x y z", b"11 99999999999 12 5", b"4294967296 0 1 1", b"", b"\xff\xfe 1 2"] {
                v.push(("objstm", format!("N {} First {} body {:?}", n, first, String::from_utf8_lossy(body)), dict_line(&format!("<</Type/ObjStm/N {}/First {}>>", n, first), body)));
            }
        }
    }
    // predictor parameters
    let pv: [i64; 8] = [-1, 0, 1, 7, 65536, 1 << 31, 1 << 62, i64::MAX];
    let rows: Vec<u8> = (0..48u8).map(|i| if i % 8 == 0 { (i / 8) % 6 } else { i }).collect();
    for pred in [1i64, 2, 10, 12, 15, 16, -1] {
        for cols in pv {
            for colors in pv {
                for bpc in [-1i64, 0, 1, 8, 16, 1 << 31, 1 << 62] {
                    if !thorough && cols.wrapping_add(colors).wrapping_add(bpc).rem_euclid(3) != 0 {
                        continue;
                    }
                    v.push((
                        "stream",
                        format!("Predictor {} Columns {} Colors {} BPC {}", pred, cols, colors, bpc),
                        dict_line(&format!("<</Filter/FlateDecode/DecodeParms<</Predictor {}/Columns {}/Colors {}/BitsPerComponent {}>>>>", pred, cols, colors, bpc), &flate(&rows)),
                    ));
                }
            }
        }
    }
    // every PNG filter byte 0..255 as the row tag
    for tag in 0..=255u8 {
        let mut r = vec![tag, 1, 2, 3, tag, 4, 5, 6];
        r[4] = tag;
        v.push(("stream", format!("row tag {}", tag), dict_line("<</Filter/FlateDecode/DecodeParms<</Predictor 12/Columns 3>>>>", &flate(&r))));
    }
    // ASCII85: all 5-symbol groups over a sharp alphabet, all partial groups, with and without EOD
    let a85: [u8; 9] = [b'!', b'"', b's', b'8', b'W', b'-', b'u', b'z', b'~'];
    for len in 0..=5usize {
        let total = a85.len().pow(len as u32);
        for i in 0..total {
            let mut x = i;
            let mut g = vec![];
            for _ in 0..len {
                g.push(a85[x % a85.len()]);
                x /= a85.len();
            }
            for eod in [true, false] {
                let mut c = g.clone();
                if eod {
                    c.extend_from_slice(b"~>");
                }
                v.push(("stream", format!("a85 {:?} eod {}", String::from_utf8_lossy(&g), eod), dict_line("<</Filter/ASCII85Decode>>", &c)));
            }
        }
    }
    // LZW code sequences of length <= 3 over special 9-bit codes
    let codes: [u16; 6] = [0, 255, 256, 257, 258, 511];
    for len in 1..=3usize {
        let total = codes.len().pow(len as u32);
        for i in 0..total {
            let mut x = i;
            let mut bits: Vec<bool> = vec![];
            for _ in 0..len {
                let c = codes[x % codes.len()];
                x /= codes.len();
                for b in (0..9).rev() {
                    bits.push(c & (1 << b) != 0);
                }
            }
            let mut bytes = vec![];
            for ch in bits.chunks(8) {
                let mut byte = 0u8;
                for (k, b) in ch.iter().enumerate() {
                    if *b {
                        byte |= 1 << (7 - k);
                    }
                }
                bytes.push(byte);
            }
            for ec in ["0", "1"] {
                v.push(("stream", format!("lzw codes #{} len {} ec {}", i, len, ec), dict_line(&format!("<</Filter/LZWDecode/DecodeParms<</EarlyChange {}>>>>", ec), &bytes)));
            }
        }
    }
    // inline images: W/H/BPC extremes x colour-space names
    let iv = ["-1", "0", "1", "3", "65536", "2147483648", "4611686018427387904", "9223372036854775807"];
    for cs in ["G", "Gray", "DeviceGray", "RGB", "DeviceRGB", "CMYK", "DeviceCMYK", "RGBA", "Pattern", "I", "Indexed", "X"] {
        for w in iv {
            for h in iv {
                for bpc in ["-1", "0", "1", "8", "16", "9223372036854775807"] {
                    if !thorough && (w.len() + h.len() + bpc.len() + cs.len()) % 2 == 1 {
                        continue;
                    }
                    v.push(("content", format!("inline image CS {} W {} H {} BPC {}", cs, w, h, bpc), format!("BI /W {} /H {} /CS /{} /BPC {} ID \x00\x01\x02\x03 EI Q", w, h, cs, bpc).into_bytes()));
                }
            }
        }
    }
    for f in ["/F /Fl", "/F [/A85 /Fl]", "/F 3", "/Filter null", "/DP <</Predictor 15>>"] {
        v.push(("content", format!("inline image with {}", f), format!("BI /W 1 /H 1 /CS /G /BPC 8 {} ID \x00 EI", f).into_bytes()));
    }
    // CMaps from the grammar: code lengths 0..5, hi < lo, short arrays, targets at FFFF
    let hexes = ["<>", "<00>", "<0001>", "<000102>", "<00010203>", "<0001020304>", "<FFFF>", "<FFFFFFFF>", "<D800>", "<zz>"];
    for lo in hexes {
        for hi in hexes {
            for tgt in ["<0041>", "<FFFF>", "<D83DDE00>", "<>", "[<0041>]", "[]", "[<0041> <0042> <0043>]", "<FFFFFFFFFFFFFFFF>", "[<FFFF> <>]"] {
                let body = format!(
                    "/CIDInit /ProcSet findresource begin\n12 dict begin\nbegincmap\n1 begincodespacerange\n<00> <FFFFFFFF>\nendcodespacerange\n1 beginbfrange\n{} {} {}\nendbfrange\n1 beginbfchar\n{} {}\nendbfchar\nendcmap\nend\nend\n",
                    lo, hi, tgt, lo, if tgt.starts_with('[') { "<0041>" } else { tgt }
                );
                v.push(("cmap", format!("bfrange {} {} {}", lo, hi, tgt), body.into_bytes()));
            }
        }
    }
    for n in ["0", "1", "2", "100", "99999999999999999999", "-1"] {
        v.push(("cmap", format!("section count {}", n), format!("begincmap\n{} begincodespacerange\n<0000> <FFFF>\nendcodespacerange\n{} beginbfchar\n<0001> <0041>\nendbfchar\n{} beginbfrange\n<0002> <0004> <0042>\nendbfrange\nendcmap", n, n, n).into_bytes()));
    }
    // text strings: all byte strings of length <= 5 over the BOM alphabet
    let ta: [u8; 9] = [0xfe, 0xff, 0xef, 0xbb, 0xbf, 0x00, 0x41, 0xd8, 0xdc];
    for len in 0..=5usize {
        let total = ta.len().pow(len as u32);
        for i in 0..total {
            let mut x = i;
            let mut s = vec![];
            for _ in 0..len {
                s.push(ta[x % ta.len()]);
                x /= ta.len();
            }
            v.push(("textstr", format!("bom-alphabet #{} len {}", i, len), s));
        }
    }
    // streams with extreme / negative / missing Length and startxref oddities
    for len in ["-1", "0", "3", "4", "5", "1000", "4294967296", "9223372036854775807", "1 0 R", "2 0 R", "(x)"] {
        v.push(("load", format!("stream Length {}", len), wrap_pdf(format!("<</Length {}>>stream\nabc\nendstream", len).as_bytes())));
    }
    for sx in ["0", "5", "99999", "-1", "18446744073709551616", ""] {
        let base = wrap_pdf(b"null");
        let s = String::from_utf8_lossy(&base).to_string();
        let i = s.rfind("startxref\n").unwrap();
        v.push(("load", format!("startxref {:?}", sx), format!("{}startxref\n{}\n%%EOF", &s[..i], sx).into_bytes()));
    }
    v
}

// ---------------------------------------------------------------------------------------------

fn case_input(v: &Value) -> Vec<u8> {
    serde_json::to_vec(v).unwrap()
}

/// worker side: reconstruct the input bytes from the descriptor and run the entry point
fn exec(_entry: &str, input: &[u8]) -> String {
    let v: Value = serde_json::from_slice(input).unwrap();
    let (entry, bytes) = materialise(&v);
    run_entry(&entry, &bytes)
}

thread_local! {
    static SEEDS: std::cell::RefCell<Option<Vec<Seed>>> = const { std::cell::RefCell::new(None) };
    static FAMILIES: std::cell::RefCell<Option<Vec<(&'static str, String, Vec<u8>)>>> = const { std::cell::RefCell::new(None) };
}

fn materialise(v: &Value) -> (String, Vec<u8>) {
    if let Some(h) = v.get("hex") {
        return (v["e"].as_str().unwrap().to_string(), vharness::objjson::unhex(h.as_str().unwrap()));
    }
    if let Some(f) = v.get("f") {
        let th = v["th"].as_bool().unwrap_or(false);
        return FAMILIES.with(|c| {
            let mut c = c.borrow_mut();
            if c.is_none() {
                *c = Some(families(th));
            }
            let (e, _, b) = &c.as_ref().unwrap()[f.as_u64().unwrap() as usize];
            (e.to_string(), b.clone())
        });
    }
    SEEDS.with(|c| {
        let mut c = c.borrow_mut();
        if c.is_none() {
            *c = Some(seeds());
        }
        let s = &c.as_ref().unwrap()[v["s"].as_u64().unwrap() as usize];
        let edits: Vec<Edit> = v["ed"]
            .as_array()
            .unwrap()
            .iter()
            .map(|e| Edit { start: e[0].as_u64().unwrap() as usize, end: e[1].as_u64().unwrap() as usize, with: vharness::objjson::unhex(e[2].as_str().unwrap()) })
            .collect();
        let mut bytes = apply_edits(&s.bytes, &edits);
        if v.get("rp").and_then(Value::as_bool) == Some(true) {
            bytes = repair(&bytes).unwrap_or(bytes);
        }
        (s.entry.to_string(), bytes)
    })
}

/// Structure-aware companion of a mutant: if the file ends with a classic cross-reference table,
/// point its in-use entries at the (moved) object headers and `startxref` at the (moved) table, so that
/// an edit that changes the length of the file still reaches the code behind the cross-reference
/// stage (object parsing, decryption on load, object streams). None when there is no such table.
fn repair_table(b: &[u8]) -> Option<Vec<u8>> {
    fn rfind(h: &[u8], n: &[u8]) -> Option<usize> {
        if h.len() < n.len() {
            return None;
        }
        (0..=h.len() - n.len()).rev().find(|i| &h[*i..*i + n.len()] == n)
    }
    fn int_at(b: &[u8], mut p: usize) -> Option<(u64, usize)> {
        while p < b.len() && (b[p] == b' ' || b[p] == b'\r' || b[p] == b'\n' || b[p] == b'\t') {
            p += 1;
        }
        let s = p;
        while p < b.len() && b[p].is_ascii_digit() && p - s < 12 {
            p += 1;
        }
        if p == s {
            return None;
        }
        std::str::from_utf8(&b[s..p]).ok()?.parse().ok().map(|v| (v, p))
    }
    let sx = rfind(b, b"startxref")?;
    let xr = rfind(&b[..sx], b"xref")?;
    if xr > 0 && !(b[xr - 1] == b'\n' || b[xr - 1] == b'\r') {
        return None;
    }
    let mut out = b.to_vec();
    let mut p = xr + 4;
    'sections: while let Some((first, p1)) = int_at(b, p) {
        let Some((count, p2)) = int_at(b, p1) else { break };
        let mut q = p2;
        while q < b.len() && (b[q] == b' ' || b[q] == b'\r' || b[q] == b'\n') {
            q += 1;
        }
        for i in 0..count.min(100_000) {
            if q + 20 > sx {
                break 'sections;
            }
            let e = &b[q..q + 20];
            if e[17] == b'n' {
                if let Ok(gen) = std::str::from_utf8(&e[11..16]).unwrap_or("x").parse::<u32>() {
                    let pat = format!("{} {} obj", first + i, gen).into_bytes();
                    let mut from = 0;
                    while let Some(k) = b[from..xr].windows(pat.len()).position(|w| w == pat.as_slice()) {
                        let at = from + k;
                        if at == 0 || b[at - 1] == b'\n' || b[at - 1] == b'\r' || b[at - 1] == b' ' {
                            out[q..q + 10].copy_from_slice(format!("{:010}", at).as_bytes());
                            break;
                        }
                        from = at + 1;
                    }
                }
            }
            q += 20;
        }
        p = q;
    }
    // startxref value
    let mut d0 = sx + 9;
    while d0 < b.len() && (b[d0] == b' ' || b[d0] == b'\r' || b[d0] == b'\n') {
        d0 += 1;
    }
    let mut d1 = d0;
    while d1 < b.len() && b[d1].is_ascii_digit() {
        d1 += 1;
    }
    let tail = out[d1..].to_vec();
    out.truncate(d0);
    out.extend_from_slice(xr.to_string().as_bytes());
    out.extend_from_slice(&tail);
    Some(out)
}

/// The same for a file that ends with an UNFILTERED cross-reference stream with direct /W, /Length
/// (and /Index or /Size): type-1 rows are re-pointed at the moved object headers and `startxref` at the
/// moved cross-reference stream object. None when the file is not of that form.
fn repair_xref_stream(b: &[u8]) -> Option<Vec<u8>> {
    fn rfind(h: &[u8], n: &[u8]) -> Option<usize> {
        if h.len() < n.len() {
            return None;
        }
        (0..=h.len() - n.len()).rev().find(|i| &h[*i..*i + n.len()] == n)
    }
    fn find(h: &[u8], n: &[u8], from: usize) -> Option<usize> {
        if from >= h.len() {
            return None;
        }
        h[from..].windows(n.len()).position(|w| w == n).map(|k| from + k)
    }
    fn ints_after(d: &[u8], key: &[u8], max: usize) -> Option<Vec<u64>> {
        let k = find(d, key, 0)? + key.len();
        let mut p = k;
        let mut out = vec![];
        while p < d.len() && out.len() < max {
            let c = d[p];
            if c == b' ' || c == b'[' || c == b'\n' || c == b'\r' {
                p += 1;
            } else if c.is_ascii_digit() {
                let s0 = p;
                while p < d.len() && d[p].is_ascii_digit() && p - s0 < 12 {
                    p += 1;
                }
                out.push(std::str::from_utf8(&d[s0..p]).ok()?.parse().ok()?);
            } else {
                break;
            }
        }
        Some(out)
    }
    let sx = rfind(b, b"startxref")?;
    // the cross-reference stream object: the last "/XRef" before startxref, its "obj" header before that
    let ty = rfind(&b[..sx], b"/XRef")?;
    let ob = rfind(&b[..ty], b" obj")?;
    let mut hdr = ob;
    // back over "<num> <gen>"
    let mut spaces = 0;
    while hdr > 0 {
        let c = b[hdr - 1];
        if c.is_ascii_digit() {
            hdr -= 1;
        } else if c == b' ' && spaces == 0 {
            spaces = 1;
            hdr -= 1;
        } else {
            break;
        }
    }
    let st = find(b, b"stream", ty)?;
    if st > sx {
        return None;
    }
    let dict = &b[ob..st];
    if find(dict, b"/Filter", 0).is_some() {
        return None;
    }
    let w = ints_after(dict, b"/W", 3)?;
    if w.len() != 3 || w.iter().any(|x| *x > 8) || w[1] == 0 {
        return None;
    }
    let len = *ints_after(dict, b"/Length", 1)?.first()? as usize;
    let index: Vec<u64> = match find(dict, b"/Index", 0) {
        Some(_) => ints_after(dict, b"/Index", 64)?,
        None => vec![0, *ints_after(dict, b"/Size", 1)?.first()?],
    };
    let mut data = st + 6;
    if b.get(data) == Some(&b'\r') {
        data += 1;
    }
    if b.get(data) == Some(&b'\n') {
        data += 1;
    }
    let row = (w[0] + w[1] + w[2]) as usize;
    if data + len > b.len() || row == 0 {
        return None;
    }
    let mut out = b.to_vec();
    let mut r = 0usize;
    for pair in index.chunks(2) {
        if pair.len() < 2 {
            break;
        }
        for i in 0..pair[1].min(100_000) {
            let at = data + r * row;
            if at + row > data + len {
                break;
            }
            let ty1 = if w[0] == 0 { 1 } else { b[at..at + w[0] as usize].iter().fold(0u64, |a, c| a * 256 + *c as u64) };
            if ty1 == 1 {
                let gen = b[at + (w[0] + w[1]) as usize..at + row].iter().fold(0u64, |a, c| a * 256 + *c as u64);
                let pat = format!("{} {} obj", pair[0] + i, gen).into_bytes();
                let mut from = 0;
                while let Some(k) = find(&b[..sx], &pat, from) {
                    if k == 0 || b[k - 1] == b'\n' || b[k - 1] == b'\r' || b[k - 1] == b' ' {
                        let wid = w[1] as usize;
                        if wid >= 8 || (k as u64) < (1u64 << (8 * wid)) {
                            let be = (k as u64).to_be_bytes();
                            out[at + w[0] as usize..at + (w[0] + w[1]) as usize].copy_from_slice(&be[8 - wid..]);
                        }
                        break;
                    }
                    from = k + 1;
                }
            }
            r += 1;
        }
    }
    let mut d0 = sx + 9;
    while d0 < b.len() && (b[d0] == b' ' || b[d0] == b'\r' || b[d0] == b'\n') {
        d0 += 1;
    }
    let mut d1 = d0;
    while d1 < b.len() && b[d1].is_ascii_digit() {
        d1 += 1;
    }
    let tail = out[d1..].to_vec();
    out.truncate(d0);
    out.extend_from_slice(hdr.to_string().as_bytes());
    out.extend_from_slice(&tail);
    Some(out)
}

/// table form first, cross-reference stream form otherwise
fn repair(b: &[u8]) -> Option<Vec<u8>> {
    repair_table(b).or_else(|| repair_xref_stream(b))
}

fn edits_json(e: &[Edit]) -> Value {
    json!(e.iter().map(|x| json!([x.start, x.end, vharness::objjson::hex(&x.with)])).collect::<Vec<_>>())
}

fn normalise(msg: &str) -> String {
    let mut out = String::new();
    let mut prev = false;
    for c in msg.chars() {
        if c.is_ascii_digit() {
            if !prev {
                out.push('#');
            }
            prev = true;
        } else {
            out.push(c);
            prev = false;
        }
    }
    out
}

/// Known-finding classification (DESIGN Appendix A): by entry point + failure class + call site.
fn classify(entry: &str, o: &Outcome, bytes: &[u8]) -> Option<&'static str> {
    let d = normalise(&o.detail);
    match o.class {
        Class::Panic => {
            if d.contains("object.rs") && d.contains("attempt to add with overflow") {
                return Some("a85-add-overflow");
            }
            None
        }
        Class::Abort => {
            // stack exhaustion on deeply nested arrays / dictionaries
            let depth = max_nesting(bytes);
            if depth >= 1000 && (entry == "load" || entry == "content" || entry == "objstm" || entry == "incload") {
                return Some("nesting-stack-overflow");
            }
            None
        }
        _ => None,
    }
}

fn max_nesting(b: &[u8]) -> usize {
    let mut d = 0usize;
    let mut m = 0usize;
    for c in b {
        match c {
            b'[' | b'<' => {
                d += 1;
                m = m.max(d);
            }
            b']' | b'>' => d = d.saturating_sub(1),
            _ => {}
        }
    }
    m
}

fn main() {
    let args: Vec<String> = std::env::args().collect();
    if args.iter().any(|a| a == "--worker") {
        let _ = rayon::ThreadPoolBuilder::new().num_threads(2).build_global(); // default worker stack (2 MiB), what a user of the library gets
        let th = args.iter().any(|a| a == "--thorough-families");
        worker::serve_with_init(
            move || {
                SEEDS.with(|c| *c.borrow_mut() = Some(seeds()));
                FAMILIES.with(|c| *c.borrow_mut() = Some(families(th)));
            },
            exec,
        );
    }
    if let Some(i) = args.iter().position(|a| a == "--dump-seeds") {
        // debugging aid: write every seed to the given directory
        let dir = std::path::Path::new(&args[i + 1]);
        std::fs::create_dir_all(dir).unwrap();
        for s in seeds() {
            std::fs::write(dir.join(format!("{}__{}", s.entry, s.name.replace([':', '/'], "_"))), &s.bytes).unwrap();
        }
        return;
    }
    let run = Run::from_args("C04", "exploration");
    util::quiet_panics();
    if let Mode::Replay(path) = run.mode.clone() {
        let c = vharness::run::read_replay(&path);
        let desc = if c["truncated"].as_bool() == Some(true) { c["descriptor"].clone() } else { json!({"e": c["entry"], "hex": c["hex"]}) };
        let case = Case { id: 0, entry: "x", input: case_input(&desc), logical_len: 0 };
        let o1 = worker::run_single(&case, &[]);
        let o2 = worker::run_single(&case, &[]);
        println!("observed: {:?} {} | second run {:?}", o1.class, o1.detail, o2.class);
        run.finish_replay(o1.class != Class::Returned);
    }
    run.rule(
        "(a) every 1-edit mutant of the byte-level seeds (each position x {replace by 16 sharp bytes, insert 16 sharp bytes, flip each bit, delete, truncate}) \
         and every token-level edit of all seeds (delete / duplicate token, replace by another kind or by deep nesting, every integer by 21 extremes, by offsets, \
         by every other integer of the file, block splices); every mutant of a file with a classic cross-reference table or an unfiltered cross-reference stream additionally in a structure-aware form whose offsets and startxref are re-pointed at the moved objects; 2-edit mutants at token sites of small seeds (thorough); (b) parametric adversarial families \
         (nesting depth, reference and Prev cycles, xref-stream W/Index/Size, object-stream N/First, predictor parameters, all PNG row tags, ASCII85 groups, LZW \
         code sequences, inline-image geometry, CMap grammar extremes, encryption-dictionary grid (V x R x Length x O/U lengths on authenticating files), BOM-alphabet text strings, Length/startxref extremes); nine entry points in isolated workers; \
         non-trivial = mutant differs from its seed, is distinct by content hash, and the entry point got past the trivial early error",
    );
    run.assume("budgets: 2 s + 1 s per 64 KiB of input, 8 MiB main-thread stack, rayon's default worker stacks (2 MiB), single allocation request <= 64*len + 16 MiB, RLIMIT_AS 6 GiB; lopdf built with overflow checks");
    let sd = seeds();
    // the encrypted seeds are only useful if the loader really decrypts them: count the ones whose Info
    // title comes back in clear (evidence, and a machinery failure if none does)
    {
        let mut clear = vec![];
        let mut not = vec![];
        for s in sd.iter().filter(|s| s.name.starts_with("ref-encrypted:")) {
            let ok = matches!(util::load(&s.bytes), Ok(d) if matches!(d.get_object((5, 0)).and_then(|o| o.as_dict()).and_then(|d| d.get(b"Title")), Ok(Object::String(t, _)) if t == b"secret title"));
            if ok { clear.push(s.name.clone()) } else { not.push(s.name.clone()) }
        }
        if clear.is_empty() {
            eprintln!("MACHINERY: none of the encrypted seeds is decrypted on load");
            std::process::exit(3);
        }
        run.set("encrypted_seeds_decrypted_on_load", json!(clear));
        run.set("encrypted_seeds_not_decrypted_on_load", json!(not));
    }
    let fam = families(run.thorough);
    run.set("seeds", json!(sd.iter().map(|s| format!("{}:{} ({} bytes{})", s.entry, s.name, s.bytes.len(), if s.byte_level { ", byte-level" } else { "" })).collect::<Vec<_>>()));
    run.set("family_cases", json!(fam.len()));
    let mut cases: Vec<Case> = vec![];
    // (no second copy of the descriptors is kept: a failing case carries its descriptor in `Case::input`)
    let mut meta: Vec<Value> = vec![];
    let mut sample_desc: Option<Value> = None;
    let mut hashes: HashSet<u64> = HashSet::new();
    let mut dup = 0u64;
    let mut repaired = 0u64;
    let mut push = |desc: Value, entry: &str, bytes: &[u8], cases: &mut Vec<Case>, meta: &mut Vec<Value>| {
        let mut key = entry.as_bytes().to_vec();
        key.push(0);
        key.extend_from_slice(bytes);
        if !hashes.insert(vharness::run::fnv(&key)) {
            dup += 1;
            return;
        }
        cases.push(Case { id: cases.len() as u64, entry: "x", input: case_input(&desc), logical_len: bytes.len().max(1) });
        if cases.len() % 200_003 == 1 {
            sample_desc = Some(desc);
        }
        let _ = &meta;
    };
    for (si, s) in sd.iter().enumerate() {
        let mut edits: Vec<Vec<Edit>> = vec![vec![]];
        if s.byte_level {
            edits.extend(byte_edits(&s.bytes).into_iter().map(|e| vec![e]));
        }
        let te = token_edits(&s.bytes);
        edits.extend(te.iter().cloned().map(|e| vec![e]));
        if run.thorough && s.bytes.len() <= 700 {
            // all pairs of token-level edits at distinct sites (capped per seed, cap reported)
            let cap = 400_000usize;
            let mut n = 0usize;
            'outer: for a in 0..te.len() {
                for b in a + 1..te.len() {
                    if te[a].end <= te[b].start || te[b].end <= te[a].start {
                        edits.push(vec![te[a].clone(), te[b].clone()]);
                        n += 1;
                        if n >= cap {
                            run.cap_hit(&format!("2-edit pairs of seed {} capped at {}", s.name, cap));
                            break 'outer;
                        }
                    }
                }
            }
        }
        for e in edits {
            let bytes = apply_edits(&s.bytes, &e);
            push(json!({"s": si, "ed": edits_json(&e)}), s.entry, &bytes, &mut cases, &mut meta);
            if s.entry == "load" || s.entry == "incload" {
                if let Some(fixed) = repair(&bytes) {
                    if fixed != bytes {
                        repaired += 1;
                        push(json!({"s": si, "ed": edits_json(&e), "rp": true}), s.entry, &fixed, &mut cases, &mut meta);
                    }
                }
            }
        }
    }
    let n_mutants = cases.len();
    for (fi, (e, _label, bytes)) in fam.iter().enumerate() {
        push(json!({"f": fi, "th": run.thorough}), e, bytes, &mut cases, &mut meta);
    }
    run.set("mutant_cases", json!(n_mutants));
    run.set("duplicate_mutants_skipped", json!(dup));
    run.set("mutants_with_repaired_cross_reference_table", json!(repaired));
    if let Some(d) = &sample_desc {
        run.sample(json!({"kind": "mutant or family case", "descriptor": d}));
    }
    let _ = n_mutants;
    run.sample(json!({"kind": "family", "label": fam[fam.len() / 2].1, "entry": fam[fam.len() / 2].0}));
    let outcomes: Mutex<BTreeMap<String, u64>> = Mutex::new(BTreeMap::new());
    let failures: Mutex<Vec<(Vec<u8>, Outcome)>> = Mutex::new(vec![]);
    let n_workers = std::thread::available_parallelism().map(|n| n.get()).unwrap_or(8);
    let wargs: Vec<String> = if run.thorough { vec!["--thorough-families".to_string()] } else { vec![] };
    worker::run_cases(cases, n_workers, &wargs, &|c, o| {
        run.eval(1);
        let trivial = o.class == Class::Returned && (o.detail.starts_with("trivial") || o.detail.contains("invalid file header") || o.detail.contains("invalid start value"));
        if !trivial {
            run.nontrivial(1);
        }
        let k = if o.class == Class::Returned { if o.detail.starts_with("ok") { "returned-ok".to_string() } else if trivial { "returned-trivial-error".to_string() } else { "returned-error".to_string() } } else { format!("{:?}", o.class) };
        *outcomes.lock().unwrap().entry(k).or_insert(0) += 1;
        if o.class != Class::Returned {
            failures.lock().unwrap().push((c.input.clone(), o.clone()));
        }
    });
    run.set("outcomes_by_class", json!(outcomes.lock().unwrap().clone()));
    // confirm each failure in a fresh worker (must reproduce the same class), then report
    let fl = failures.lock().unwrap().clone();
    let mut sites: BTreeMap<String, u64> = BTreeMap::new();
    for (input, o) in fl {
        let desc: Value = serde_json::from_slice(&input).expect("descriptor");
        let desc = &desc;
        let (entry, bytes) = materialise(desc);
        let again = worker::run_single(&Case { id: 0, entry: "x", input: case_input(desc), logical_len: bytes.len().max(1) }, &wargs);
        if again.class != o.class {
            // timing-dependent outcomes (e.g. a hang that finishes just in time) are retried once more
            let third = worker::run_single(&Case { id: 0, entry: "x", input: case_input(desc), logical_len: bytes.len().max(1) }, &wargs);
            if third.class != o.class && third.class == Class::Returned {
                run.add("unconfirmed_failures", 1);
                continue;
            }
        }
        let key = format!("{}|{:?}|{}", entry, o.class, normalise(o.detail.split(": ").next().unwrap_or("")));
        *sites.entry(key).or_insert(0) += 1;
        let f = classify(&entry, &o, &bytes);
        let label = desc.get("f").and_then(|f| f.as_u64()).map(|f| fam[f as usize].1.clone()).unwrap_or_else(|| format!("mutant of seed {}", sd[desc["s"].as_u64().unwrap() as usize].name));
        let hexs = if bytes.len() <= 20000 { vharness::objjson::hex(&bytes) } else { vharness::objjson::hex(&bytes[..20000]) };
        run.fail(
            f,
            json!({"entry": entry, "label": label, "descriptor": desc, "len": bytes.len(), "hex": hexs, "truncated": bytes.len() > 20000}),
            &format!("{:?}: {}", o.class, o.detail),
            "the entry point returns a value or an error within the time, stack and allocation budget",
        );
    }
    run.set("distinct_failure_sites", json!(sites));
    run.exhaustive(true);
    run.finish();
}
