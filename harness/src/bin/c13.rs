//! C13 - read-only queries are total on arbitrary object graphs (DESIGN §4 C13).
use indexmap::IndexMap;
use lopdf::{Dictionary, Document, Object, ObjectId, Stream, StringFormat};
use serde_json::{json, Value};
use std::collections::BTreeMap;
use std::sync::Mutex;
use vharness::worker::{self, Case, Class, Outcome};
use vharness::{util, Mode, Run};

fn name(s: &str) -> Object {
    Object::Name(s.as_bytes().to_vec())
}
fn r(n: u32) -> Object {
    Object::Reference((n, 0))
}
fn lit(s: &str) -> Object {
    Object::String(s.as_bytes().to_vec(), StringFormat::Literal)
}
fn dict(e: Vec<(&str, Object)>) -> Dictionary {
    let mut d = Dictionary::new();
    for (k, v) in e {
        d.set(k.as_bytes().to_vec(), v);
    }
    d
}
fn d(e: Vec<(&str, Object)>) -> Object {
    Object::Dictionary(dict(e))
}
fn arr(v: Vec<Object>) -> Object {
    Object::Array(v)
}

const CMAP: &str = "/CIDInit /ProcSet findresource begin\n12 dict begin\nbegincmap\n/CMapName /Adobe-Identity-UCS def\n/CMapType 2 def\n1 begincodespacerange\n<0000> <FFFF>\nendcodespacerange\n2 beginbfchar\n<0001> <0048>\n<0002> <0069>\nendbfchar\nendcmap\nCMapName currentdict /CMap defineresource pop\nend\nend\n";

fn flate(data: &[u8]) -> Vec<u8> {
    use std::io::Write;
    let mut e = flate2::write::ZlibEncoder::new(Vec::new(), flate2::Compression::default());
    e.write_all(data).unwrap();
    e.finish().unwrap()
}

/// A well-formed document containing everything the query code reads.
fn skeleton() -> Document {
    let mut doc = Document::with_version("1.7");
    let mut o: BTreeMap<ObjectId, Object> = BTreeMap::new();
    let mut put = |n: u32, v: Object| {
        o.insert((n, 0), v);
    };
    put(1, d(vec![("Type", name("Catalog")), ("Pages", r(2)), ("Outlines", r(20)), ("Names", r(30))]));
    put(2, d(vec![("Type", name("Pages")), ("Kids", arr(vec![r(3), r(6)])), ("Count", Object::Integer(3)), ("Resources", r(10))]));
    put(3, d(vec![("Type", name("Pages")), ("Parent", r(2)), ("Kids", r(26)), ("Count", Object::Integer(2))]));
    put(26, arr(vec![r(4), r(5)]));
    put(4, d(vec![("Type", name("Page")), ("Parent", r(3)), ("Contents", r(7)), ("Resources", r(11)), ("Annots", arr(vec![r(15)]))]));
    put(5, d(vec![("Type", name("Page")), ("Parent", r(3)), ("Contents", arr(vec![r(8), r(9)])), ("Annots", r(16))]));
    put(
        6,
        d(vec![
            ("Type", name("Page")),
            ("Parent", r(2)),
            ("Contents", r(27)),
            ("Resources", d(vec![("Font", d(vec![("F1", r(12)), ("F2", r(14))])), ("XObject", d(vec![("Im1", r(13))]))])),
        ]),
    );
    put(27, r(8));
    put(7, Object::Stream(Stream::new(dict(vec![]), b"BT /F1 12 Tf (Hi) Tj [(a) -200 (b)] TJ ET".to_vec())));
    let body = b"BT /F2 12 Tf <00010002> Tj ET";
    put(8, Object::Stream(Stream::new(dict(vec![("Filter", name("FlateDecode"))]), flate(body))));
    // predictor-encoded content: PNG Up rows of 4 columns
    let plain = b"q Q\n";
    let mut rows = vec![2u8];
    rows.extend_from_slice(plain);
    put(
        9,
        Object::Stream(Stream::new(
            dict(vec![
                ("Filter", arr(vec![name("FlateDecode")])),
                ("DecodeParms", d(vec![("Predictor", Object::Integer(12)), ("Columns", Object::Integer(4)), ("Colors", Object::Integer(1)), ("BitsPerComponent", Object::Integer(8))])),
            ]),
            flate(&rows),
        )),
    );
    put(10, d(vec![("Font", d(vec![("F1", r(12)), ("F2", r(14))])), ("XObject", r(17))]));
    put(11, d(vec![("Font", r(18)), ("XObject", d(vec![("Im1", r(13))]))]));
    put(12, d(vec![("Type", name("Font")), ("Subtype", name("Type1")), ("BaseFont", name("Helvetica")), ("Encoding", name("WinAnsiEncoding"))]));
    put(14, d(vec![("Type", name("Font")), ("Subtype", name("Type0")), ("BaseFont", name("X")), ("Encoding", name("Identity-H")), ("ToUnicode", r(19))]));
    put(
        13,
        Object::Stream(Stream::new(
            dict(vec![
                ("Type", name("XObject")),
                ("Subtype", name("Image")),
                ("Width", Object::Integer(2)),
                ("Height", Object::Integer(2)),
                ("ColorSpace", arr(vec![name("Indexed"), name("DeviceRGB"), Object::Integer(1), lit("abcdef")])),
                ("BitsPerComponent", Object::Integer(8)),
                ("Filter", name("FlateDecode")),
            ]),
            flate(&[0, 1, 1, 0]),
        )),
    );
    put(15, d(vec![("Type", name("Annot")), ("Subtype", name("Link")), ("Rect", arr(vec![Object::Integer(0), Object::Integer(0), Object::Integer(9), Object::Integer(9)]))]));
    put(16, arr(vec![r(15)]));
    put(17, d(vec![("Im1", r(13))]));
    put(18, d(vec![("F1", r(12))]));
    put(19, Object::Stream(Stream::new(dict(vec![]), CMAP.as_bytes().to_vec())));
    put(20, d(vec![("Type", name("Outlines")), ("First", r(21)), ("Last", r(23)), ("Count", Object::Integer(3))]));
    put(21, d(vec![("Title", lit("A")), ("Parent", r(20)), ("Next", r(23)), ("First", r(22)), ("Last", r(22)), ("A", r(24))]));
    put(22, d(vec![("Title", lit("B")), ("Parent", r(21)), ("Dest", arr(vec![r(4), name("Fit")]))]));
    put(23, d(vec![("Title", r(25)), ("Prev", r(21)), ("Parent", r(20)), ("A", d(vec![("S", name("GoTo")), ("D", lit("named1"))]))]));
    put(24, d(vec![("S", name("GoTo")), ("D", arr(vec![r(5), name("Fit")]))]));
    put(25, lit("Ref title"));
    put(30, d(vec![("Dests", r(31))]));
    put(31, d(vec![("Kids", arr(vec![r(32)]))]));
    put(32, d(vec![("Names", arr(vec![lit("named1"), r(33), lit("named2"), d(vec![("D", arr(vec![r(6), name("Fit")]))]), lit("named3"), r(34)]))]));
    put(33, d(vec![("D", arr(vec![r(4), name("XYZ"), Object::Integer(0), Object::Integer(0), Object::Integer(0)]))]));
    put(34, arr(vec![r(5), name("Fit")]));
    put(
        35,
        d(vec![
            ("Filter", name("Standard")),
            ("V", Object::Integer(4)),
            ("R", Object::Integer(4)),
            ("Length", Object::Integer(128)),
            ("CF", d(vec![("StdCF", d(vec![("Type", name("CryptFilter")), ("CFM", name("AESV2")), ("Length", Object::Integer(16))]))])),
            ("StmF", name("StdCF")),
            ("StrF", name("StdCF")),
            ("O", Object::String(vec![1; 32], StringFormat::Hexadecimal)),
            ("U", Object::String(vec![2; 32], StringFormat::Hexadecimal)),
            ("P", Object::Integer(-4)),
        ]),
    );
    // helper targets for reference shapes
    put(90, r(91));
    put(91, r(90));
    put(92, Object::Integer(7));
    // a chain of 200 bare references ending in a page-tree-like dictionary (entry at 300 + (200 - L)
    // leaves L hops), and a cycle of 130 bare references
    for k in 0..200u32 {
        put(300 + k, r(301 + k));
    }
    put(500, d(vec![("Type", name("Pages")), ("Kids", arr(vec![r(4)])), ("Count", Object::Integer(1)), ("Title", lit("end of chain")), ("Dest", arr(vec![r(4), name("Fit")]))]));
    for k in 0..130u32 {
        put(600 + k, r(600 + (k + 1) % 130));
    }
    // acyclic graphs with massive sharing (2^64 root-to-leaf paths, 66 objects each): a name tree whose
    // intermediate nodes list their only child twice, and outline items whose First and Next are the same item
    for k in 0..64u32 {
        put(800 + k, d(vec![("Kids", arr(vec![r(801 + k), r(801 + k)]))]));
        put(900 + k, d(vec![("Title", lit("shared")), ("First", r(901 + k)), ("Next", r(901 + k)), ("Dest", arr(vec![r(4), name("Fit")]))]));
    }
    put(864, d(vec![("Names", arr(vec![lit("leaf"), arr(vec![r(4), name("Fit")])]))]));
    put(964, d(vec![("Title", lit("last")), ("Dest", arr(vec![r(4), name("Fit")]))]));
    // array-headed recursive structures: colour-space arrays whose base colour space leads back into the array
    put(700, arr(vec![name("Indexed"), r(700), Object::Integer(1), lit("xx")]));
    put(701, arr(vec![name("Indexed"), r(702), Object::Integer(1), lit("xx")]));
    put(702, arr(vec![name("Indexed"), arr(vec![name("Indexed"), r(701), Object::Integer(1), lit("xx")]), Object::Integer(1), lit("xx")]));
    put(703, arr(vec![name("ICCBased"), r(703)]));
    put(704, arr(vec![name("Separation"), name("Spot"), r(704), r(704)]));
    doc.objects = o;
    doc.max_id = 964;
    doc.trailer.set("Root", r(1));
    doc.trailer.set("Encrypt", r(35));
    doc.trailer.set("ID", arr(vec![lit("id1"), lit("id2")]));
    doc
}

// -- sites -------------------------------------------------------------------------------------

/// A site: object number (0 = trailer) and a path of keys / array indices inside it.
#[derive(Debug, Clone, PartialEq)]
struct Site {
    obj: u32,
    path: Vec<String>,
    /// the last path element is a key the dictionary does NOT have: shapes are inserted
    insert: bool,
}

fn collect_sites(o: &Object, obj: u32, path: &mut Vec<String>, out: &mut Vec<Site>) {
    match o {
        Object::Dictionary(dd) => {
            for (k, v) in dd.iter() {
                path.push(format!("/{}", String::from_utf8_lossy(k)));
                out.push(Site { obj, path: path.clone(), insert: false });
                collect_sites(v, obj, path, out);
                path.pop();
            }
        }
        Object::Stream(s) => {
            for (k, v) in s.dict.iter() {
                path.push(format!("/{}", String::from_utf8_lossy(k)));
                out.push(Site { obj, path: path.clone(), insert: false });
                collect_sites(v, obj, path, out);
                path.pop();
            }
        }
        Object::Array(a) => {
            for (i, v) in a.iter().enumerate().take(6) {
                path.push(format!("[{}]", i));
                out.push(Site { obj, path: path.clone(), insert: false });
                collect_sites(v, obj, path, out);
                path.pop();
            }
        }
        _ => {}
    }
}

fn all_sites(doc: &Document) -> Vec<Site> {
    let mut out = vec![];
    collect_sites(&Object::Dictionary(doc.trailer.clone()), 0, &mut vec![], &mut out);
    for (id, o) in &doc.objects {
        if id.0 >= 90 {
            continue;
        }
        // the whole object itself is a site too
        out.push(Site { obj: id.0, path: vec![], insert: false });
        collect_sites(o, id.0, &mut vec![], &mut out);
    }
    // keys the query code reads, inserted where a top-level dictionary lacks them
    const ABSENT_KEYS: [&str; 22] = [
        "First", "Next", "Prev", "Last", "Parent", "Kids", "Count", "Dest", "A", "D", "S", "Title", "Names", "Dests", "Contents", "Resources",
        "Annots", "Font", "XObject", "Type", "Filter", "DecodeParms",
    ];
    for (id, o) in &doc.objects {
        if id.0 >= 90 {
            continue;
        }
        let dd = match o {
            Object::Dictionary(dd) => dd,
            Object::Stream(s) => &s.dict,
            _ => continue,
        };
        for k in ABSENT_KEYS {
            if !dd.has(k.as_bytes()) {
                out.push(Site { obj: id.0, path: vec![format!("/{}", k)], insert: true });
            }
        }
    }
    out
}

fn slot<'a>(o: &'a mut Object, path: &[String]) -> Option<&'a mut Object> {
    if path.is_empty() {
        return Some(o);
    }
    let (head, rest) = path.split_first().unwrap();
    if let Some(k) = head.strip_prefix('/') {
        let dd = match o {
            Object::Dictionary(dd) => dd,
            Object::Stream(s) => &mut s.dict,
            _ => return None,
        };
        slot(dd.get_mut(k.as_bytes()).ok()?, rest)
    } else {
        let i: usize = head.trim_matches(|c| c == '[' || c == ']').parse().ok()?;
        match o {
            Object::Array(a) => slot(a.get_mut(i)?, rest),
            _ => None,
        }
    }
}

const N_FIXED_SHAPES: usize = 56;

/// Shapes 0..17 are fixed values; shape 100+k is a reference to skeleton object k.
fn shape(code: usize, site: &Site) -> Option<Object> {
    Some(match code {
        0 => Object::Null,
        1 => Object::Boolean(true),
        2 => Object::Integer(0),
        3 => Object::Integer(-1),
        4 => Object::Integer(1 << 62),
        5 => Object::Real(1.5),
        6 => name("X"),
        7 => lit("s"),
        8 => arr(vec![]),
        9 => arr(vec![Object::Integer(1)]),
        10 => arr(vec![r(4), name("Fit")]),
        11 => d(vec![]),
        12 => r(999),
        13 => r(90),
        14 => r(92),
        15 => arr(vec![r(site.obj.max(1)), r(site.obj.max(1))]),
        16 => d(vec![("Type", name("Pages")), ("Kids", arr(vec![r(site.obj.max(1))])), ("Count", Object::Integer(1 << 40)), ("First", r(site.obj.max(1))), ("Next", r(site.obj.max(1)))]),
        17 => return None, // 17 = remove the entry (handled by the caller)
        18 => Object::String(vec![0xfe, 0xff, 0x00, 0x48, 0x00], StringFormat::Literal), // odd-length UTF-16BE
        19 => Object::String(vec![0xff, 0xfe, 0x41], StringFormat::Hexadecimal),         // odd-length UTF-16LE
        20 => Object::String(vec![0xef, 0xbb, 0xbf, 0xff, 0xc0], StringFormat::Literal), // invalid UTF-8 after the mark
        21 => Object::String(vec![], StringFormat::Literal),
        22 => Object::Name(vec![]),
        23 => Object::Real(-1e30),
        24 => arr(vec![arr(vec![]), d(vec![]), Object::Null, r(site.obj.max(1))]),
        // long strings with a multi-byte character (or bytes that decode lossily to one) around byte 64,
        // alone and inside the containers destinations and names live in
        25..=33 => {
            let s = long_string(code - 25);
            Object::String(s, StringFormat::Literal)
        }
        34 => arr(vec![Object::String(long_string(1), StringFormat::Literal)]),
        35 => d(vec![("D", Object::String(long_string(2), StringFormat::Literal)), ("S", name("GoTo"))]),
        36 => Object::Name(long_string(1)),
        // reference chains of exactly L hops to a dictionary, and a cycle of 130 references
        37 => r(300 + 200 - 126),
        38 => r(300 + 200 - 127),
        39 => r(300 + 200 - 128),
        40 => r(300 + 200 - 129),
        41 => r(300 + 200 - 130),
        42 => r(300),
        43 => r(600),
        // heavily shared acyclic graphs (see skeleton): as the value itself and one level down
        44 => r(800),
        45 => d(vec![("Dests", r(800)), ("Kids", arr(vec![r(800), r(800)]))]),
        46 => r(900),
        47 => d(vec![("First", r(900)), ("Last", r(964)), ("Count", Object::Integer(2)), ("Kids", arr(vec![r(900)]))]),
        // colour-space-like arrays that contain themselves through a reference
        48 => arr(vec![name("Indexed"), r(700), Object::Integer(1), lit("xx")]),
        49 => r(700),
        50 => arr(vec![name("Indexed"), r(701), Object::Integer(255), lit("xx")]),
        51 => r(702),
        52 => arr(vec![name("ICCBased"), r(703)]),
        53 => r(704),
        54 => arr(vec![name("Indexed"), name("DeviceRGB"), Object::Integer(1), lit("xx")]),
        55 => arr(vec![name("Indexed")]),
        k if k >= 200 => {
            // whole-stream replacement: plain content from the operator/operand menu
            let menu = content_menu();
            Object::Stream(Stream::new(Dictionary::new(), menu[(k - 200) % menu.len()].clone()))
        }
        k if k >= 100 => r((k - 100) as u32),
        _ => return None,
    })
}

/// 9 byte strings of 70..100 bytes: ASCII up to offset 61..65 then U+00E9 (2 bytes) / U+20AC (3 bytes) /
/// U+1F600 (4 bytes), a run of 0xFF (each decodes lossily to a 3-byte U+FFFD), and pure ASCII (control).
fn long_string(k: usize) -> Vec<u8> {
    let ascii = |n: usize| -> Vec<u8> { (0..n).map(|i| b'a' + (i % 26) as u8).collect() };
    let mut v;
    match k {
        0..=4 => {
            v = ascii(61 + k);
            v.extend_from_slice("\u{e9}".as_bytes());
            v.extend(ascii(20));
        }
        5 => {
            v = ascii(62);
            v.extend_from_slice("\u{20ac}\u{20ac}".as_bytes());
            v.extend(ascii(20));
        }
        6 => {
            v = ascii(61);
            v.extend_from_slice("\u{1f600}".as_bytes());
            v.extend(ascii(20));
        }
        7 => v = vec![0xff; 80],
        _ => v = ascii(100),
    }
    v
}

/// Content streams in which every text / graphics operator the queries interpret appears with
/// every small operand list (too few, too many, wrong kinds), after a font was selected.
fn content_menu() -> Vec<Vec<u8>> {
    let ops = ["Tj", "TJ", "'", "\"", "Tf", "Td", "TD", "Tm", "T*", "Tc", "Tw", "Tz", "TL", "Ts", "Tr", "BT", "ET", "Do", "cm", "q", "Q", "BI", "ID", "EI", "BDC", "BMC", "EMC", "gs", "sh"];
    let operands = ["", "(s)", "1", "1 2", "1 2 (s)", "(a) (b) (c)", "[(a) -300 (b)]", "[]", "[[(x)]]", "/F1", "/F1 12", "/Nope 12", "<00010002>", "<< /A 1 >>", "null", "true", "1 2 3 4 5 6 7"];
    let mut v = vec![];
    for prefix in ["BT /F1 12 Tf ", "BT /F2 12 Tf ", "", "BT "] {
        for op in ops {
            for a in operands {
                v.push(format!("{}{} {} ET", prefix, a, op).into_bytes());
            }
        }
    }
    v.push(b"BT /F1 12 Tf (unterminated".to_vec());
    v.push(b"BI /W 1 /H 1 /CS /G /BPC 8 ID x EI".to_vec());
    v.push(b"BI /W 9223372036854775807 /H 2 /CS /RGB /BPC 8 ID x EI".to_vec());
    v.push(vec![0xff; 64]);
    v
}

fn apply(doc: &mut Document, site: &Site, code: usize) -> bool {
    if site.insert {
        let Some(v) = shape(code, site) else { return false };
        let key = site.path[0].trim_start_matches('/').as_bytes().to_vec();
        return match doc.objects.get_mut(&(site.obj, 0)) {
            Some(Object::Dictionary(dd)) => {
                dd.set(key, v);
                true
            }
            Some(Object::Stream(st)) => {
                st.dict.set(key, v);
                true
            }
            _ => false,
        };
    }
    if code == 17 {
        // remove the key / element
        if site.path.is_empty() {
            return doc.objects.remove(&(site.obj, 0)).is_some();
        }
        let (last, parent_path) = site.path.split_last().unwrap();
        let root: Option<&mut Object> = if site.obj == 0 { None } else { doc.objects.get_mut(&(site.obj, 0)) };
        let remove_from = |o: &mut Object| -> bool {
            if let Some(p) = slot(o, parent_path) {
                if let Some(k) = last.strip_prefix('/') {
                    match p {
                        Object::Dictionary(dd) => dd.remove(k.as_bytes()).is_some(),
                        Object::Stream(s) => s.dict.remove(k.as_bytes()).is_some(),
                        _ => false,
                    }
                } else if let Object::Array(a) = p {
                    let i: usize = last.trim_matches(|c| c == '[' || c == ']').parse().unwrap_or(usize::MAX);
                    if i < a.len() {
                        a.remove(i);
                        true
                    } else {
                        false
                    }
                } else {
                    false
                }
            } else {
                false
            }
        };
        return match root {
            Some(o) => remove_from(o),
            None => {
                let mut t = Object::Dictionary(doc.trailer.clone());
                let ok = remove_from(&mut t);
                if let Object::Dictionary(dd) = t {
                    doc.trailer = dd;
                }
                ok
            }
        };
    }
    let v = match shape(code, site) {
        Some(v) => v,
        None => return false,
    };
    if site.obj == 0 {
        let mut t = Object::Dictionary(doc.trailer.clone());
        let ok = match slot(&mut t, &site.path) {
            Some(s) => {
                *s = v;
                true
            }
            None => false,
        };
        if let Object::Dictionary(dd) = t {
            doc.trailer = dd;
        }
        ok
    } else {
        match doc.objects.get_mut(&(site.obj, 0)).and_then(|o| slot(o, &site.path)) {
            Some(s) => {
                *s = v;
                true
            }
            None => false,
        }
    }
}

// -- queries -----------------------------------------------------------------------------------

const QUERIES: [&str; 22] = [
    "get_object+dereference", "get_dictionary", "catalog", "get_pages", "page_iter.size_hint", "get_page_contents", "get_page_content",
    "get_and_decode_page_content", "get_page_resources", "get_page_fonts", "get_page_annotations", "get_page_images", "get_object_page",
    "extract_text", "extract_text_chunks", "get_outlines", "get_named_destinations", "get_toc", "get_font_encoding+decode_text",
    "get_encrypted+get_crypt_filters", "get_plain_content(all streams)", "traverse(get_dict_in_dict)",
];

fn page_ids(doc: &Document) -> Vec<ObjectId> {
    // the skeleton's pages plus whatever the (possibly mutated) tree yields, bounded
    let mut v: Vec<ObjectId> = vec![(4, 0), (5, 0), (6, 0), (2, 0), (999, 0)];
    for p in doc.page_iter().take(16) {
        if !v.contains(&p) {
            v.push(p);
        }
    }
    v
}

fn run_query(doc: &Document, q: usize) {
    match q {
        0 => {
            for id in doc.objects.keys().cloned().collect::<Vec<_>>() {
                let _ = doc.get_object(id);
                if let Some(o) = doc.objects.get(&id) {
                    let _ = doc.dereference(o);
                }
            }
        }
        1 => {
            for id in doc.objects.keys() {
                let _ = doc.get_dictionary(*id);
            }
        }
        2 => {
            let _ = doc.catalog();
        }
        3 => {
            let _ = doc.get_pages();
        }
        4 => {
            let mut it = doc.page_iter();
            let _ = it.size_hint();
            let _ = it.next();
            let _ = it.size_hint();
        }
        5 => {
            for p in page_ids(doc) {
                let _ = doc.get_page_contents(p);
            }
        }
        6 => {
            for p in page_ids(doc) {
                let _ = doc.get_page_content(p);
            }
        }
        7 => {
            for p in page_ids(doc) {
                let _ = doc.get_and_decode_page_content(p);
            }
        }
        8 => {
            for p in page_ids(doc) {
                let _ = doc.get_page_resources(p);
            }
        }
        9 => {
            for p in page_ids(doc) {
                let _ = doc.get_page_fonts(p);
            }
        }
        10 => {
            for p in page_ids(doc) {
                let _ = doc.get_page_annotations(p);
            }
        }
        11 => {
            for p in page_ids(doc) {
                let _ = doc.get_page_images(p);
            }
        }
        12 => {
            let _ = doc.get_object_page((15, 0));
            let _ = doc.get_object_page((999, 0));
        }
        13 => {
            let _ = doc.extract_text(&[1, 2, 3, 4]);
        }
        14 => {
            let _ = doc.extract_text_chunks(&[1, 2, 3]);
        }
        15 => {
            let mut nd = IndexMap::new();
            let _ = doc.get_outlines(None, None, &mut nd);
        }
        16 => {
            for id in [(31u32, 0u16), (32, 0), (30, 0)] {
                if let Ok(t) = doc.get_dictionary(id) {
                    let mut nd = IndexMap::new();
                    let _ = doc.get_named_destinations(t, &mut nd);
                }
            }
        }
        17 => {
            let _ = doc.get_toc();
        }
        18 => {
            for id in [(12u32, 0u16), (14, 0), (1, 0)] {
                if let Ok(f) = doc.get_dictionary(id) {
                    if let Ok(enc) = f.get_font_encoding(doc) {
                        let _ = Document::decode_text(&enc, &[0, 1, 0, 2, 0x41, 0xff]);
                    }
                }
            }
        }
        19 => {
            let _ = doc.get_encrypted();
            let _ = doc.is_encrypted();
            let _ = doc.get_crypt_filters();
        }
        20 => {
            for o in doc.objects.values() {
                if let Object::Stream(s) = o {
                    let _ = s.get_plain_content();
                    let _ = s.filters();
                    let _ = s.decode_content();
                }
            }
        }
        21 => {
            for (_, o) in doc.objects.iter() {
                if let Object::Dictionary(dd) = o {
                    for k in [&b"Resources"[..], b"Font", b"XObject", b"A", b"First", b"Next", b"Outlines", b"Dests", b"Names", b"Pages"] {
                        let _ = doc.get_dict_in_dict(dd, k);
                    }
                }
            }
        }
        _ => {}
    }
}

/// worker side: input = JSON {"m": [[site_index, shape_code], ...], "q": optional query index}
fn exec(_entry: &str, input: &[u8]) -> String {
    let v: Value = serde_json::from_slice(input).unwrap();
    let mut doc = skeleton();
    let sites = all_sites(&doc);
    for m in v["m"].as_array().unwrap() {
        let s = &sites[m[0].as_u64().unwrap() as usize];
        apply(&mut doc, s, m[1].as_u64().unwrap() as usize);
    }
    let qs: Vec<usize> = match v["q"].as_u64() {
        Some(q) => vec![q as usize],
        None => (0..QUERIES.len()).collect(),
    };
    let mut bad = vec![];
    for q in qs {
        if let Err(p) = util::guard(|| run_query(&doc, q)) {
            bad.push(format!("{}@{}", QUERIES[q], p));
        }
    }
    if bad.is_empty() {
        "ok".into()
    } else {
        format!("PANICS {}", bad.join(" ;; "))
    }
}

fn normalise(msg: &str) -> String {
    // drop line numbers and concrete numbers so unrelated edits do not change the key
    let mut out = String::new();
    let mut prev_digit = false;
    for c in msg.chars() {
        if c.is_ascii_digit() {
            if !prev_digit {
                out.push('#');
            }
            prev_digit = true;
        } else {
            out.push(c);
            prev_digit = false;
        }
    }
    out
}

fn site_label(s: &Site) -> String {
    format!("obj{}{}", s.obj, s.path.join(""))
}

fn shape_label(code: usize) -> String {
    match code {
        0 => "null".into(),
        1 => "bool".into(),
        2 => "int0".into(),
        3 => "int-1".into(),
        4 => "int2^62".into(),
        5 => "real".into(),
        6 => "name".into(),
        7 => "string".into(),
        8 => "[]".into(),
        9 => "[int]".into(),
        10 => "[ref name]".into(),
        11 => "<<>>".into(),
        12 => "dangling-ref".into(),
        13 => "ref-into-2-cycle".into(),
        14 => "ref-to-integer".into(),
        15 => "[self self]".into(),
        16 => "pages-like-dict-pointing-at-self".into(),
        17 => "removed".into(),
        18 => "string-utf16be-odd".into(),
        19 => "string-utf16le-odd".into(),
        20 => "string-utf8-bad".into(),
        21 => "string-empty".into(),
        22 => "name-empty".into(),
        23 => "real-huge-negative".into(),
        24 => "[[] <<>> null self]".into(),
        25..=33 => format!("long-string-{}", code - 25),
        34 => "[long-string]".into(),
        35 => "<</D long-string /S /GoTo>>".into(),
        36 => "long-name".into(),
        37..=41 => format!("ref-chain-of-{}-hops", 126 + code - 37),
        42 => "ref-chain-of-200-hops".into(),
        43 => "ref-into-130-cycle".into(),
        44 => "ref-to-shared-name-tree(2^64 paths)".into(),
        45 => "<</Dests shared-name-tree /Kids [..]>>".into(),
        46 => "ref-to-shared-outline-items(2^64 paths)".into(),
        47 => "<</First shared-outline-items ..>>".into(),
        48 => "[/Indexed ref-to-self-containing-Indexed-array 1 (xx)]".into(),
        49 => "ref-to-self-containing-Indexed-array".into(),
        50 => "[/Indexed ref-into-2-cycle-of-Indexed-arrays 255 (xx)]".into(),
        51 => "ref-into-2-cycle-of-Indexed-arrays".into(),
        52 => "[/ICCBased ref-to-self-containing-array]".into(),
        53 => "ref-to-self-containing-Separation-array".into(),
        54 => "[/Indexed /DeviceRGB 1 (xx)]".into(),
        55 => "[/Indexed]".into(),
        k if k >= 200 => format!("stream-content:{}", String::from_utf8_lossy(&content_menu()[(k - 200) % content_menu().len()])),
        k => format!("ref-to-obj{}", k - 100),
    }
}

/// Finding id for a failing (query, key, shape-kind, failure) - DESIGN Appendix A.
fn classify(query: &str, site: &Site, code: usize, class: &Class, detail: &str) -> Option<&'static str> {
    let key = site.path.last().map(|s| s.as_str()).unwrap_or("");
    let is_ref_shape = code >= 100 || code == 13 || code == 16;
    let d = normalise(detail);
    match class {
        Class::Hang | Class::Abort | Class::Oversize => {
            if (key == "/Next" || key == "/First" || site.path.is_empty() || key == "/Outlines") && is_ref_shape && (query == "get_outlines" || query == "get_toc") {
                return Some("outline-link-cycle");
            }
            if (key == "/Count" || code == 16) && (query == "get_pages" || query == "extract_text" || query == "extract_text_chunks" || query == "get_object_page" || query == "get_toc") {
                return Some("pagetree-sizehint-count");
            }
            if key.starts_with("/Kids") || key.starts_with('[') {
                if is_ref_shape && (query == "get_named_destinations" || query == "get_outlines" || query == "get_toc") {
                    return Some("nametree-kids-cycle");
                }
            }
            None
        }
        Class::Panic => {
            if d.contains("document.rs") && d.contains("index out of bounds") && query == "get_page_images" {
                return Some("images-colorspace-empty");
            }
            if d.contains("outlines.rs") && d.contains("index out of bounds") {
                return Some("outline-dest-short");
            }
            if d.contains("destinations.rs") && (d.contains("index out of bounds") || d.contains("unwrap()")) {
                return Some("nameddest-malformed");
            }
            if d.contains("capacity overflow") || d.contains("alloc") {
                return Some("pagetree-sizehint-count");
            }
            None
        }
        Class::Returned => None,
    }
}

fn main() {
    let args: Vec<String> = std::env::args().collect();
    if args.iter().any(|a| a == "--worker") {
        let n = 8usize;
        let _ = rayon::ThreadPoolBuilder::new().num_threads(2).stack_size(n << 20).build_global();
        worker::serve(exec);
    }
    let run = Run::from_args("C13", "exploration");
    util::quiet_panics();
    let skel = skeleton();
    let sites = all_sites(&skel);
    if let Mode::Replay(path) = run.mode.clone() {
        let c = vharness::run::read_replay(&path);
        let input = serde_json::to_vec(&json!({"m": c["m"], "q": c["q"]})).unwrap();
        let o1 = worker::run_single(&Case { id: 0, entry: "q", input: input.clone(), logical_len: 0 }, &[]);
        let o2 = worker::run_single(&Case { id: 0, entry: "q", input, logical_len: 0 }, &[]);
        println!("observed: {:?} {} | second run: {:?}", o1.class, o1.detail, o2.class);
        let bad = o1.class != Class::Returned || o1.detail.starts_with("PANICS");
        run.finish_replay(bad);
    }
    // self-check: every query runs cleanly on the unmutated skeleton, and returns content
    // (the skeleton is itself one of the "arbitrary object graphs" - it carries unreferenced reference chains and
    // cycles - so a query that panics on it is a verdict, case = no deviation)
    for q in 0..QUERIES.len() {
        run.eval(1);
        if let Err(p) = util::guard(|| run_query(&skel, q)) {
            run.fail(None, json!({"m": [], "q": q, "query": QUERIES[q], "site": "none (unmutated skeleton)"}), &format!("Panic: {} (query {})", p, QUERIES[q]), "every query returns a value or an error");
        }
    }
    if skel.get_pages().len() != 3 || skel.get_toc().map(|t| t.toc.len()).unwrap_or(0) < 2 || skel.extract_text(&[1]).is_err() {
        eprintln!("MACHINERY: skeleton is not well-formed for the queries: pages {} toc {:?} text {:?}", skel.get_pages().len(), skel.get_toc().map(|t| t.toc.len()), skel.extract_text(&[1]));
        std::process::exit(3);
    }
    run.rule(
        "well-formed skeleton document containing everything the queries read; a site is every dictionary entry / array element / whole object \
         of the skeleton (superset of the keys the query code reads); 1 deviation: every site x 56 value shapes (incl. long strings with a multi-byte character around byte 64, reference chains of 126..130 and 200 hops, a 130-cycle, acyclic name trees / outline items with 2^64 paths through shared nodes) (also inserted under each of 22 query-relevant keys a dictionary lacks) (nine kinds, extremes, arrays, \
         dangling / cyclic / wrong-kind references, entry removed) plus every site x a reference to every object of the skeleton (all link cycles); \
         2 deviations (thorough): all pairs over the sites named by a key the query code reads; every case runs all 22 query groups in an isolated \
         worker; non-trivial = the mutation changes the skeleton (site exists); cases distinct by construction",
    );
    run.assume("budgets: 2 s per case, 8 MiB stacks, single allocation request <= 64*len+16 MiB (len = 0 here), RLIMIT_AS 6 GiB");
    // stale-site note: keys read by the query code that are not present in the skeleton
    let known_keys: std::collections::BTreeSet<String> = sites.iter().filter_map(|s| s.path.last().cloned()).collect();
    let mut missing = vec![];
    for f in ["document.rs", "outlines.rs", "destinations.rs", "toc.rs", "parser_aux.rs"] {
        if let Ok(text) = std::fs::read_to_string(format!("/repo/src/{}", f)) {
            let mut rest = text.as_str();
            while let Some(i) = rest.find("(b\"") {
                let tail = &rest[i + 3..];
                if let Some(j) = tail.find('"') {
                    let k = &tail[..j];
                    if !k.is_empty() && k.chars().all(|c| c.is_ascii_alphanumeric()) && !known_keys.contains(&format!("/{}", k)) && !missing.contains(&k.to_string()) {
                        missing.push(k.to_string());
                    }
                    rest = &tail[j..];
                } else {
                    break;
                }
            }
        }
    }
    run.set("keys_read_by_query_code_but_absent_from_skeleton_NOTE", json!(missing));
    run.set("sites", json!(sites.len()));
    // cases
    let obj_ids: Vec<u32> = skel.objects.keys().map(|k| k.0).filter(|n| *n < 300).collect();
    let mut cases: Vec<(Vec<(usize, usize)>, Case)> = vec![];
    let mut id = 0u64;
    let mut mk = |m: Vec<(usize, usize)>, cases: &mut Vec<(Vec<(usize, usize)>, Case)>| {
        let input = serde_json::to_vec(&json!({"m": m.iter().map(|(s, c)| json!([s, c])).collect::<Vec<_>>()})).unwrap();
        cases.push((m, Case { id, entry: "q", input, logical_len: 0 }));
        id += 1;
    };
    for (si, _s) in sites.iter().enumerate() {
        for code in 0..N_FIXED_SHAPES {
            mk(vec![(si, code)], &mut cases);
        }
        for k in &obj_ids {
            mk(vec![(si, 100 + *k as usize)], &mut cases);
        }
        // whole content / CMap / image streams replaced by every entry of the operator-operand menu
        if _s.path.is_empty() && !_s.insert && matches!(skel.objects.get(&(_s.obj, 0)), Some(Object::Stream(_))) {
            for j in 0..content_menu().len() {
                mk(vec![(si, 200 + j)], &mut cases);
            }
        }
    }
    let singles = cases.len();
    if run.thorough {
        // pairs over key sites (last path element is a key the code reads), reduced shape set
        let key_sites: Vec<usize> = sites
            .iter()
            .enumerate()
            .filter(|(_, s)| s.path.len() == 1 && s.path[0].starts_with('/') && !s.insert)
            .map(|(i, _)| i)
            .collect();
        let pair_shapes = [0usize, 4, 8, 9, 11, 12, 13, 16, 17, 18];
        for (a, sa) in key_sites.iter().enumerate() {
            for sb in key_sites.iter().skip(a + 1) {
                for ca in pair_shapes {
                    for cb in pair_shapes {
                        mk(vec![(*sa, ca), (*sb, cb)], &mut cases);
                    }
                }
            }
        }
    }
    run.set("single_deviation_cases", json!(singles));
    run.set("pair_cases", json!(cases.len() - singles));
    run.nontrivial(cases.len() as u64);
    run.sample(json!({"site": site_label(&sites[cases[singles / 2].0[0].0]), "shape": shape_label(cases[singles / 2].0[0].1), "queries": QUERIES}));
    let by_id: BTreeMap<u64, Vec<(usize, usize)>> = cases.iter().map(|(m, c)| (c.id, m.clone())).collect();
    let outcomes: Mutex<BTreeMap<String, u64>> = Mutex::new(BTreeMap::new());
    let failures: Mutex<Vec<(u64, Outcome)>> = Mutex::new(vec![]);
    let n_workers = std::thread::available_parallelism().map(|n| n.get()).unwrap_or(8);
    let only: Vec<Case> = cases.into_iter().map(|x| x.1).collect();
    worker::run_cases(only, n_workers, &[], &|c, o| {
        run.eval(QUERIES.len() as u64);
        let cl = if o.class == Class::Returned && o.detail.starts_with("PANICS") { "Panic".to_string() } else { format!("{:?}", o.class) };
        *outcomes.lock().unwrap().entry(cl).or_insert(0) += 1;
        if o.class != Class::Returned || o.detail.starts_with("PANICS") {
            failures.lock().unwrap().push((c.id, o.clone()));
        }
    });
    run.set("outcomes_by_class", json!(outcomes.lock().unwrap().clone()));
    // pinpoint and report failures
    let fl = failures.lock().unwrap().clone();
    let pin: Mutex<Vec<(Vec<(usize, usize)>, usize, Class, String)>> = Mutex::new(vec![]);
    let mut recheck: Vec<Case> = vec![];
    let mut recheck_meta: BTreeMap<u64, (Vec<(usize, usize)>, usize)> = BTreeMap::new();
    let mut rid = 1_000_000u64;
    for (cid, o) in &fl {
        let m = by_id[cid].clone();
        if o.class == Class::Returned {
            // panics caught in the worker: detail lists the queries
            for part in o.detail.trim_start_matches("PANICS ").split(" ;; ") {
                if let Some((q, p)) = part.split_once('@') {
                    let qi = QUERIES.iter().position(|x| *x == q).unwrap_or(0);
                    pin.lock().unwrap().push((m.clone(), qi, Class::Panic, p.to_string()));
                }
            }
        } else {
            // hang / abort / oversize: find the query by running each alone in a fresh worker
            for q in 0..QUERIES.len() {
                let input = serde_json::to_vec(&json!({"m": m.iter().map(|(s, c)| json!([s, c])).collect::<Vec<_>>(), "q": q})).unwrap();
                recheck.push(Case { id: rid, entry: "q", input, logical_len: 0 });
                recheck_meta.insert(rid, (m.clone(), q));
                rid += 1;
            }
        }
    }
    worker::run_cases(recheck, n_workers, &[], &|c, o| {
        let (m, q) = recheck_meta[&c.id].clone();
        if o.class != Class::Returned {
            pin.lock().unwrap().push((m, q, o.class.clone(), o.detail.clone()));
        } else if o.detail.starts_with("PANICS") {
            pin.lock().unwrap().push((m, q, Class::Panic, o.detail.clone()));
        }
    });
    let mut seen_keys: BTreeMap<String, u64> = BTreeMap::new();
    for (m, q, class, detail) in pin.lock().unwrap().iter() {
        let site = &sites[m[m.len() - 1].0];
        let code = m[m.len() - 1].1;
        // for pairs, try both members for classification
        let mut f = None;
        for (si, co) in m {
            f = f.or(classify(QUERIES[*q], &sites[*si], *co, class, detail));
        }
        let key = format!("{}|{:?}|{}", QUERIES[*q], class, normalise(detail.split(": ").next().unwrap_or("")));
        *seen_keys.entry(key).or_insert(0) += 1;
        run.fail(
            f,
            json!({"m": m.iter().map(|(s, c)| json!([s, c])).collect::<Vec<_>>(), "q": q, "query": QUERIES[*q],
                   "sites": m.iter().map(|(s, c)| json!([site_label(&sites[*s]), shape_label(*c)])).collect::<Vec<_>>()}),
            &format!("{:?}: {} (query {}, site {} := {})", class, detail, QUERIES[*q], site_label(site), shape_label(code)),
            "the query returns a value or an error",
        );
    }
    run.set("distinct_failure_sites", json!(seen_keys));
    run.exhaustive(true);
    run.finish();
}
