//! C10 - renumbering objects preserves the document graph (DESIGN §4 C10).
//!
//! Every object of every enumerated document carries an immutable integer `/Tag`, so the renaming
//! rho (old id -> new id) can be read off the renumbered document without trusting any of the
//! code under test. The oracle is generic (it needs only the document, the bookmark list and the
//! start value), so a replay file is just that triple.
//!
//! Families: A small graphs over every number set, B full page trees with every reference
//! placement, D references below up to 1000 (thorough 2000) levels of nested containers,
//! H documents with a history (earlier renumbering, deletions, additions, saving, stale max_id)
//! compared against the state right before the call, W hundreds to thousands of objects,
//! L alias objects (indirect objects whose whole value is a reference), arrays and scalars as
//! whole objects - these carry no tag; their new ids are read off the references leading to them,
//! M page trees whose Kids hold a dangling / unusable entry of every flavour (in particular the
//! number of a live object under another generation) and Pages nodes without a usable Kids entry
//! among page siblings, S alias documents (indirect Kids / Type / Count / Pages / Root) with a
//! stale max_id or a history through the public `objects` map.
use lopdf::{Bookmark, Dictionary, Document, Object, ObjectId, Stream};
use serde_json::{json, Value};
use std::collections::{BTreeMap, BTreeSet, HashMap};
use std::sync::atomic::{AtomicU64, Ordering};
use vharness::objjson::{doc_from_json, doc_to_json, show};
use vharness::{util, Mode, Run};

const CHAIN: &str = "bookmark-remap-chain";
const DANGLE: &str = "dangling-ref-collision";

// ---------------------------------------------------------------------------------------------
// document shapes

/// Roles, in this order: Cat, [Root], [Inter], P1..Pk, [Info], [Shared], [Orphan], [Strm].
#[derive(Clone, Debug, PartialEq)]
struct Shape {
    tree: bool,
    k: usize,
    /// pages [a, b) hang under an intermediate Pages node
    inter: Option<(usize, usize)>,
    info: bool,
    shared: bool,
    orphan: bool,
    strm: bool,
    /// references to every object (and every dangling reference) placed below `depth` levels of
    /// containers inside one direct object
    deep: Option<Deep>,
}

#[derive(Clone, Debug, PartialEq)]
struct Deep {
    /// the direct object holding the nest: "trailer" | "catalog" | "page" (first page) | "stream" | "info"
    place: String,
    /// "a" arrays only | "d" dictionaries only | "m" alternating
    kind: String,
    /// number of containers between the holder's /Deep entry and the references (>= 1)
    depth: usize,
}

impl Shape {
    fn plain(k: usize) -> Shape {
        Shape { tree: k > 0, k, inter: None, info: false, shared: false, orphan: false, strm: false, deep: None }
    }
    fn deep(mut self, place: &str, kind: &str, depth: usize) -> Shape {
        self.deep = Some(Deep { place: place.into(), kind: kind.into(), depth });
        self
    }
    fn with(mut self, extras: &str) -> Shape {
        for c in extras.chars() {
            match c {
                'i' => self.info = true,
                's' => self.shared = true,
                'o' => self.orphan = true,
                't' => self.strm = true,
                _ => unreachable!(),
            }
        }
        self
    }
    fn inter(mut self, a: usize, b: usize) -> Shape {
        self.inter = Some((a, b));
        self
    }
    fn n(&self) -> usize {
        1 + self.tree as usize + self.inter.is_some() as usize + self.k + self.info as usize + self.shared as usize + self.orphan as usize + self.strm as usize
    }
    fn page_base(&self) -> usize {
        1 + self.tree as usize + self.inter.is_some() as usize
    }
    fn to_json(&self) -> Value {
        json!({"tree": self.tree, "pages": self.k, "inter": self.inter.map(|(a, b)| vec![a, b]), "info": self.info,
               "shared": self.shared, "orphan": self.orphan, "stream": self.strm,
               "deep": self.deep.as_ref().map(|d| json!({"place": d.place, "kind": d.kind, "depth": d.depth}))})
    }
    fn from_json(v: &Value) -> Shape {
        Shape {
            tree: v["tree"].as_bool().unwrap(),
            k: v["pages"].as_u64().unwrap() as usize,
            inter: v["inter"].as_array().map(|a| (a[0].as_u64().unwrap() as usize, a[1].as_u64().unwrap() as usize)),
            info: v["info"].as_bool().unwrap(),
            shared: v["shared"].as_bool().unwrap(),
            orphan: v["orphan"].as_bool().unwrap(),
            strm: v["stream"].as_bool().unwrap(),
            deep: v.get("deep").filter(|d| d.is_object()).map(|d| Deep {
                place: d["place"].as_str().unwrap().to_string(),
                kind: d["kind"].as_str().unwrap().to_string(),
                depth: d["depth"].as_u64().unwrap() as usize,
            }),
        }
    }
}

fn name(s: &str) -> Object {
    Object::Name(s.as_bytes().to_vec())
}
fn rf(id: ObjectId) -> Object {
    Object::Reference(id)
}
fn dict(e: Vec<(&str, Object)>) -> Dictionary {
    let mut d = Dictionary::new();
    for (k, v) in e {
        d.set(k.as_bytes().to_vec(), v);
    }
    d
}

/// `refs` below `depth` nested containers, built from the inside out (no recursion). Level 1 is
/// the outermost container, level `depth` holds the references. Every level also carries an
/// integer, and every 50th level a reference to `side`.
fn nest(kind: &str, depth: usize, refs: &[ObjectId], side: ObjectId) -> Object {
    assert!(depth >= 1);
    let is_arr = |level: usize| match kind {
        "a" => true,
        "d" => false,
        _ => level % 2 == 1,
    };
    let mut o = if is_arr(depth) {
        Object::Array(refs.iter().map(|r| rf(*r)).collect())
    } else {
        let mut d = Dictionary::new();
        for (i, r) in refs.iter().enumerate() {
            d.set(format!("R{}", i).into_bytes(), rf(*r));
        }
        Object::Dictionary(d)
    };
    for level in (1..depth).rev() {
        let side_ref = if level % 50 == 0 { Some(rf(side)) } else { None };
        o = if is_arr(level) {
            let mut v = vec![Object::Integer(level as i64)];
            v.extend(side_ref);
            v.push(o);
            Object::Array(v)
        } else {
            let mut d = Dictionary::new();
            d.set("V", Object::Integer(level as i64));
            if let Some(s) = side_ref {
                d.set("S", s);
            }
            d.set("N", o);
            Object::Dictionary(d)
        };
    }
    o
}

/// Build the document of `sh` with role i stored under `ids[i]`; `dang` are references to objects
/// that do not exist. Returns the document and the intended page order.
fn build(sh: &Shape, ids: &[ObjectId], dang: &[ObjectId]) -> (Document, Vec<ObjectId>) {
    assert_eq!(ids.len(), sh.n());
    let mut next = 0usize;
    let mut take = |present: bool| -> Option<(ObjectId, i64)> {
        if present {
            next += 1;
            Some((ids[next - 1], 100 + (next - 1) as i64))
        } else {
            None
        }
    };
    let cat = take(true).unwrap();
    let root = take(sh.tree);
    let inter = take(sh.inter.is_some());
    let pages: Vec<(ObjectId, i64)> = (0..sh.k).map(|_| take(true).unwrap()).collect();
    let info = take(sh.info);
    let shared = take(sh.shared);
    let orphan = take(sh.orphan);
    let strm = take(sh.strm);
    let dang_arr = || Object::Array(dang.iter().map(|d| rf(*d)).collect());

    let mut doc = Document::with_version("1.5");
    if !dang.is_empty() {
        // stale references (same number, other generation) to every object, discovered by any
        // traversal BEFORE the real references because this is the first trailer entry
        doc.trailer.set("Aaa", Object::Array(ids.iter().map(|i| rf((i.0, 1 - i.1.min(1)))).collect()));
    }
    let mut put = |id: ObjectId, o: Object| {
        assert!(doc.objects.insert(id, o).is_none(), "duplicate id in generator");
    };
    // catalog
    let mut c = dict(vec![("Type", name("Catalog")), ("Tag", Object::Integer(cat.1)), ("Self", rf(cat.0))]);
    c.set("Nested", Object::Array(vec![Object::Dictionary(dict(vec![("In", Object::Array(vec![rf(cat.0), Object::Integer(7)]))]))]));
    if let Some(r) = root {
        c.set("Pages", rf(r.0));
    }
    if let Some(s) = shared {
        c.set("Sh", rf(s.0));
    }
    if let (Some(s), false) = (strm, sh.tree) {
        c.set("St", rf(s.0));
    }
    if !dang.is_empty() {
        c.set("Dang", dang_arr());
    }
    put(cat.0, Object::Dictionary(c));
    // page tree
    if let Some(r) = root {
        let mut kids = vec![];
        for (i, p) in pages.iter().enumerate() {
            match sh.inter {
                Some((a, b)) if i >= a && i < b => {
                    if i == a {
                        kids.push(rf(inter.unwrap().0));
                    }
                }
                _ => kids.push(rf(p.0)),
            }
        }
        put(
            r.0,
            Object::Dictionary(dict(vec![("Type", name("Pages")), ("Tag", Object::Integer(r.1)), ("Kids", Object::Array(kids)), ("Count", Object::Integer(sh.k as i64))])),
        );
        if let (Some(it), Some((a, b))) = (inter, sh.inter) {
            put(
                it.0,
                Object::Dictionary(dict(vec![
                    ("Type", name("Pages")),
                    ("Tag", Object::Integer(it.1)),
                    ("Parent", rf(r.0)),
                    ("Kids", Object::Array(pages[a..b].iter().map(|p| rf(p.0)).collect())),
                    ("Count", Object::Integer((b - a) as i64)),
                ])),
            );
        }
        for (i, p) in pages.iter().enumerate() {
            let parent = match sh.inter {
                Some((a, b)) if i >= a && i < b => inter.unwrap().0,
                _ => r.0,
            };
            let mut d = dict(vec![
                ("Type", name("Page")),
                ("Tag", Object::Integer(p.1)),
                ("Parent", rf(parent)),
                ("Next", rf(pages[(i + 1) % sh.k].0)),
                ("MediaBox", Object::Array(vec![0.into(), 0.into(), 10.into(), 10.into()])),
            ]);
            if let Some(s) = shared {
                d.set("Sh", Object::Array(vec![Object::Array(vec![rf(s.0)])]));
            }
            if let (Some(s), 0) = (strm, i) {
                d.set("Contents", rf(s.0));
            }
            put(p.0, Object::Dictionary(d));
        }
    }
    if let Some(i) = info {
        put(i.0, Object::Dictionary(dict(vec![("Tag", Object::Integer(i.1)), ("Title", Object::string_literal("t")), ("Back", rf(cat.0))])));
        doc.trailer.set("Info", rf(i.0));
    }
    if let Some(s) = shared {
        let mut d = dict(vec![("Tag", Object::Integer(s.1)), ("Back", rf(cat.0))]);
        if let Some(p) = pages.first() {
            d.set("Peer", rf(p.0));
        }
        put(s.0, Object::Dictionary(d));
        doc.trailer.set("X", Object::Array(vec![rf(s.0)]));
    }
    if let Some(o) = orphan {
        let mut d = dict(vec![("Tag", Object::Integer(o.1)), ("A", rf(cat.0)), ("Self", rf(o.0))]);
        if let Some(p) = pages.last() {
            d.set("B", rf(p.0));
        }
        if !dang.is_empty() {
            d.set("D", dang_arr());
        }
        put(o.0, Object::Dictionary(d));
    }
    if let Some(s) = strm {
        let owner = pages.first().map(|p| p.0).unwrap_or(cat.0);
        let d = dict(vec![("Tag", Object::Integer(s.1)), ("Owner", rf(owner))]);
        put(s.0, Object::Stream(Stream::new(d, b"q Q".to_vec())));
    }
    doc.trailer.set("Root", rf(cat.0));
    doc.trailer.set("ID", Object::Array(vec![Object::string_literal("a"), Object::string_literal("b")]));
    if let Some(dp) = &sh.deep {
        let mut refs: Vec<ObjectId> = ids.to_vec();
        refs.extend(dang.iter().cloned());
        let val = nest(&dp.kind, dp.depth, &refs, cat.0);
        let holder = match dp.place.as_str() {
            "trailer" => None,
            "catalog" => Some(cat.0),
            "page" => Some(pages.first().expect("deep place 'page' needs a page").0),
            "stream" => Some(strm.expect("deep place 'stream' needs the stream").0),
            "info" => Some(info.expect("deep place 'info' needs Info").0),
            other => panic!("unknown deep place {}", other),
        };
        match holder {
            None => doc.trailer.set("Deep", val),
            Some(h) => match doc.objects.get_mut(&h) {
                Some(Object::Dictionary(d)) => d.set("Deep", val),
                Some(Object::Stream(s)) => s.dict.set("Deep", val),
                _ => panic!("deep holder is not a dictionary or stream"),
            },
        }
    }
    doc.max_id = ids.iter().map(|i| i.0).max().unwrap_or(0);
    (doc, pages.iter().map(|p| p.0).collect())
}

/// Dangling references for a document with these ids renumbered from `start`: the first and
/// the last free number inside the new range (both generations), one number beyond every
/// range, and the number of the first object with the other generation.
fn dangling(ids: &[ObjectId], start: u32) -> Vec<ObjectId> {
    let n = ids.len() as u32;
    let old: BTreeSet<u32> = ids.iter().map(|i| i.0).collect();
    let free: Vec<u32> = (start..start + n).filter(|x| !old.contains(x)).collect();
    let mut out = vec![];
    if let Some(&f) = free.first() {
        out.push((f, 0));
        out.push((f, 1));
        let l = *free.last().unwrap();
        if l != f {
            out.push((l, 0));
            out.push((l, 1));
        }
    }
    let beyond = (*old.iter().next_back().unwrap()).max(start + n - 1) + 7;
    out.push((beyond, 0));
    out.push((ids[0].0, 1 - ids[0].1));
    out
}

// ---------------------------------------------------------------------------------------------
// the oracle

fn dict_of(o: &Object) -> Option<&Dictionary> {
    match o {
        Object::Dictionary(d) => Some(d),
        Object::Stream(s) => Some(&s.dict),
        _ => None,
    }
}

fn tag_of(o: &Object) -> Option<i64> {
    dict_of(o)?.get(b"Tag").ok()?.as_i64().ok()
}

/// The object stored under `id`, read through a chain of alias objects (indirect objects whose
/// whole value is a reference): the id of the last object of the chain and its value. None when
/// the chain leads to a missing object or does not end within 16 hops.
fn resolve_alias(doc: &Document, id: ObjectId) -> Option<(ObjectId, &Object)> {
    let mut id = id;
    for _ in 0..16 {
        match doc.objects.get(&id)? {
            Object::Reference(r) => id = *r,
            o => return Some((id, o)),
        }
    }
    None
}

/// Reference page order of a well-formed page tree: depth-first, left to right. A link of the tree
/// (Root, Pages, a kid entry, a Kids value) may lead through alias objects; a page is listed
/// under the id its kid ENTRY names (the head of the alias chain, if any).
fn ref_pages(doc: &Document) -> Vec<ObjectId> {
    fn kids_of<'a>(doc: &'a Document, d: &'a Dictionary) -> &'a [Object] {
        match d.get(b"Kids") {
            Ok(Object::Array(a)) => a,
            Ok(Object::Reference(r)) => match resolve_alias(doc, *r) {
                Some((_, Object::Array(a))) => a,
                _ => &[],
            },
            _ => &[],
        }
    }
    fn walk(doc: &Document, id: ObjectId, out: &mut Vec<ObjectId>, depth: usize) {
        if depth > 64 {
            return;
        }
        let Some(d) = resolve_alias(doc, id).and_then(|(_, o)| dict_of(o)) else { return };
        // the value of Type may sit behind references like any other value
        let ty = match d.get(b"Type") {
            Ok(Object::Reference(r)) => resolve_alias(doc, *r).map(|x| x.1),
            Ok(o) => Some(o),
            Err(_) => None,
        };
        match ty {
            Some(Object::Name(t)) if t == b"Page" => out.push(id),
            Some(Object::Name(t)) if t == b"Pages" => {
                for k in kids_of(doc, d) {
                    if let Object::Reference(r) = k {
                        walk(doc, *r, out, depth + 1);
                    }
                }
            }
            _ => {}
        }
    }
    let mut out = vec![];
    let root = match doc.trailer.get(b"Root") {
        Ok(Object::Reference(r)) => *r,
        _ => return out,
    };
    let pages = match resolve_alias(doc, root).and_then(|(_, o)| dict_of(o)).and_then(|c| c.get(b"Pages").ok()) {
        Some(Object::Reference(r)) => *r,
        _ => return out,
    };
    walk(doc, pages, &mut out, 0);
    out
}

/// The ids of the objects the listed ids denote (alias chains followed).
fn denoted(doc: &Document, ids: &[ObjectId]) -> Vec<ObjectId> {
    ids.iter().map(|i| resolve_alias(doc, *i).map(|r| r.0).unwrap_or(*i)).collect()
}

struct Prep {
    doc: Document,
    tag2old: BTreeMap<i64, ObjectId>,
    /// objects that carry no tag (alias objects, arrays and scalars as whole objects): their new
    /// ids are recovered from the references that lead to them
    untagged: BTreeSet<ObjectId>,
    /// objects reachable from the trailer through references that resolve
    reach: Vec<ObjectId>,
    pages: Vec<ObjectId>,
}

fn collect_refs(o: &Object, out: &mut Vec<ObjectId>) {
    match o {
        Object::Reference(r) => out.push(*r),
        Object::Array(a) => a.iter().for_each(|x| collect_refs(x, out)),
        Object::Dictionary(d) => d.iter().for_each(|(_, v)| collect_refs(v, out)),
        Object::Stream(s) => s.dict.iter().for_each(|(_, v)| collect_refs(v, out)),
        _ => {}
    }
}

fn prepare(doc: Document) -> Result<Prep, String> {
    let mut tag2old = BTreeMap::new();
    let mut untagged = BTreeSet::new();
    let mut nums = BTreeSet::new();
    for (id, o) in &doc.objects {
        match tag_of(o) {
            Some(t) => {
                if tag2old.insert(t, *id).is_some() {
                    return Err(format!("tag {} used twice (outside the check's domain)", t));
                }
            }
            None if dict_of(o).is_some() => return Err(format!("dictionary / stream object {:?} carries no integer /Tag (outside the check's domain)", id)),
            None => {
                untagged.insert(*id);
            }
        }
        if !nums.insert(id.0) {
            return Err(format!("object number {} used twice (outside the property's domain)", id.0));
        }
    }
    let mut reach = vec![];
    let mut seen = BTreeSet::new();
    let mut todo = vec![];
    doc.trailer.iter().for_each(|(_, v)| collect_refs(v, &mut todo));
    while let Some(r) = todo.pop() {
        if let Some(o) = doc.objects.get(&r) {
            if seen.insert(r) {
                reach.push(r);
                collect_refs(o, &mut todo);
            }
        }
    }
    reach.sort();
    let pages = ref_pages(&doc);
    Ok(Prep { doc, tag2old, untagged, reach, pages })
}

#[derive(Debug, Clone)]
enum Mis {
    /// anything that is not one of the two special forms below
    Content(String),
    /// a reference that resolved to nothing now resolves to an object
    Dangling { path: String, orig: ObjectId, got: ObjectId },
    Bookmark { idx: usize, old_page: ObjectId, expected: ObjectId, got: ObjectId },
}

impl Mis {
    fn text(&self) -> String {
        match self {
            Mis::Content(s) => s.clone(),
            Mis::Dangling { path, orig, got } => format!(
                "{}: reference {} {} R resolved to nothing before; afterwards it reads {} {} R which resolves to an object",
                path, orig.0, orig.1, got.0, got.1
            ),
            Mis::Bookmark { idx, old_page, expected, got } => format!(
                "bookmark #{} (page was {} {} R): page is {} {} R, expected rho(page) = {} {} R",
                idx + 1, old_page.0, old_page.1, got.0, got.1, expected.0, expected.1
            ),
        }
    }
}

enum Seg<'a> {
    K(&'a [u8]),
    I(usize),
}

fn render(root: &str, path: &[Seg]) -> String {
    let mut s = root.to_string();
    if path.len() > 12 {
        // a long path: the first and the last segments and the number of levels between them
        let head = render("", &path[..4]);
        let tail = render("", &path[path.len() - 4..]);
        return format!("{}{}..({} levels, {} segments in all)..{}", s, head, path.len() - 8, path.len(), tail);
    }
    for p in path {
        match p {
            Seg::K(k) => {
                s.push('/');
                s.push_str(&String::from_utf8_lossy(k));
            }
            Seg::I(i) => s.push_str(&format!("[{}]", i)),
        }
    }
    s
}

struct Ctx<'a> {
    rho: &'a BTreeMap<ObjectId, ObjectId>,
    new_objects: &'a BTreeMap<ObjectId, Object>,
    /// None = the trailer, Some((old, new)) = an indirect object
    root: Option<(ObjectId, ObjectId)>,
}

impl Ctx<'_> {
    fn at(&self, path: &[Seg]) -> String {
        let root = match self.root {
            None => "trailer".to_string(),
            Some((old, new)) => format!("obj({} {} -> {} {})", old.0, old.1, new.0, new.1),
        };
        render(&root, path)
    }
}

/// `n` must equal `o` with every resolving reference r replaced by rho(r); a reference that
/// resolved to nothing must still resolve to nothing (a reference to a missing object, or null,
/// which is what such a reference denotes).
fn cmp_ren<'a>(o: &'a Object, n: &'a Object, path: &mut Vec<Seg<'a>>, cx: &Ctx, out: &mut Vec<Mis>) {
    match (o, n) {
        (Object::Reference(r), _) => match cx.rho.get(r) {
            Some(nr) => {
                if n != &Object::Reference(*nr) {
                    out.push(Mis::Content(format!(
                        "{}: reference {} {} R must become {} {} R, got {}",
                        cx.at(path), r.0, r.1, nr.0, nr.1, show(n)
                    )));
                }
            }
            None => match n {
                Object::Null => {}
                Object::Reference(x) if !cx.new_objects.contains_key(x) => {}
                Object::Reference(x) => out.push(Mis::Dangling { path: cx.at(path), orig: *r, got: *x }),
                _ => out.push(Mis::Content(format!("{}: dangling reference {} {} R became {}", cx.at(path), r.0, r.1, show(n)))),
            },
        },
        (Object::Array(a), Object::Array(b)) => {
            if a.len() != b.len() {
                out.push(Mis::Content(format!("{}: array length {} became {}", cx.at(path), a.len(), b.len())));
                return;
            }
            for (i, (x, y)) in a.iter().zip(b.iter()).enumerate() {
                path.push(Seg::I(i));
                cmp_ren(x, y, path, cx, out);
                path.pop();
            }
        }
        (Object::Dictionary(a), Object::Dictionary(b)) => cmp_dict(a, b, path, cx, out),
        (Object::Stream(a), Object::Stream(b)) => {
            cmp_dict(&a.dict, &b.dict, path, cx, out);
            if a.content != b.content {
                out.push(Mis::Content(format!("{}: stream body changed", cx.at(path))));
            }
        }
        _ => {
            if o != n {
                out.push(Mis::Content(format!("{}: expected {} got {}", cx.at(path), show(o), show(n))));
            }
        }
    }
}

fn cmp_dict<'a>(a: &'a Dictionary, b: &'a Dictionary, path: &mut Vec<Seg<'a>>, cx: &Ctx, out: &mut Vec<Mis>) {
    // fast path: same keys in the same order (entry order itself is not compared)
    if a.len() == b.len() && a.iter().zip(b.iter()).all(|(x, y)| x.0 == y.0) {
        for ((k, v), (_, w)) in a.iter().zip(b.iter()) {
            path.push(Seg::K(k));
            cmp_ren(v, w, path, cx, out);
            path.pop();
        }
        return;
    }
    for (k, v) in a.iter() {
        match b.get(k) {
            Ok(w) => {
                path.push(Seg::K(k));
                cmp_ren(v, w, path, cx, out);
                path.pop();
            }
            Err(_) => out.push(Mis::Content(format!("{}: key /{} disappeared", cx.at(path), String::from_utf8_lossy(k)))),
        }
    }
    for (k, _) in b.iter() {
        if !a.has(k) {
            out.push(Mis::Content(format!("{}: key /{} appeared", cx.at(path), String::from_utf8_lossy(k))));
        }
    }
}

type Bm = (ObjectId, Option<usize>);

#[derive(Default)]
struct Outcome {
    fatal: Option<String>,
    mis: Vec<Mis>,
    identity: bool,
    collision: bool,
    reordered: bool,
}

impl Outcome {
    fn failed(&self) -> bool {
        self.fatal.is_some() || !self.mis.is_empty()
    }
    fn text(&self) -> String {
        let mut v: Vec<String> = self.fatal.iter().cloned().collect();
        v.extend(self.mis.iter().map(|m| m.text()));
        v.join(" | ")
    }
}

fn ids_str(v: &[ObjectId]) -> String {
    v.iter().map(|i| format!("{} {}", i.0, i.1)).collect::<Vec<_>>().join(", ")
}

fn add_bookmarks(d: &mut Document, bms: &[Bm]) -> Result<(), String> {
    for (i, (page, parent)) in bms.iter().enumerate() {
        let got = d.add_bookmark(Bookmark::new(format!("b{}", i + 1), [0.0, 0.0, 0.0], 0, *page), parent.map(|x| x as u32 + 1));
        if got != i as u32 + 1 {
            return Err(format!("add_bookmark returned id {} for bookmark #{}", got, i + 1));
        }
    }
    Ok(())
}

/// Walk an object and its renumbered counterpart in parallel and list the pairs (old target, new
/// target) of the references found at the same place.
fn pair_refs(o: &Object, n: &Object, out: &mut Vec<(ObjectId, ObjectId)>) {
    match (o, n) {
        (Object::Reference(a), Object::Reference(b)) => out.push((*a, *b)),
        (Object::Array(x), Object::Array(y)) if x.len() == y.len() => x.iter().zip(y.iter()).for_each(|(a, b)| pair_refs(a, b, out)),
        (Object::Dictionary(x), Object::Dictionary(y)) => pair_dict_refs(x, y, out),
        (Object::Stream(x), Object::Stream(y)) => pair_dict_refs(&x.dict, &y.dict, out),
        _ => {}
    }
}

fn pair_dict_refs(x: &Dictionary, y: &Dictionary, out: &mut Vec<(ObjectId, ObjectId)>) {
    for (k, v) in x.iter() {
        if let Ok(w) = y.get(k) {
            pair_refs(v, w, out);
        }
    }
}

/// The renaming of the objects that carry no tag. A reachable one is named by a reference inside
/// an object whose counterpart is already known (the trailer, a tagged object, or an untagged
/// object found this way), so its new id is whatever that reference has become - provided that
/// is an untagged object nobody else has claimed; the content comparison then decides whether the
/// pair really corresponds. Untagged objects no reference leads to (unreachable ones, and the
/// victims of a wrong rewrite) are paired in ascending order within their generation: they only
/// have to be renumbered.
fn recover_untagged(p: &Prep, d: &Document, new_untagged: BTreeSet<ObjectId>, rho: &mut BTreeMap<ObjectId, ObjectId>) -> Result<(), String> {
    let mut todo: Vec<(ObjectId, ObjectId)> = vec![];
    let mut next = 0usize;
    pair_dict_refs(&p.doc.trailer, &d.trailer, &mut todo);
    for old in &p.reach {
        if let Some(new) = rho.get(old) {
            pair_refs(&p.doc.objects[old], &d.objects[new], &mut todo);
        }
    }
    let mut free = new_untagged;
    while next < todo.len() {
        let (a, b) = todo[next];
        next += 1;
        if !p.untagged.contains(&a) || rho.contains_key(&a) || !free.contains(&b) {
            continue;
        }
        free.remove(&b);
        rho.insert(a, b);
        pair_refs(&p.doc.objects[&a], &d.objects[&b], &mut todo);
    }
    let rest: Vec<ObjectId> = p.untagged.iter().filter(|u| !rho.contains_key(u)).cloned().collect();
    for u in rest {
        match free.iter().find(|f| f.1 == u.1).cloned() {
            Some(f) => {
                free.remove(&f);
                rho.insert(u, f);
            }
            None => return Err(format!("generation changed: no object of generation {} is left for old object {} {}", u.1, u.0, u.1)),
        }
    }
    Ok(())
}

/// Execute the real code on one case and compare against the statement of the property.
fn run_case(p: &Prep, bms: &[Bm], start: Option<u32>) -> Outcome {
    let mut d = p.doc.clone();
    if let Err(e) = add_bookmarks(&mut d, bms) {
        return Outcome { fatal: Some(e), ..Outcome::default() };
    }
    run_final(p, d, start)
}

/// Renumber `d` (whose objects and trailer are those of `p.doc`, plus bookmarks) and compare
/// against the statement of the property.
fn run_final(p: &Prep, mut d: Document, start: Option<u32>) -> Outcome {
    let mut out = Outcome::default();
    // the bookmark targets as they are right before the call
    let mut bm_before: Vec<(u32, ObjectId)> = d.bookmark_table.iter().map(|(id, b)| (*id, b.page)).collect();
    bm_before.sort();
    let r = util::guard(|| match start {
        None => d.renumber_objects(),
        Some(s) => d.renumber_objects_with(s),
    });
    if let Err(e) = r {
        out.fatal = Some(e);
        return out;
    }
    let n = p.doc.objects.len();
    let s = start.unwrap_or(1);
    if d.objects.len() != n {
        out.fatal = Some(format!("document had {} objects, has {} after renumbering", n, d.objects.len()));
        return out;
    }
    // rho from the tags
    let mut rho: BTreeMap<ObjectId, ObjectId> = BTreeMap::new();
    let mut new_untagged: BTreeSet<ObjectId> = BTreeSet::new();
    for (nid, o) in &d.objects {
        let Some(t) = tag_of(o) else {
            if dict_of(o).is_some() {
                out.fatal = Some(format!("object {} {} has no tag after renumbering: {}", nid.0, nid.1, show(o)));
                return out;
            }
            new_untagged.insert(*nid);
            continue;
        };
        let Some(old) = p.tag2old.get(&t) else {
            out.fatal = Some(format!("object {} {} has no known tag after renumbering: {}", nid.0, nid.1, show(o)));
            return out;
        };
        if rho.insert(*old, *nid).is_some() {
            out.fatal = Some(format!("two objects carry the tag of old object {} {}", old.0, old.1));
            return out;
        }
    }
    if new_untagged.len() != p.untagged.len() {
        out.fatal = Some(format!("{} objects without a tag (alias objects, arrays, scalars) before, {} afterwards", p.untagged.len(), new_untagged.len()));
        return out;
    }
    if !p.untagged.is_empty() {
        if let Err(e) = recover_untagged(p, &d, new_untagged, &mut rho) {
            out.fatal = Some(e);
            return out;
        }
    }
    out.identity = rho.iter().all(|(a, b)| a == b);
    out.collision = !out.identity && p.doc.objects.keys().any(|k| k.0 >= s && (k.0 as u64) < s as u64 + n as u64);
    out.reordered = {
        let mut sorted = p.pages.clone();
        sorted.sort();
        sorted != p.pages
    };
    // numbers, generations, max_id
    for (i, nid) in d.objects.keys().enumerate() {
        if nid.0 != s + i as u32 {
            let keys: Vec<ObjectId> = d.objects.keys().cloned().collect();
            out.fatal = Some(format!("new object numbers are not {}..{}: [{}]", s, s as u64 + n as u64 - 1, ids_str(&keys)));
            return out;
        }
    }
    for (old, new) in &rho {
        if old.1 != new.1 {
            out.fatal = Some(format!("generation changed: {} {} became {} {}", old.0, old.1, new.0, new.1));
            return out;
        }
    }
    let last = s as u64 + n as u64 - 1;
    if d.max_id as u64 != last {
        out.fatal = Some(format!("max_id is {}, the last assigned number is {}", d.max_id, last));
        return out;
    }
    // trailer and reachable objects
    {
        let mut cx = Ctx { rho: &rho, new_objects: &d.objects, root: None };
        let mut path = vec![];
        cmp_dict(&p.doc.trailer, &d.trailer, &mut path, &cx, &mut out.mis);
        for old in &p.reach {
            let new = rho[old];
            cx.root = Some((*old, new));
            cmp_ren(&p.doc.objects[old], &d.objects[&new], &mut path, &cx, &mut out.mis);
        }
    }
    // bookmarks
    if d.bookmark_table.len() != bm_before.len() {
        out.mis.push(Mis::Content(format!("{} bookmarks became {}", bm_before.len(), d.bookmark_table.len())));
    }
    for (id, page) in &bm_before {
        let expected = rho.get(page).cloned().unwrap_or(*page);
        match d.bookmark_table.get(id) {
            Some(b) if b.page == expected => {}
            Some(b) => out.mis.push(Mis::Bookmark { idx: *id as usize - 1, old_page: *page, expected, got: b.page }),
            None => out.mis.push(Mis::Content(format!("bookmark #{} disappeared", id))),
        }
    }
    // page order: the pages the yielded ids denote (a kid entry may name an alias object that stands for the page)
    let want: Vec<ObjectId> = denoted(&p.doc, &p.pages).iter().map(|x| rho[x]).collect();
    match util::guard(|| d.page_iter().collect::<Vec<ObjectId>>()) {
        Ok(got) => {
            let got_pages = denoted(&d, &got);
            if got_pages != want {
                out.mis.push(Mis::Content(format!("page order: page_iter() yields [{}] which denote [{}], expected rho(old order) = [{}]", ids_str(&got), ids_str(&got_pages), ids_str(&want))));
            }
        }
        Err(e) => out.fatal = Some(format!("page_iter after renumbering: {}", e)),
    }
    out
}

// ---------------------------------------------------------------------------------------------
// classification of failing cases (DESIGN Appendix A)

/// What the bookmark pages become when the old->new pairs of each pass are applied one after the
/// other (the catalogued defect); `.1` says whether a page was rewritten more than once inside
/// one pass, i.e. whether its new id was the old id of an object handled later in that pass.
fn sequential_model(p: &Prep, bms: &[Bm], start: u32) -> Vec<(ObjectId, bool)> {
    let mut res: Vec<(ObjectId, bool)> = bms.iter().map(|b| (b.0, false)).collect();
    let mut apply = |pairs: &[(ObjectId, ObjectId)]| {
        for r in res.iter_mut() {
            let mut hits = 0;
            for (old, new) in pairs {
                if r.0 == *old {
                    r.0 = *new;
                    hits += 1;
                }
            }
            if hits > 1 {
                r.1 = true;
            }
        }
    };
    // pass 1: the k-th page in page order receives the k-th smallest page number
    let mut sigma: HashMap<ObjectId, ObjectId> = HashMap::new();
    let mut sorted = p.pages.clone();
    sorted.sort();
    if sorted != p.pages {
        let mut pairs = vec![];
        for (old, tgt) in p.pages.iter().zip(sorted.iter()) {
            let new = (tgt.0, old.1);
            sigma.insert(*old, new);
            if old.0 != tgt.0 {
                pairs.push((*old, new));
            }
        }
        apply(&pairs);
    }
    // pass 2: dense numbering in ascending order of the ids after pass 1
    let mut ids: Vec<ObjectId> = p.doc.objects.keys().map(|k| sigma.get(k).cloned().unwrap_or(*k)).collect();
    ids.sort();
    let mut pairs = vec![];
    for (j, id) in ids.iter().enumerate() {
        if id.0 != start + j as u32 {
            pairs.push((*id, (start + j as u32, id.1)));
        }
    }
    apply(&pairs);
    res
}

fn replace_refs(o: &mut Object, from: &BTreeSet<ObjectId>, to: ObjectId) {
    match o {
        Object::Reference(r) if from.contains(r) => *r = to,
        Object::Array(a) => a.iter_mut().for_each(|x| replace_refs(x, from, to)),
        Object::Dictionary(d) => d.iter_mut().for_each(|(_, v)| replace_refs(v, from, to)),
        Object::Stream(s) => s.dict.iter_mut().for_each(|(_, v)| replace_refs(v, from, to)),
        _ => {}
    }
}

/// The features a failing case is attributed to: finding ids, offending bookmarks, offending
/// dangling references. None when some mismatch satisfies no catalogued predicate.
struct Verdict {
    found: Vec<&'static str>,
    bad_bm: BTreeSet<usize>,
    bad_ref: BTreeSet<ObjectId>,
}

fn predicates(p: &Prep, bms: &[Bm], start: Option<u32>, out: &Outcome) -> Option<Verdict> {
    if out.fatal.is_some() || out.mis.is_empty() {
        return None;
    }
    let s = start.unwrap_or(1);
    let n = p.doc.objects.len() as u64;
    let model = sequential_model(p, bms, s);
    let mut v = Verdict { found: vec![], bad_bm: BTreeSet::new(), bad_ref: BTreeSet::new() };
    for m in &out.mis {
        match m {
            Mis::Content(_) => return None,
            Mis::Dangling { orig, got, .. } => {
                let in_range = got.0 as u64 >= s as u64 && (got.0 as u64) < s as u64 + n;
                if got != orig || !in_range || p.doc.objects.contains_key(orig) {
                    return None;
                }
                v.bad_ref.insert(*orig);
                if !v.found.contains(&DANGLE) {
                    v.found.push(DANGLE);
                }
            }
            Mis::Bookmark { idx, got, expected, .. } => {
                let (mp, chained) = model[*idx];
                if !chained || mp != *got || got == expected {
                    return None;
                }
                v.bad_bm.insert(*idx);
                if !v.found.contains(&CHAIN) {
                    v.found.push(CHAIN);
                }
            }
        }
    }
    Some(v)
}

/// The document with the colliding dangling references pointed far away.
fn neutral_doc(p: &Prep, bad_ref: &BTreeSet<ObjectId>) -> Option<Prep> {
    let mut doc = p.doc.clone();
    if !bad_ref.is_empty() {
        let far = (4_100_000_000u32, 0u16);
        if doc.objects.contains_key(&far) {
            return None;
        }
        for o in doc.objects.values_mut() {
            replace_refs(o, bad_ref, far);
        }
        let mut t = Object::Dictionary(doc.trailer.clone());
        replace_refs(&mut t, bad_ref, far);
        if let Object::Dictionary(t) = t {
            doc.trailer = t;
        }
    }
    prepare(doc).ok()
}

/// The bookmark list without the offending bookmarks (children of a dropped bookmark move to the top level).
fn neutral_bookmarks(bms: &[Bm], bad_bm: &BTreeSet<usize>) -> Vec<Bm> {
    let mut keep: Vec<Bm> = vec![];
    let mut newidx: Vec<Option<usize>> = vec![];
    for (i, b) in bms.iter().enumerate() {
        if bad_bm.contains(&i) {
            newidx.push(None);
        } else {
            newidx.push(Some(keep.len()));
            keep.push((b.0, b.1.and_then(|pi| newidx[pi])));
        }
    }
    keep
}

/// Memo of neutralised re-runs for one (document, start): the neutralised document per set of
/// offending references, and the verdict per remaining bookmark list.
#[derive(Default)]
struct NeutralCache {
    docs: Vec<(BTreeSet<ObjectId>, Option<Prep>, HashMap<Vec<Bm>, bool>)>,
}

/// Attribute the case to catalogued findings only if every single mismatch satisfies the
/// predicate of one of them AND the case passes once exactly those features are neutralised
/// (the offending bookmarks dropped, the colliding dangling references pointed far away).
fn classify(p: &Prep, bms: &[Bm], start: Option<u32>, out: &Outcome, cache: &mut NeutralCache) -> Option<Vec<&'static str>> {
    let v = predicates(p, bms, start, out)?;
    let slot = match cache.docs.iter().position(|d| d.0 == v.bad_ref) {
        Some(i) => i,
        None => {
            cache.docs.push((v.bad_ref.clone(), neutral_doc(p, &v.bad_ref), HashMap::new()));
            cache.docs.len() - 1
        }
    };
    let (_, p2, memo) = &mut cache.docs[slot];
    let p2 = p2.as_ref()?;
    let keep = neutral_bookmarks(bms, &v.bad_bm);
    let pass = match memo.get(&keep) {
        Some(b) => *b,
        None => {
            let ok = !run_case(p2, &keep, start).failed();
            memo.insert(keep, ok);
            ok
        }
    };
    if pass {
        Some(v.found)
    } else {
        None
    }
}

// ---------------------------------------------------------------------------------------------
// enumeration

fn subsets(pool: &[u32], n: usize) -> Vec<Vec<u32>> {
    let mut out = vec![];
    let m = pool.len();
    for mask in 0u32..(1 << m) {
        if mask.count_ones() as usize == n {
            out.push((0..m).filter(|i| mask & (1 << i) != 0).map(|i| pool[i]).collect());
        }
    }
    out
}

fn perms(n: usize) -> Vec<Vec<usize>> {
    fn rec(cur: &mut Vec<usize>, used: &mut Vec<bool>, n: usize, out: &mut Vec<Vec<usize>>) {
        if cur.len() == n {
            out.push(cur.clone());
            return;
        }
        for i in 0..n {
            if !used[i] {
                used[i] = true;
                cur.push(i);
                rec(cur, used, n, out);
                cur.pop();
                used[i] = false;
            }
        }
    }
    let mut out = vec![];
    rec(&mut vec![], &mut vec![false; n], n, &mut out);
    out
}

fn gen_masks(n: usize, all: bool) -> Vec<u32> {
    if all || n <= 2 {
        return (0..(1u32 << n)).collect();
    }
    let full = (1u32 << n) - 1;
    let mut v = vec![0, full, 0x5555_5555 & full, 0x6666_6666 & full];
    v.sort();
    v.dedup();
    v
}

/// Bookmark lists over `t` possible targets: every tuple of 0..=max_top top-level bookmarks;
/// a single top-level bookmark with one nested child (all pairs); and, when `deep`, every pair
/// of top-level bookmarks with a child under the second one.
fn bookmark_configs(t: usize, max_top: usize, deep: bool) -> Vec<Vec<(usize, Option<usize>)>> {
    let mut out: Vec<Vec<(usize, Option<usize>)>> = vec![vec![]];
    let mut level: Vec<Vec<(usize, Option<usize>)>> = vec![vec![]];
    for _ in 0..max_top {
        let mut next = vec![];
        for c in &level {
            for x in 0..t {
                let mut d = c.clone();
                d.push((x, None));
                next.push(d);
            }
        }
        out.extend(next.iter().cloned());
        level = next;
    }
    for a in 0..t {
        for c in 0..t {
            out.push(vec![(a, None), (c, Some(0))]);
        }
    }
    if deep {
        for a in 0..t {
            for b in 0..t {
                for c in 0..t {
                    out.push(vec![(a, None), (b, None), (c, Some(1))]);
                }
            }
        }
    }
    out
}

/// The plain entry point, then 0 (renumber_objects_with(0) is a legal call: the first object
/// receives number 0), 1, 2, 3, n, max+1, 1000 and the current first number (nothing moves when
/// the numbers are already dense).
fn start_values(n: usize, min: u32, max: u32) -> Vec<Option<u32>> {
    let mut v: Vec<Option<u32>> = vec![None];
    for s in [0, 1, 2, 3, n as u32, max + 1, 1000, min] {
        if !v.contains(&Some(s)) {
            v.push(Some(s));
        }
    }
    v
}

/// Start values of the renumbering chains of family H: every ordered pair (and the triples built
/// on them) over these and the document's current first number is a history.
const CHAIN_STARTS: [u32; 4] = [0, 1, 3, 10];

fn shapes_a(n: usize) -> Vec<Shape> {
    match n {
        1 => vec![Shape::plain(0)],
        2 => vec![Shape::plain(0).with("i"), Shape::plain(0).with("o")],
        3 => vec![Shape::plain(1), Shape::plain(0).with("io"), Shape::plain(0).with("st")],
        4 => vec![Shape::plain(2), Shape::plain(1).with("i"), Shape::plain(1).with("s"), Shape::plain(1).with("o"), Shape::plain(1).with("t")],
        5 => vec![
            Shape::plain(3),
            Shape::plain(2).inter(0, 2),
            Shape::plain(2).inter(0, 1),
            Shape::plain(2).inter(1, 2),
            Shape::plain(2).with("i"),
            Shape::plain(2).with("s"),
            Shape::plain(2).with("o"),
            Shape::plain(2).with("t"),
            Shape::plain(1).with("io"),
            Shape::plain(1).with("st"),
            Shape::plain(1).with("so"),
        ],
        _ => unreachable!(),
    }
}

#[derive(Default)]
struct Tally {
    cases: u64,
    nontrivial: u64,
    collision: u64,
    identity: u64,
    reordered: u64,
    with_bm: u64,
    with_dang: u64,
    docs: u64,
    failing: u64,
}

struct Shared<'a> {
    run: &'a Run,
    /// finding ids of this property that are open in known_findings.json
    open: Vec<String>,
    full_json_left: [AtomicU64; 4],
    samples_left: AtomicU64,
}

fn case_json(gen: &Value, doc: Option<&Document>, bms: &[Bm], start: Option<u32>) -> Value {
    let b: Vec<Value> = bms.iter().map(|(p, par)| json!([p.0, p.1, par])).collect();
    let mut v = json!({"gen": gen, "bookmarks": b, "start": start,
        "entry": if start.is_some() {"renumber_objects_with(start)"} else {"renumber_objects()"}});
    if let Some(d) = doc {
        v["doc"] = doc_to_json(d);
    }
    v
}

const EXPECTED: &str = "numbers start..start+n-1, generations kept, max_id = last; trailer, every reachable object, every bookmark page and the page order equal the originals under the renaming recovered from the tags; dangling references still resolve to nothing";

/// All cases of one document structure (shape + ids): every start value, with and without
/// dangling references, every bookmark list.
fn explore_doc(sh: &Shape, ids: &[ObjectId], family: &str, bm_cfgs: &[Vec<(usize, Option<usize>)>], dang_modes: &[bool], shv: &Shared, t: &mut Tally) {
    let n = ids.len();
    let max = ids.iter().map(|i| i.0).max().unwrap();
    let min = ids.iter().map(|i| i.0).min().unwrap();
    // a deeply nested document is never written out (its JSON form could not be read back): the replay rebuilds it from `gen`
    let embed = sh.deep.is_none();
    let base = sh.page_base();
    let targets: Vec<ObjectId> = if sh.tree { ids[base..base + sh.k].to_vec() } else { vec![ids[0]] };
    for start in start_values(n, min, max) {
        let s = start.unwrap_or(1);
        for &with_dang in dang_modes {
            let dang = if with_dang { dangling(ids, s) } else { vec![] };
            let (doc, order) = build(sh, ids, &dang);
            let prep = match prepare(doc) {
                Ok(p) => p,
                Err(e) => {
                    eprintln!("MACHINERY: generator produced a document outside the domain: {}", e);
                    std::process::exit(3);
                }
            };
            if prep.pages != order {
                eprintln!("MACHINERY: reference page order differs from the generator's order");
                std::process::exit(3);
            }
            t.docs += 1;
            let mut cache = NeutralCache::default();
            let gen = json!({"family": family, "shape": sh.to_json(), "ids": ids.iter().map(|i| vec![i.0 as u64, i.1 as u64]).collect::<Vec<_>>(),
                             "dangling": dang.iter().map(|i| vec![i.0 as u64, i.1 as u64]).collect::<Vec<_>>()});
            for cfg in bm_cfgs {
                let bms: Vec<Bm> = cfg.iter().map(|(x, par)| (targets[*x], *par)).collect();
                let out = run_case(&prep, &bms, start);
                t.cases += 1;
                if out.identity {
                    t.identity += 1;
                } else if start.is_some() {
                    // renumber_objects() is the same input as start 1: counted once
                    t.nontrivial += 1;
                    if out.collision {
                        t.collision += 1;
                    }
                }
                if out.reordered {
                    t.reordered += 1;
                }
                if !bms.is_empty() {
                    t.with_bm += 1;
                }
                if with_dang {
                    t.with_dang += 1;
                }
                if shv.samples_left.load(Ordering::Relaxed) > 0 && !out.identity && bms.len() >= 2 && with_dang {
                    if shv.samples_left.fetch_update(Ordering::SeqCst, Ordering::SeqCst, |x| x.checked_sub(1)).is_ok() {
                        shv.run.sample(case_json(&gen, if embed { Some(&prep.doc) } else { None }, &bms, start));
                    }
                }
                if out.failed() {
                    t.failing += 1;
                    let verdict = classify(&prep, &bms, start, &out, &mut cache);
                    let all_open = verdict.as_ref().map(|fs| fs.iter().all(|f| shv.open.iter().any(|o| o == f))).unwrap_or(false);
                    // a written-out descriptor for the first cases of every verdict; cases counted under
                    // an open catalogued finding need none afterwards
                    let slot = match verdict.as_deref() {
                        None => 0,
                        Some([CHAIN]) => 1,
                        Some([DANGLE]) => 2,
                        Some(_) => 3,
                    };
                    let full = embed
                        && shv.full_json_left[slot].load(Ordering::Relaxed) > 0
                        && shv.full_json_left[slot].fetch_update(Ordering::SeqCst, Ordering::SeqCst, |x| x.checked_sub(1)).is_ok();
                    let (cj, text) = if all_open && !full {
                        (Value::Null, String::new())
                    } else {
                        (case_json(&gen, if full { Some(&prep.doc) } else { None }, &bms, start), out.text())
                    };
                    match verdict {
                        Some(fs) => {
                            for f in fs {
                                shv.run.fail(Some(f), cj.clone(), &text, EXPECTED);
                            }
                        }
                        None => shv.run.fail(None, cj, &text, EXPECTED),
                    }
                }
            }
        }
    }
}

fn flush(run: &Run, t: &Tally, family: &str) {
    run.eval(t.cases);
    run.nontrivial(t.nontrivial);
    run.add("graphs_with_collision", t.collision);
    run.add("identity_renamings", t.identity);
    run.add("cases_with_page_reordering", t.reordered);
    run.add("cases_with_bookmarks", t.with_bm);
    run.add("cases_with_dangling_refs", t.with_dang);
    run.add("documents_built", t.docs);
    run.add("failing_cases", t.failing);
    run.add(&format!("cases_family_{}", family), t.cases);
}

/// Family A: small graphs over every number set.
fn family_a(run: &Run, shv: &Shared) {
    let thorough = run.thorough;
    let nmax = if thorough { 5 } else { 4 };
    let sparse_pool = [3u32, 70, 1000, 65536, 4_000_000];
    let dense_pool: Vec<u32> = (1..=8).collect();
    let zero_pool = [0u32, 1, 2, 4, 70];
    let mut number_sets = 0u64;
    // work item: (shape, number set); all sizes in one list so that no core idles
    let mut work: Vec<(Shape, Vec<u32>)> = vec![];
    for n in (1..=nmax).rev() {
        let mut sets = subsets(&dense_pool, n);
        sets.extend(subsets(&sparse_pool, n));
        // documents that already hold an object numbered 0 (placed through the public map)
        sets.extend(subsets(&zero_pool, n).into_iter().filter(|s| s.contains(&0)));
        number_sets += sets.len() as u64;
        for sh in shapes_a(n) {
            assert_eq!(sh.n(), n);
            for set in &sets {
                work.push((sh.clone(), set.clone()));
            }
        }
    }
    util::par_for(work.len(), |w| {
        let (sh, set) = &work[w];
        let n = sh.n();
        let t_count = if sh.tree { sh.k } else { 1 };
        // bookmark lists: family A is about number sets x assignments; the full 0..3 tuples are family B's
        let cfgs = if thorough && (n <= 4 || t_count == 1) {
            bookmark_configs(t_count, 3, true)
        } else if thorough {
            // 5 objects with 2 or 3 pages: 0..1 top-level bookmarks + the nested pair
            bookmark_configs(t_count, 1, false)
        } else {
            bookmark_configs(t_count, 2, false)
        };
        // 5 objects (thorough only): dangling references always present
        let dang_modes: &[bool] = if n >= 5 { &[true] } else { &[false, true] };
        let gm = gen_masks(n, thorough && n <= 4);
        let mut t = Tally::default();
        for p in perms(n) {
            for g in &gm {
                let ids: Vec<ObjectId> = (0..n).map(|i| (set[p[i]], ((g >> i) & 1) as u16)).collect();
                explore_doc(sh, &ids, "A", &cfgs, dang_modes, shv, &mut t);
            }
        }
        flush(run, &t, "A");
    });
    run.add("number_sets_family_a", number_sets);
    // the empty document
    for start in [None, Some(1u32), Some(5)] {
        let prep = prepare(Document::with_version("1.5")).unwrap();
        let out = run_case(&prep, &[], start);
        run.eval(1);
        if out.failed() {
            run.fail(None, case_json(&json!({"family": "A", "empty": true}), Some(&prep.doc), &[], start), &out.text(), EXPECTED);
        }
    }
}

/// Family B: full page trees (1..4 pages in every permutation of ids relative to page order,
/// optional intermediate node) together with all reference placements at once.
fn family_b(run: &Run, shv: &Shared) {
    let sparse = [2u32, 5, 6, 9, 70, 71, 1000, 1001, 4096, 65536, 65537, 4_000_000];
    // work item: (shape, number set, page positions, other roles descending?, page permutation)
    let mut work: Vec<(Shape, Vec<u32>, Vec<usize>, bool, Vec<usize>)> = vec![];
    let mut structures = 0u64;
    for k in (1..=4usize).rev() {
        let mut inters: Vec<Option<(usize, usize)>> = vec![None, Some((0, k))];
        if k >= 2 {
            inters.push(Some((0, k.div_ceil(2).min(k - 1))));
            inters.push(Some((k / 2, k)));
        }
        for it in inters {
            let mut sh = Shape::plain(k).with("isot");
            sh.inter = it;
            let n = sh.n();
            let sets: Vec<Vec<u32>> = vec![(1..=n as u32).collect(), (3..n as u32 + 3).collect(), sparse[..n].to_vec(), (0..n as u32).collect()];
            let spread: Vec<usize> = (0..k).map(|i| if k == 1 { n / 2 } else { i * (n - 1) / (k - 1) }).collect();
            let layouts: Vec<Vec<usize>> = vec![(0..k).collect(), (n - k..n).collect(), spread];
            for set in &sets {
                for lay in &layouts {
                    for rev in [false, true] {
                        structures += 1;
                        for p in perms(k) {
                            work.push((sh.clone(), set.clone(), lay.clone(), rev, p));
                        }
                    }
                }
            }
        }
    }
    let thorough = run.thorough;
    util::par_for(work.len(), |w| {
        let (sh, set, lay, rev, p) = &work[w];
        let n = sh.n();
        let k = sh.k;
        let base = sh.page_base();
        let mut others: Vec<usize> = (0..n).filter(|p| !lay.contains(p)).collect();
        if *rev {
            others.reverse();
        }
        // quick: 4 pages -> <= 2 top-level bookmarks + one nested, dangling refs always present
        let (cfgs, dang_modes): (_, &[bool]) = if thorough {
            (bookmark_configs(k, 3, true), &[false, true])
        } else if k == 4 {
            (bookmark_configs(k, 2, false), &[true])
        } else {
            (bookmark_configs(k, 3, k <= 2), &[false, true])
        };
        let mut t = Tally::default();
        // generation patterns: none, all, alternating, pages only
        let page_mask: u32 = ((1u32 << k) - 1) << base;
        let full = (1u32 << n) - 1;
        let mut gm = if !thorough && k == 4 { vec![0, 0x5555_5555 & full] } else { vec![0, full, 0x5555_5555 & full, page_mask] };
        gm.sort();
        gm.dedup();
        // role -> position in the sorted number list
        let mut pos = vec![0usize; n];
        let mut oi = 0;
        for (role, slot) in pos.iter_mut().enumerate() {
            if role >= base && role < base + k {
                *slot = lay[p[role - base]];
            } else {
                *slot = others[oi];
                oi += 1;
            }
        }
        for g in &gm {
            let ids: Vec<ObjectId> = (0..n).map(|i| (set[pos[i]], ((g >> i) & 1) as u16)).collect();
            explore_doc(sh, &ids, "B", &cfgs, dang_modes, shv, &mut t);
        }
        flush(run, &t, "B");
    });
    run.add("structures_family_b", structures);
}

/// role -> position in the sorted number list: the pages take the positions `lay` in the order
/// `p`, the other roles the remaining positions ascending (descending when `rev`).
fn role_positions(sh: &Shape, lay: &[usize], rev: bool, p: &[usize]) -> Vec<usize> {
    let n = sh.n();
    let base = sh.page_base();
    let mut others: Vec<usize> = (0..n).filter(|x| !lay.contains(x)).collect();
    if rev {
        others.reverse();
    }
    let mut pos = vec![0usize; n];
    let mut oi = 0;
    for (role, slot) in pos.iter_mut().enumerate() {
        if role >= base && role < base + sh.k {
            *slot = lay[p[role - base]];
        } else {
            *slot = others[oi];
            oi += 1;
        }
    }
    pos
}

const SPARSE: [u32; 12] = [2, 5, 6, 9, 70, 71, 1000, 1001, 4096, 65536, 65537, 4_000_000];

fn number_sets(n: usize) -> Vec<Vec<u32>> {
    vec![(1..=n as u32).collect(), (3..n as u32 + 3).collect(), SPARSE[..n].to_vec()]
}

/// Family D: references below `depth` levels of arrays / dictionaries / alternating containers
/// inside the trailer, the catalog, a page, a stream dictionary or Info.
fn family_d(run: &Run, shv: &Shared) {
    let thorough = run.thorough;
    let mut depths: Vec<usize> = vec![1, 2, 63, 64, 126, 127, 128, 129, 130, 200, 1000];
    if thorough {
        depths.extend([3, 4, 8, 16, 32, 62, 65, 100, 125, 131, 132, 255, 256, 257, 500, 2000]);
        depths.sort();
    }
    let mut bases = vec![Shape::plain(2).with("st"), Shape::plain(0).with("st")];
    if thorough {
        bases.push(Shape::plain(3).inter(1, 3).with("ist"));
    }
    // work item: (shape with deep, number set, page positions, page permutation)
    let mut work: Vec<(Shape, Vec<u32>, Vec<usize>, Vec<usize>)> = vec![];
    let mut combos = 0u64;
    for base in &bases {
        let n = base.n();
        let k = base.k;
        let mut places = vec!["trailer", "catalog", "stream"];
        if base.tree {
            places.push("page");
        }
        if base.info {
            places.push("info");
        }
        let layouts: Vec<Vec<usize>> = if k == 0 { vec![vec![]] } else { vec![(0..k).collect(), (n - k..n).collect()] };
        for &depth in depths.iter().rev() {
            for kind in ["a", "d", "m"] {
                for place in &places {
                    combos += 1;
                    let sh = base.clone().deep(place, kind, depth);
                    for set in number_sets(n) {
                        for lay in &layouts {
                            for p in perms(k) {
                                work.push((sh.clone(), set.clone(), lay.clone(), p));
                            }
                        }
                    }
                }
            }
        }
    }
    util::par_for(work.len(), |w| {
        let (sh, set, lay, p) = &work[w];
        let n = sh.n();
        let t_count = if sh.tree { sh.k } else { 1 };
        let cfgs = bookmark_configs(t_count, 1, false);
        let full = (1u32 << n) - 1;
        let mut t = Tally::default();
        // without pages the other roles take every rotation of the numbers instead
        let rotations = if sh.k == 0 { n } else { 1 };
        for rot in 0..rotations {
            let mut pos = role_positions(sh, lay, false, p);
            pos.iter_mut().for_each(|x| *x = (*x + rot) % n);
            for g in [0u32, 0x5555_5555 & full] {
                let ids: Vec<ObjectId> = (0..n).map(|i| (set[pos[i]], ((g >> i) & 1) as u16)).collect();
                explore_doc(sh, &ids, "D", &cfgs, &[false, true], shv, &mut t);
            }
        }
        flush(run, &t, "D");
    });
    run.add("deep_nesting_combinations_depth_x_kind_x_place", combos);
    run.set("deep_nesting_depths", json!(depths));
}

// ---------------------------------------------------------------------------------------------
// family W: many objects

/// `n` tagged objects with numbers first, first+stride, ..: "star" = the catalog's /All array
/// references every object; "chain" = object i references object i+1, the last one the first;
/// "pages" = a flat page tree whose page numbers DEcrease in page order, every page referencing
/// its neighbour.
fn build_wide(form: &str, n: usize, first: u32, stride: u32) -> Document {
    let id = |i: usize| -> ObjectId { (first + stride * i as u32, (i % 2) as u16) };
    let mut doc = Document::with_version("1.5");
    let tag = |i: usize| ("Tag", Object::Integer(100 + i as i64));
    match form {
        "star" | "chain" => {
            let mut c = dict(vec![("Type", name("Catalog")), tag(0)]);
            if form == "star" {
                c.set("All", Object::Array((0..n).map(|i| rf(id(i))).collect()));
            } else {
                c.set("Next", rf(id(1 % n)));
            }
            doc.objects.insert(id(0), Object::Dictionary(c));
            for i in 1..n {
                let mut d = dict(vec![tag(i), ("Back", rf(id(0)))]);
                if form == "chain" {
                    d.set("Next", rf(id((i + 1) % n)));
                }
                doc.objects.insert(id(i), Object::Dictionary(d));
            }
        }
        "pages" => {
            assert!(n >= 3);
            // roles: 0 catalog, 1 root, 2.. pages; page j (in page order) gets the (k-1-j)-th page number
            let k = n - 2;
            let page = |j: usize| id(2 + (k - 1 - j));
            doc.objects.insert(id(0), Object::Dictionary(dict(vec![("Type", name("Catalog")), tag(0), ("Pages", rf(id(1)))])));
            doc.objects.insert(
                id(1),
                Object::Dictionary(dict(vec![("Type", name("Pages")), tag(1), ("Kids", Object::Array((0..k).map(|j| rf(page(j))).collect())), ("Count", Object::Integer(k as i64))])),
            );
            for j in 0..k {
                doc.objects.insert(page(j), Object::Dictionary(dict(vec![("Type", name("Page")), tag(2 + j), ("Parent", rf(id(1))), ("Next", rf(page((j + 1) % k)))])));
            }
        }
        other => panic!("unknown wide form {}", other),
    }
    doc.trailer.set("Root", rf(id(0)));
    doc.max_id = first + stride * (n as u32 - 1);
    doc
}

fn family_w(run: &Run) {
    let mut sizes = vec![100usize, 255, 256, 257, 1000];
    if run.thorough {
        sizes.extend([512, 1023, 1024, 1025, 4097]);
    }
    let mut work: Vec<(&str, usize, u32, u32)> = vec![];
    for &n in &sizes {
        for form in ["star", "chain", "pages"] {
            for (first, stride) in [(1u32, 1u32), (3, 1), (5, 3)] {
                work.push((form, n, first, stride));
            }
        }
    }
    util::par_for(work.len(), |w| {
        let (form, n, first, stride) = work[w];
        let doc = build_wide(form, n, first, stride);
        let prep = prepare(doc).unwrap_or_else(|e| {
            eprintln!("MACHINERY: wide generator: {}", e);
            std::process::exit(3)
        });
        let max = first + stride * (n as u32 - 1);
        let mut t = Tally::default();
        for start in start_values(n, first, max) {
            let out = run_case(&prep, &[], start);
            t.cases += 1;
            t.docs += 1;
            if out.identity {
                t.identity += 1;
            } else if start.is_some() {
                t.nontrivial += 1;
                if out.collision {
                    t.collision += 1;
                }
            }
            if out.reordered {
                t.reordered += 1;
            }
            if out.failed() {
                t.failing += 1;
                let gen = json!({"family": "W", "wide": {"form": form, "n": n, "first": first, "stride": stride}});
                run.fail(None, case_json(&gen, None, &[], start), &vharness::run::truncate(&out.text(), 2000), EXPECTED);
            }
        }
        flush(run, &t, "W");
    });
}

// ---------------------------------------------------------------------------------------------
// family H: the document has a history before the renumbering under test

#[derive(Clone, Debug, PartialEq)]
enum Pre {
    /// an earlier renumbering
    Renumber(Option<u32>),
    /// delete_object(id of the object carrying this tag)
    DeleteTag(i64),
    DeletePages(Vec<u32>),
    /// add_object(tagged dictionary with references), linked from the trailer's /Extra array
    Add,
    /// doc.objects.insert at last+50 without touching max_id, linked from /Extra
    InsertHigh,
    /// doc.objects.remove(last id): references to it dangle, max_id is stale
    RemoveLast,
    SetMaxId(u32),
    SaveTable,
    SaveStream,
    Prune,
    GetPages,
    /// reverse the Kids array of the root Pages node through the public fields
    ReverseKids,
}

impl Pre {
    fn to_json(&self) -> Value {
        match self {
            Pre::Renumber(s) => json!({"op": "renumber", "start": s}),
            Pre::DeleteTag(t) => json!({"op": "delete_object_with_tag", "tag": t}),
            Pre::DeletePages(v) => json!({"op": "delete_pages", "pages": v}),
            Pre::Add => json!({"op": "add_object"}),
            Pre::InsertHigh => json!({"op": "objects_insert_high"}),
            Pre::RemoveLast => json!({"op": "objects_remove_last"}),
            Pre::SetMaxId(v) => json!({"op": "set_max_id", "value": v}),
            Pre::SaveTable => json!({"op": "save_to_table"}),
            Pre::SaveStream => json!({"op": "save_to_stream"}),
            Pre::Prune => json!({"op": "prune_objects"}),
            Pre::GetPages => json!({"op": "get_pages"}),
            Pre::ReverseKids => json!({"op": "reverse_root_kids_via_fields"}),
        }
    }
    fn from_json(v: &Value) -> Pre {
        match v["op"].as_str().unwrap_or("") {
            "renumber" => Pre::Renumber(v["start"].as_u64().map(|x| x as u32)),
            "delete_object_with_tag" => Pre::DeleteTag(v["tag"].as_i64().unwrap()),
            "delete_pages" => Pre::DeletePages(v["pages"].as_array().unwrap().iter().map(|x| x.as_u64().unwrap() as u32).collect()),
            "add_object" => Pre::Add,
            "objects_insert_high" => Pre::InsertHigh,
            "objects_remove_last" => Pre::RemoveLast,
            "set_max_id" => Pre::SetMaxId(v["value"].as_u64().unwrap() as u32),
            "save_to_table" => Pre::SaveTable,
            "save_to_stream" => Pre::SaveStream,
            "prune_objects" => Pre::Prune,
            "get_pages" => Pre::GetPages,
            "reverse_root_kids_via_fields" => Pre::ReverseKids,
            other => {
                eprintln!("MACHINERY: unknown pre-op {}", other);
                std::process::exit(3);
            }
        }
    }
}

fn link_extra(d: &mut Document, id: ObjectId) {
    if let Ok(Object::Array(a)) = d.trailer.get_mut(b"Extra") {
        a.push(rf(id));
        return;
    }
    d.trailer.set("Extra", Object::Array(vec![rf(id)]));
}

fn tagged_extra(d: &Document, tag: i64) -> Object {
    let mut dd = dict(vec![("Tag", Object::Integer(tag))]);
    if let Ok(Object::Reference(c)) = d.trailer.get(b"Root") {
        dd.set("Back", rf(*c));
    }
    if let Some(p) = ref_pages(d).first() {
        dd.set("Peer", Object::Array(vec![rf(*p)]));
    }
    Object::Dictionary(dd)
}

/// The document right before the renumbering under test: bookmarks added, then the history.
fn state_after(base: &Document, bms: &[Bm], pre: &[Pre]) -> Result<Document, String> {
    let mut d = base.clone();
    add_bookmarks(&mut d, bms)?;
    let mut fresh_tag = 900i64;
    for op in pre {
        let r = util::guard(|| -> Result<(), String> {
            match op {
                Pre::Renumber(None) => d.renumber_objects(),
                Pre::Renumber(Some(s)) => d.renumber_objects_with(*s),
                Pre::DeleteTag(t) => {
                    let id = d.objects.iter().find(|(_, o)| tag_of(o) == Some(*t)).map(|(id, _)| *id);
                    if let Some(id) = id {
                        d.delete_object(id);
                    }
                }
                Pre::DeletePages(v) => d.delete_pages(v),
                Pre::Add => {
                    let o = tagged_extra(&d, fresh_tag);
                    fresh_tag += 1;
                    let id = d.add_object(o);
                    link_extra(&mut d, id);
                }
                Pre::InsertHigh => {
                    let o = tagged_extra(&d, fresh_tag);
                    fresh_tag += 1;
                    let id = (d.objects.keys().next_back().map(|k| k.0).unwrap_or(0) + 50, 0);
                    d.objects.insert(id, o);
                    link_extra(&mut d, id);
                }
                Pre::RemoveLast => {
                    if let Some(id) = d.objects.keys().next_back().cloned() {
                        d.objects.remove(&id);
                    }
                }
                Pre::SetMaxId(v) => d.max_id = *v,
                Pre::SaveTable | Pre::SaveStream => {
                    util::set_xref(&mut d, *op == Pre::SaveTable);
                    let mut sink = Vec::new();
                    d.save_to(&mut sink).map_err(|e| format!("save_to: {}", e))?;
                }
                Pre::Prune => {
                    d.prune_objects();
                }
                Pre::GetPages => {
                    let _ = d.get_pages();
                }
                Pre::ReverseKids => {
                    let root = match d.trailer.get(b"Root") {
                        Ok(Object::Reference(r)) => d.objects.get(r).and_then(dict_of).and_then(|c| c.get(b"Pages").ok()).and_then(|p| p.as_reference().ok()),
                        _ => None,
                    };
                    if let Some(Object::Dictionary(pages)) = root.and_then(|r| d.objects.get_mut(&r)) {
                        if let Ok(Object::Array(kids)) = pages.get_mut(b"Kids") {
                            kids.reverse();
                        }
                    }
                }
            }
            Ok(())
        });
        match r {
            Ok(Ok(())) => {}
            Ok(Err(e)) => return Err(format!("history step {}: {}", op.to_json(), e)),
            Err(e) => return Err(format!("history step {}: {}", op.to_json(), e)),
        }
    }
    Ok(d)
}

/// Snapshot of the state (objects and trailer only) as the reference for the final renumbering.
fn snapshot(state: &Document) -> Result<Prep, String> {
    let mut s = Document::with_version("1.5");
    s.objects = state.objects.clone();
    s.trailer = state.trailer.clone();
    s.max_id = state.max_id;
    prepare(s)
}

fn history_case(gen: &Value, bms: &[Bm], pre: &[Pre], start: Option<u32>) -> Value {
    let mut v = case_json(gen, None, bms, start);
    v["pre"] = Value::Array(pre.iter().map(|p| p.to_json()).collect());
    v
}

const EXPECTED_H: &str = "whatever happened to the document before (earlier renumbering, deletions, additions, saving, a stale max_id), the renumbering under test gives numbers start..start+n-1, generations kept, max_id = last; trailer, every reachable object, every bookmark page and the page order equal the state right before the call under the renaming recovered from the tags";

fn pre_sequences(sh: &Shape, n: usize, min: u32, max: u32) -> Vec<Vec<Pre>> {
    // tags follow the role order of `build`: 100 + role index
    let mut role = 1 + sh.tree as usize + sh.inter.is_some() as usize;
    let last_page = if sh.k > 0 { Some(100 + (role + sh.k - 1) as i64) } else { None };
    role += sh.k;
    let mut tag_of_role = |present: bool| {
        if present {
            role += 1;
            Some(100 + (role - 1) as i64)
        } else {
            None
        }
    };
    let info = tag_of_role(sh.info);
    let shared = tag_of_role(sh.shared);
    let orphan = tag_of_role(sh.orphan);
    let strm = tag_of_role(sh.strm);
    let mut v: Vec<Vec<Pre>> = vec![];
    for s in start_values(n, min, max) {
        v.push(vec![Pre::Renumber(s)]);
    }
    // renumbering chains: "start s1, then start s2 (, then the start under test)" for every ordered
    // pair over {0, 1, 3, 10, current first number}; the start under test ranges over the same
    // values, so the one-step histories give every ordered pair and these every triple
    // (0 -> 10 -> 0 among them)
    let mut chain: Vec<u32> = CHAIN_STARTS.to_vec();
    if !chain.contains(&min) {
        chain.push(min);
    }
    for &s1 in &chain {
        if !v.contains(&vec![Pre::Renumber(Some(s1))]) {
            v.push(vec![Pre::Renumber(Some(s1))]);
        }
        for &s2 in &chain {
            if s1 != s2 {
                v.push(vec![Pre::Renumber(Some(s1)), Pre::Renumber(Some(s2))]);
            }
        }
    }
    for t in [info, shared, orphan, strm, last_page].into_iter().flatten() {
        v.push(vec![Pre::DeleteTag(t)]);
    }
    if sh.k > 0 {
        v.push(vec![Pre::DeletePages(vec![1])]);
        v.push(vec![Pre::DeletePages(vec![sh.k as u32])]);
    }
    for one in [Pre::Add, Pre::InsertHigh, Pre::RemoveLast, Pre::SetMaxId(0), Pre::SetMaxId(max + 100), Pre::SetMaxId(u32::MAX), Pre::SaveTable, Pre::SaveStream, Pre::Prune, Pre::GetPages] {
        v.push(vec![one]);
    }
    v.push(vec![Pre::Add, Pre::Add]);
    v.push(vec![Pre::SaveStream, Pre::Add]);
    v.push(vec![Pre::RemoveLast, Pre::Add]);
    v.push(vec![Pre::Add, Pre::Renumber(Some(2))]);
    v.push(vec![Pre::Renumber(Some(1000)), Pre::Add]);
    v.push(vec![Pre::Renumber(Some(2)), Pre::Renumber(Some(5))]);
    v.push(vec![Pre::Renumber(Some(3)), Pre::GetPages, Pre::InsertHigh]);
    if sh.k >= 2 {
        v.push(vec![Pre::ReverseKids]);
        v.push(vec![Pre::GetPages, Pre::ReverseKids]);
        v.push(vec![Pre::Renumber(Some(2)), Pre::GetPages, Pre::ReverseKids]);
    }
    if let Some(t) = shared {
        v.push(vec![Pre::DeleteTag(t), Pre::Add]);
        v.push(vec![Pre::Renumber(Some(3)), Pre::DeleteTag(t)]);
    }
    if let Some(t) = orphan {
        v.push(vec![Pre::DeleteTag(t), Pre::Renumber(None)]);
    }
    v
}

fn family_h(run: &Run, shv: &Shared) {
    let thorough = run.thorough;
    let mut bases = vec![Shape::plain(2).with("isot"), Shape::plain(3).inter(1, 3).with("so"), Shape::plain(0).with("io")];
    if thorough {
        bases.push(Shape::plain(4).inter(0, 2).with("isot"));
        bases.push(Shape::plain(1).with("st"));
    }
    // work item: (shape, number set, page positions, page permutation, generation mask, dangling refs?)
    let mut work: Vec<(Shape, Vec<u32>, Vec<usize>, Vec<usize>, u32, bool)> = vec![];
    for sh in &bases {
        let n = sh.n();
        let k = sh.k;
        let full = (1u32 << n) - 1;
        let layouts: Vec<Vec<usize>> = if k == 0 { vec![vec![]] } else { vec![(0..k).collect(), (n - k..n).collect()] };
        // the usual numberings, and documents that already hold an object numbered 0 (dense from 0;
        // 0 followed by sparse numbers)
        let mut sets = number_sets(n);
        sets.push((0..n as u32).collect());
        sets.push(std::iter::once(0).chain(SPARSE[..n - 1].iter().cloned()).collect());
        for set in sets {
            for lay in &layouts {
                for p in perms(k) {
                    for g in [0u32, 0x5555_5555 & full] {
                        for dang in [false, true] {
                            work.push((sh.clone(), set.clone(), lay.clone(), p.clone(), g, dang));
                        }
                    }
                }
            }
        }
    }
    let sampled = AtomicU64::new(0);
    util::par_for(work.len(), |w| {
        let (sh, set, lay, p, g, with_dang) = &work[w];
        let n = sh.n();
        let pos = role_positions(sh, lay, false, p);
        let ids: Vec<ObjectId> = (0..n).map(|i| (set[pos[i]], ((g >> i) & 1) as u16)).collect();
        let (min, max) = (ids.iter().map(|i| i.0).min().unwrap(), ids.iter().map(|i| i.0).max().unwrap());
        let dang = if *with_dang { dangling(&ids, 2) } else { vec![] };
        let (doc, _) = build(sh, &ids, &dang);
        let gen = json!({"family": "H", "shape": sh.to_json(), "ids": ids.iter().map(|i| vec![i.0 as u64, i.1 as u64]).collect::<Vec<_>>(),
                         "dangling": dang.iter().map(|i| vec![i.0 as u64, i.1 as u64]).collect::<Vec<_>>()});
        let base = sh.page_base();
        let mut targets: Vec<ObjectId> = if sh.tree { ids[base..base + sh.k].to_vec() } else { vec![ids[0]] };
        let mut cfgs = bookmark_configs(targets.len(), if thorough { 2 } else { 1 }, false);
        // the lowest-numbered object (the one that receives the start value itself) as bookmark
        // target: alone, and nested with the first of the other targets in both orders
        let low = *ids.iter().min().unwrap();
        if !targets.contains(&low) {
            targets.push(low);
            let l = targets.len() - 1;
            cfgs.push(vec![(l, None)]);
            cfgs.push(vec![(l, None), (0, Some(0))]);
            cfgs.push(vec![(0, None), (l, Some(0))]);
        }
        let (mut cases, mut nontrivial, mut still, mut states) = (0u64, 0u64, 0u64, 0u64);
        for pre in pre_sequences(sh, n, min, max) {
            for cfg in &cfgs {
                let bms: Vec<Bm> = cfg.iter().map(|(x, par)| (targets[*x], *par)).collect();
                let state = match state_after(&doc, &bms, &pre) {
                    Ok(s) => s,
                    Err(e) => {
                        shv.run.fail(None, history_case(&gen, &bms, &pre, None), &e, "every step of the history succeeds");
                        continue;
                    }
                };
                let snap = match snapshot(&state) {
                    Ok(s) => s,
                    Err(e) => {
                        shv.run.fail(None, history_case(&gen, &bms, &pre, None), &format!("state after the history: {}", e), "lopdf's own operations keep object numbers unique and leave the tagged objects alone");
                        continue;
                    }
                };
                states += 1;
                let sn = snap.doc.objects.len();
                let (smin, smax) = match (snap.doc.objects.keys().next(), snap.doc.objects.keys().next_back()) {
                    (Some(a), Some(b)) => (a.0, b.0),
                    _ => (1, 1),
                };
                let mut starts = start_values(sn, smin, smax);
                for c in CHAIN_STARTS {
                    if !starts.contains(&Some(c)) {
                        starts.push(Some(c));
                    }
                }
                for start in starts {
                    let out = run_final(&snap, state.clone(), start);
                    cases += 1;
                    if out.identity {
                        still += 1;
                    } else if start.is_some() {
                        nontrivial += 1;
                    }
                    if out.failed() {
                        shv.run.fail(None, history_case(&gen, &bms, &pre, start), &out.text(), EXPECTED_H);
                    }
                    if pre.len() == 2 && bms.len() == 2 && *with_dang && !out.identity && sampled.fetch_add(1, Ordering::Relaxed) < 2 {
                        shv.run.sample(history_case(&gen, &bms, &pre, start));
                    }
                }
            }
        }
        run.eval(cases);
        run.nontrivial(nontrivial);
        run.add("cases_family_H", cases);
        run.add("history_states", states);
        run.add("history_cases_where_nothing_moves", still);
    });
}

// ---------------------------------------------------------------------------------------------
// family L: alias objects (indirect objects whose whole value is a reference), arrays and scalars
// as whole objects

/// (bit, name, what the feature adds)
const ALIAS_FEATURES: [(&str, &str); 18] = [
    ("trailer", "trailer /Al -> alias -> tagged dictionary T (T is also referenced directly)"),
    ("only", "catalog /Only -> alias -> tagged dictionary T2 that nothing else references; T2 refers back to the catalog, the first page and the alias"),
    ("array", "catalog /AlArr -> alias -> array object [7001 cat lastpage T [firstpage]] that nothing else references"),
    ("contents", "last page /Contents -> alias -> the content stream"),
    ("kid", "the Kids entry of the second page is an alias -> that page"),
    ("chain", "catalog /Chain -> alias -> alias (-> alias) -> T, first page /Mid -> the second alias of the chain"),
    ("dangling", "catalog /AlD -> two aliases, each -> an id no object has (inside the new range / a stale generation)"),
    ("self", "catalog /AlS -> alias -> itself"),
    ("scalars", "integer, string, name, null, real and boolean as whole objects, referenced from the catalog, the first page, T, the stream dictionary (/Len) and the trailer; an alias -> the integer object"),
    ("bookmark", "catalog /Dest -> alias -> first page; the alias is a bookmark target"),
    ("kidsarr", "root /Kids -> alias -> array object holding the kid entries"),
    ("parent", "first page /Parent -> alias -> root Pages node"),
    ("root", "trailer /Root -> alias -> catalog"),
    ("pages", "catalog /Pages -> alias -> root Pages node"),
    ("interkid", "the root's Kids entry for the intermediate Pages node is an alias -> that node (3 pages only)"),
    ("orphan", "an alias -> T that nothing references (it only has to be renumbered)"),
    ("typeref", "the /Type of the root Pages node, of the first and of the last page is a reference to a name object (/Pages, /Page)"),
    ("countref", "the /Count of the root Pages node is a reference to an integer object"),
];

#[derive(Clone, Debug, PartialEq)]
struct AliasSpec {
    /// 2 pages under the root, or 3: the first under the root, the others under an intermediate node
    k: usize,
    feats: u32,
    /// length of the alias chain of feature "chain" (2 or 3)
    chain: usize,
}

impl AliasSpec {
    fn has(&self, name: &str) -> bool {
        let bit = ALIAS_FEATURES.iter().position(|f| f.0 == name).unwrap();
        self.feats & (1 << bit) != 0 && !(name == "interkid" && self.k < 3)
    }
    fn to_json(&self) -> Value {
        let names: Vec<&str> = ALIAS_FEATURES.iter().map(|f| f.0).filter(|f| self.has(f)).collect();
        json!({"pages": self.k, "features": names, "chain": self.chain})
    }
    /// Role names in canonical order.
    fn roles(&self) -> Vec<String> {
        let mut r: Vec<String> = vec!["cat".into(), "root".into()];
        if self.k >= 3 {
            r.push("inter".into());
        }
        for i in 1..=self.k {
            r.push(format!("p{}", i));
        }
        r.push("strm".into());
        r.push("t".into());
        let mut add = |f: &str, names: &[&str]| {
            if self.has(f) {
                r.extend(names.iter().map(|n| n.to_string()));
            }
        };
        add("trailer", &["a_t"]);
        add("only", &["t2", "a_only"]);
        add("array", &["arr", "a_arr"]);
        add("contents", &["a_cont"]);
        add("kid", &["a_kid"]);
        add("chain", if self.chain >= 3 { &["a_c1", "a_c2", "a_c3"] } else { &["a_c1", "a_c2"] });
        add("dangling", &["a_d1", "a_d2"]);
        add("self", &["a_self"]);
        add("scalars", &["int", "str", "nam", "nul", "a_int", "rea", "boo"]);
        add("bookmark", &["a_bm"]);
        add("kidsarr", &["karr", "a_karr"]);
        add("parent", &["a_parent"]);
        add("root", &["a_root"]);
        add("pages", &["a_pages"]);
        add("interkid", &["a_ikid"]);
        add("orphan", &["a_orph"]);
        add("typeref", &["ty_pages", "ty_page"]);
        add("countref", &["cnt"]);
        r
    }
    fn page_roles(&self) -> Vec<usize> {
        let base = if self.k >= 3 { 3 } else { 2 };
        (base..base + self.k).collect()
    }
}

struct AliasDoc {
    doc: Document,
    /// the Page dictionaries in page order
    pages: Vec<ObjectId>,
    /// what a bookmark may point at: first page, last page, the bookmark alias, the alias kid
    targets: Vec<ObjectId>,
}

/// The document of `spec` with role i stored under `ids[i]`.
fn build_alias(spec: &AliasSpec, ids: &[ObjectId], dang: &[ObjectId]) -> AliasDoc {
    let roles = spec.roles();
    assert_eq!(roles.len(), ids.len());
    let id = |name: &str| -> ObjectId { ids[roles.iter().position(|r| r == name).unwrap_or_else(|| panic!("no role {}", name))] };
    let tag = |name: &str| -> Object { Object::Integer(100 + roles.iter().position(|r| r == name).unwrap() as i64) };
    let has = |f: &str| spec.has(f);
    let k = spec.k;
    let pname = |i: usize| format!("p{}", i);
    let pages: Vec<ObjectId> = (1..=k).map(|i| id(&pname(i))).collect();
    let mut doc = Document::with_version("1.5");
    let mut put = |name: &str, o: Object| {
        assert!(doc.objects.insert(id(name), o).is_none(), "duplicate id in generator");
    };
    // catalog
    let mut c = dict(vec![("Type", name("Catalog")), ("Tag", tag("cat")), ("Self", rf(id("cat"))), ("Tref", rf(id("t")))]);
    c.set("Pages", rf(id(if has("pages") { "a_pages" } else { "root" })));
    if has("only") {
        c.set("Only", rf(id("a_only")));
    }
    if has("array") {
        c.set("AlArr", Object::Array(vec![rf(id("a_arr"))]));
    }
    if has("chain") {
        c.set("Chain", rf(id("a_c1")));
    }
    if has("dangling") {
        c.set("AlD", Object::Array(vec![rf(id("a_d1")), rf(id("a_d2"))]));
    }
    if has("self") {
        c.set("AlS", rf(id("a_self")));
    }
    if has("scalars") {
        c.set("Sc", Object::Array(vec![rf(id("int")), rf(id("str")), rf(id("nam")), rf(id("nul")), rf(id("a_int")), rf(id("int")), rf(id("rea")), rf(id("boo"))]));
    }
    if has("bookmark") {
        c.set("Dest", Object::Array(vec![rf(id("a_bm")), name("Fit")]));
    }
    if !dang.is_empty() {
        c.set("Dang", Object::Array(dang.iter().map(|d| rf(*d)).collect()));
    }
    put("cat", Object::Dictionary(c));
    // page tree
    let second = rf(id(if has("kid") { "a_kid" } else { "p2" }));
    let root_kids: Vec<Object> = if k >= 3 { vec![rf(pages[0]), rf(id(if has("interkid") { "a_ikid" } else { "inter" }))] } else { vec![rf(pages[0]), second.clone()] };
    let mut r = dict(vec![("Type", if has("typeref") { rf(id("ty_pages")) } else { name("Pages") }), ("Tag", tag("root")), ("Count", if has("countref") { rf(id("cnt")) } else { Object::Integer(k as i64) })]);
    if has("kidsarr") {
        r.set("Kids", rf(id("a_karr")));
        put("karr", Object::Array(root_kids));
        put("a_karr", rf(id("karr")));
    } else {
        r.set("Kids", Object::Array(root_kids));
    }
    put("root", Object::Dictionary(r));
    if k >= 3 {
        let mut kids = vec![second];
        kids.extend(pages[2..].iter().map(|p| rf(*p)));
        put(
            "inter",
            Object::Dictionary(dict(vec![("Type", name("Pages")), ("Tag", tag("inter")), ("Parent", rf(id("root"))), ("Kids", Object::Array(kids)), ("Count", Object::Integer(k as i64 - 1))])),
        );
    }
    for i in 0..k {
        let parent = if i == 0 && has("parent") {
            "a_parent"
        } else if i == 0 || k < 3 {
            "root"
        } else {
            "inter"
        };
        let mut d = dict(vec![
            ("Type", if has("typeref") && (i == 0 || i == k - 1) { rf(id("ty_page")) } else { name("Page") }),
            ("Tag", tag(&pname(i + 1))),
            ("Parent", rf(id(parent))),
            ("Next", rf(pages[(i + 1) % k])),
            ("MediaBox", Object::Array(vec![0.into(), 0.into(), 10.into(), 10.into()])),
        ]);
        if i == 0 {
            d.set("Contents", rf(id("strm")));
            if has("chain") {
                d.set("Mid", rf(id("a_c2")));
            }
            if has("scalars") {
                d.set("Sc", rf(id("int")));
            }
        }
        if i == k - 1 && has("contents") {
            d.set("Contents", Object::Array(vec![rf(id("a_cont"))]));
        }
        put(&pname(i + 1), Object::Dictionary(d));
    }
    let mut sd = dict(vec![("Tag", tag("strm")), ("Owner", rf(pages[0]))]);
    if has("scalars") {
        sd.set("Len", rf(id("int")));
    }
    put("strm", Object::Stream(Stream::new(sd, b"q Q".to_vec())));
    let mut t = dict(vec![("Tag", tag("t")), ("Back", rf(id("cat"))), ("Peer", rf(pages[k - 1]))]);
    if has("scalars") {
        t.set("Sc", Object::Array(vec![rf(id("int")), rf(id("nam"))]));
    }
    put("t", Object::Dictionary(t));
    // aliases
    if has("trailer") {
        put("a_t", rf(id("t")));
        doc.trailer.set("Al", rf(id("a_t")));
    }
    if has("only") {
        put("t2", Object::Dictionary(dict(vec![("Tag", tag("t2")), ("Back", rf(id("cat"))), ("Pg", rf(pages[0])), ("Me", rf(id("a_only")))])));
        put("a_only", rf(id("t2")));
    }
    if has("array") {
        put("arr", Object::Array(vec![Object::Integer(7001), rf(id("cat")), rf(pages[k - 1]), rf(id("t")), Object::Array(vec![rf(pages[0])])]));
        put("a_arr", rf(id("arr")));
    }
    if has("contents") {
        put("a_cont", rf(id("strm")));
    }
    if has("kid") {
        put("a_kid", rf(id("p2")));
    }
    if has("chain") {
        put("a_c1", rf(id("a_c2")));
        if spec.chain >= 3 {
            put("a_c2", rf(id("a_c3")));
            put("a_c3", rf(id("t")));
        } else {
            put("a_c2", rf(id("t")));
        }
    }
    if has("dangling") {
        let far = (4_200_000_000u32, 0u16);
        put("a_d1", rf(*dang.first().unwrap_or(&far)));
        put("a_d2", rf(*dang.last().unwrap_or(&far)));
    }
    if has("self") {
        put("a_self", rf(id("a_self")));
    }
    if has("scalars") {
        put("int", Object::Integer(7008));
        put("str", Object::string_literal("s7008"));
        put("nam", name("N7008"));
        put("nul", Object::Null);
        put("a_int", rf(id("int")));
        put("rea", Object::Real(1.5));
        put("boo", Object::Boolean(true));
        doc.trailer.set("ScT", Object::Array(vec![rf(id("str")), rf(id("int"))]));
    }
    if has("bookmark") {
        put("a_bm", rf(pages[0]));
    }
    if has("parent") {
        put("a_parent", rf(id("root")));
    }
    if has("root") {
        put("a_root", rf(id("cat")));
    }
    if has("pages") {
        put("a_pages", rf(id("root")));
    }
    if has("interkid") {
        put("a_ikid", rf(id("inter")));
    }
    if has("orphan") {
        put("a_orph", rf(id("t")));
    }
    if has("typeref") {
        put("ty_pages", name("Pages"));
        put("ty_page", name("Page"));
    }
    if has("countref") {
        put("cnt", Object::Integer(k as i64));
    }
    if !dang.is_empty() {
        // stale references (same number, other generation) to every object, found by any traversal before the real ones
        doc.trailer.set("Aaa", Object::Array(ids.iter().map(|i| rf((i.0, 1 - i.1.min(1)))).collect()));
    }
    doc.trailer.set("Root", rf(id(if has("root") { "a_root" } else { "cat" })));
    doc.trailer.set("ID", Object::Array(vec![Object::string_literal("a"), Object::string_literal("b")]));
    doc.max_id = ids.iter().map(|i| i.0).max().unwrap_or(0);
    let mut targets = vec![pages[0], pages[k - 1]];
    if has("bookmark") {
        targets.push(id("a_bm"));
    }
    if has("kid") {
        targets.push(id("a_kid"));
    }
    AliasDoc { doc, pages, targets }
}

/// n distinct numbers: dense from 1, dense from 3, or sparse.
fn alias_numbers(kind: &str, n: usize) -> Vec<u32> {
    match kind {
        "dense1" => (1..=n as u32).collect(),
        "dense3" => (3..n as u32 + 3).collect(),
        _ => (0..n).map(|i| if i < SPARSE.len() { SPARSE[i] } else { 4_000_000 + (i - SPARSE.len() + 1) as u32 * 1013 }).collect(),
    }
}

/// role -> position in the sorted number list. "fwd": canonical order (aliases above what they
/// stand for), "rev": reversed (aliases below), "mix": a stride walk. The positions of the page
/// roles are then permuted among themselves by `perm`.
fn alias_positions(spec: &AliasSpec, layout: &str, perm: &[usize]) -> Vec<usize> {
    let n = spec.roles().len();
    let mut pos: Vec<usize> = match layout {
        "fwd" => (0..n).collect(),
        "rev" => (0..n).rev().collect(),
        _ => {
            let gcd = |mut a: usize, mut b: usize| {
                while b != 0 {
                    (a, b) = (b, a % b);
                }
                a
            };
            let stride = (3..).find(|s| gcd(*s, n) == 1).unwrap();
            (0..n).map(|i| (i * stride + 1) % n).collect()
        }
    };
    let pr = spec.page_roles();
    let held: Vec<usize> = pr.iter().map(|r| pos[*r]).collect();
    for (j, r) in pr.iter().enumerate() {
        pos[*r] = held[perm[j]];
    }
    pos
}

fn alias_gen(spec: &AliasSpec, numbers: &str, layout: &str, perm: &[usize], gmask: &str, dang_for: u32) -> (Vec<ObjectId>, Vec<ObjectId>) {
    let n = spec.roles().len();
    let set = alias_numbers(numbers, n);
    let pos = alias_positions(spec, layout, perm);
    let ids: Vec<ObjectId> = (0..n).map(|i| (set[pos[i]], if gmask == "alt" && i % 2 == 1 { 1 } else { 0 })).collect();
    let dang = dangling(&ids, dang_for);
    (ids, dang)
}

fn alias_feature_sets(thorough: bool) -> Vec<u32> {
    let nf = ALIAS_FEATURES.len() as u32;
    let all = (1u32 << nf) - 1;
    let mut v: Vec<u32> = vec![0, all];
    for i in 0..nf {
        v.push(1 << i);
        v.push(all & !(1 << i));
        for j in i + 1..nf {
            v.push((1 << i) | (1 << j));
            if thorough {
                for l in j + 1..nf {
                    v.push((1 << i) | (1 << j) | (1 << l));
                }
            }
        }
    }
    v.sort();
    v.dedup();
    v
}

const EXPECTED_L: &str = "an indirect object whose whole value is a reference (or an array, or a scalar) is an object like any other: it gets its new number, the reference it holds is renamed, and whatever is reachable only through it is renamed too - numbers start..start+n-1, generations kept, max_id = last; trailer, every reachable object, every bookmark target and the page order equal the originals under the renaming (tagged objects: read off the tags; untagged objects: read off the references that lead to them); dangling references still resolve to nothing";

fn family_l(run: &Run, shv: &Shared) {
    let thorough = run.thorough;
    let page_feats: u32 = ["kid", "kidsarr", "bookmark", "pages", "interkid", "contents", "typeref", "countref"].iter().map(|f| 1u32 << ALIAS_FEATURES.iter().position(|x| x.0 == *f).unwrap()).sum();
    // work item: (spec, numbers, layout, page permutation)
    let mut work: Vec<(AliasSpec, &str, &str, Vec<usize>)> = vec![];
    let mut specs = 0u64;
    for k in [3usize, 2] {
        for feats in alias_feature_sets(thorough) {
            for chain in [2usize, 3] {
                let spec = AliasSpec { k, feats, chain };
                // the chain length only matters when the chain is there; 2 pages cannot have the alias for the intermediate node
                if (chain == 3 && !spec.has("chain")) || (k == 2 && feats & (1 << 14) != 0 && feats.count_ones() <= 3) {
                    continue;
                }
                // 2 pages: the single features and the two big sets only (thorough: everything)
                if k == 2 && !thorough && feats.count_ones() == 2 {
                    continue;
                }
                specs += 1;
                let all_perms = thorough || feats & page_feats != 0;
                for numbers in ["dense1", "dense3", "sparse"] {
                    for layout in ["fwd", "rev", "mix"] {
                        for p in perms(k) {
                            let rev_or_id = p.windows(2).all(|w| w[0] < w[1]) || p.windows(2).all(|w| w[0] > w[1]);
                            if all_perms || rev_or_id {
                                work.push((spec.clone(), numbers, layout, p));
                            }
                        }
                    }
                }
            }
        }
    }
    let sampled = AtomicU64::new(0);
    util::par_for(work.len(), |w| {
        let (spec, numbers, layout, perm) = &work[w];
        let n = spec.roles().len();
        let mut t = Tally::default();
        for gmask in ["none", "alt"] {
            let (ids0, _) = alias_gen(spec, numbers, layout, perm, gmask, 1);
            let (min, max) = (ids0.iter().map(|i| i.0).min().unwrap(), ids0.iter().map(|i| i.0).max().unwrap());
            for start in start_values(n, min, max) {
                let s = start.unwrap_or(1);
                let (ids, dang) = alias_gen(spec, numbers, layout, perm, gmask, s);
                let ad = build_alias(spec, &ids, &dang);
                let prep = prepare(ad.doc).unwrap_or_else(|e| {
                    eprintln!("MACHINERY: alias generator: {}", e);
                    std::process::exit(3)
                });
                if denoted(&prep.doc, &prep.pages) != ad.pages {
                    eprintln!("MACHINERY: alias generator: reference page order {:?} differs from the generator's {:?}", prep.pages, ad.pages);
                    std::process::exit(3);
                }
                t.docs += 1;
                let gen = json!({"family": "L", "alias": spec.to_json(), "numbers": numbers, "layout": layout, "page_perm": perm, "generations": gmask,
                                 "ids": spec.roles().iter().zip(ids.iter()).map(|(r, i)| json!([r, i.0, i.1])).collect::<Vec<_>>()});
                // bookmark lists: none, one on every target, and (alias or last target) with a nested child on the first page
                let tg = &ad.targets;
                let mut cfgs: Vec<Vec<Bm>> = vec![vec![]];
                if thorough {
                    cfgs.extend(tg.iter().map(|x| vec![(*x, None)]));
                } else {
                    // quick: the alias targets (or, without one, the last page) only
                    cfgs.extend(tg.iter().skip(if tg.len() > 2 { 2 } else { 1 }).map(|x| vec![(*x, None)]));
                }
                cfgs.push(vec![(*tg.last().unwrap(), None), (tg[0], Some(0))]);
                for bms in &cfgs {
                    let out = run_case(&prep, bms, start);
                    t.cases += 1;
                    if out.identity {
                        t.identity += 1;
                    } else if start.is_some() {
                        t.nontrivial += 1;
                        if out.collision {
                            t.collision += 1;
                        }
                    }
                    if out.reordered {
                        t.reordered += 1;
                    }
                    if !bms.is_empty() {
                        t.with_bm += 1;
                    }
                    t.with_dang += 1;
                    if out.failed() {
                        t.failing += 1;
                        shv.run.fail(None, case_json(&gen, Some(&prep.doc), bms, start), &vharness::run::truncate(&out.text(), 1500), EXPECTED_L);
                    }
                    if spec.feats.count_ones() == 2 && spec.has("only") && spec.has("kid") && !out.identity && bms.len() == 2 && sampled.fetch_add(1, Ordering::Relaxed) < 2 {
                        shv.run.sample(case_json(&gen, Some(&prep.doc), bms, start));
                    }
                }
            }
        }
        flush(run, &t, "L");
    });
    run.add("alias_feature_sets_family_l", specs);
    run.set("alias_features", json!(ALIAS_FEATURES.iter().map(|f| json!([f.0, f.1])).collect::<Vec<_>>()));
}


// ---------------------------------------------------------------------------------------------
// family S: alias documents (Kids / Type / Count / Pages / Root / kid entries behind references)
// whose max_id is stale, or whose history put objects in or took them out through the public map

const EXPECTED_S: &str = "Document::max_id before the call is whatever the caller left there (objects placed through the public `objects` map do not maintain it): with max_id 0, 1, a number in the middle, highest-1 or highest+100, and after objects were inserted / removed through the public map, renumbering gives numbers start..start+n-1, generations kept, max_id = last; trailer, every reachable object, every bookmark target and the page order equal the state right before the call under the renaming";

fn family_s(run: &Run, shv: &Shared) {
    let thorough = run.thorough;
    let bit = |f: &str| 1u32 << ALIAS_FEATURES.iter().position(|x| x.0 == f).unwrap();
    let all = (1u32 << ALIAS_FEATURES.len()) - 1;
    let mut sets: Vec<u32> = vec![0, all, bit("kidsarr") | bit("typeref") | bit("countref"), bit("kid") | bit("interkid") | bit("pages") | bit("root")];
    for f in ["kid", "kidsarr", "pages", "root", "interkid", "typeref", "countref", "parent", "contents", "bookmark", "scalars", "only"] {
        sets.push(bit(f));
    }
    // work item: (spec, numbers, layout, page permutation, generations)
    let mut work: Vec<(AliasSpec, &str, &str, Vec<usize>, &str)> = vec![];
    for k in [3usize, 2] {
        for &feats in &sets {
            let spec = AliasSpec { k, feats, chain: 2 };
            if k == 2 && feats == bit("interkid") {
                continue;
            }
            let numberings: &[&str] = if thorough { &["dense1", "dense3", "sparse"] } else { &["dense1", "sparse"] };
            let layouts: &[&str] = if thorough { &["fwd", "rev", "mix"] } else { &["fwd", "rev"] };
            for numbers in numberings {
                for layout in layouts {
                    for p in perms(k) {
                        for gmask in ["none", "alt"] {
                            work.push((spec.clone(), numbers, layout, p.clone(), gmask));
                        }
                    }
                }
            }
        }
    }
    let histories: Vec<Vec<Pre>> = vec![
        vec![Pre::InsertHigh],
        vec![Pre::RemoveLast],
        vec![Pre::Add],
        vec![Pre::SaveTable],
        vec![Pre::Renumber(Some(2)), Pre::SetMaxId(0)],
        vec![Pre::GetPages, Pre::SetMaxId(1)],
        vec![Pre::InsertHigh, Pre::SetMaxId(1)],
        vec![Pre::RemoveLast, Pre::InsertHigh],
    ];
    let sampled = AtomicU64::new(0);
    util::par_for(work.len(), |w| {
        let (spec, numbers, layout, perm, gmask) = &work[w];
        let n = spec.roles().len();
        let mut t = Tally::default();
        let (mut hist_cases, mut hist_states) = (0u64, 0u64);
        let (ids0, _) = alias_gen(spec, numbers, layout, perm, gmask, 1);
        let (min, max) = (ids0.iter().map(|i| i.0).min().unwrap(), ids0.iter().map(|i| i.0).max().unwrap());
        let mut sorted: Vec<u32> = ids0.iter().map(|i| i.0).collect();
        sorted.sort();
        let stale: [(&str, u32); 5] = [("zero", 0), ("one", 1), ("median", sorted[n / 2]), ("highest_minus_1", max - 1), ("highest_plus_100", max + 100)];
        for start in start_values(n, min, max) {
            let s = start.unwrap_or(1);
            let (ids, dang) = alias_gen(spec, numbers, layout, perm, gmask, s);
            let ad = build_alias(spec, &ids, &dang);
            let tg = &ad.targets;
            let cfgs: Vec<Vec<Bm>> = vec![vec![], vec![(*tg.last().unwrap(), None), (tg[0], Some(0))]];
            let gen = json!({"family": "S", "alias": spec.to_json(), "numbers": numbers, "layout": layout, "page_perm": perm, "generations": gmask,
                             "ids": spec.roles().iter().zip(ids.iter()).map(|(r, i)| json!([r, i.0, i.1])).collect::<Vec<_>>()});
            // S1: the document as given carries a stale max_id
            for (mode, value) in stale {
                let mut doc = ad.doc.clone();
                doc.max_id = value;
                let prep = prepare(doc).unwrap_or_else(|e| {
                    eprintln!("MACHINERY: family S generator: {}", e);
                    std::process::exit(3)
                });
                t.docs += 1;
                let mut gen = gen.clone();
                gen["max_id_before_the_call"] = json!([mode, value]);
                for bms in &cfgs {
                    let out = run_case(&prep, bms, start);
                    t.cases += 1;
                    if out.identity {
                        t.identity += 1;
                    } else if start.is_some() {
                        t.nontrivial += 1;
                        if out.collision {
                            t.collision += 1;
                        }
                    }
                    if out.reordered {
                        t.reordered += 1;
                    }
                    if !bms.is_empty() {
                        t.with_bm += 1;
                    }
                    t.with_dang += 1;
                    if out.failed() {
                        t.failing += 1;
                        shv.run.fail(None, case_json(&gen, Some(&prep.doc), bms, start), &vharness::run::truncate(&out.text(), 1500), EXPECTED_S);
                    }
                    if mode == "zero" && spec.feats.count_ones() == 3 && !out.identity && bms.len() == 2 && sampled.fetch_add(1, Ordering::Relaxed) < 1 {
                        shv.run.sample(case_json(&gen, Some(&prep.doc), bms, start));
                    }
                }
            }
        }
        // S2: a history through the public map, then every start value computed on the resulting state
        let (ids, dang) = alias_gen(spec, numbers, layout, perm, gmask, 2);
        let ad = build_alias(spec, &ids, &dang);
        let gen = json!({"family": "S", "alias": spec.to_json(), "numbers": numbers, "layout": layout, "page_perm": perm, "generations": gmask});
        let tg = &ad.targets;
        let cfgs: Vec<Vec<Bm>> = vec![vec![], vec![(*tg.last().unwrap(), None), (tg[0], Some(0))]];
        for pre in &histories {
            for bms in &cfgs {
                let case_of = |start: Option<u32>| {
                    let mut v = case_json(&gen, Some(&ad.doc), bms, start);
                    v["pre"] = Value::Array(pre.iter().map(|p| p.to_json()).collect());
                    v
                };
                let state = match state_after(&ad.doc, bms, pre) {
                    Ok(s) => s,
                    Err(e) => {
                        shv.run.fail(None, case_of(None), &e, "every step of the history succeeds");
                        continue;
                    }
                };
                let snap = match snapshot(&state) {
                    Ok(s) => s,
                    Err(e) => {
                        shv.run.fail(None, case_of(None), &format!("state after the history: {}", e), "lopdf's own operations keep object numbers unique and leave the tagged objects alone");
                        continue;
                    }
                };
                hist_states += 1;
                let sn = snap.doc.objects.len();
                let (smin, smax) = match (snap.doc.objects.keys().next(), snap.doc.objects.keys().next_back()) {
                    (Some(a), Some(b)) => (a.0, b.0),
                    _ => (1, 1),
                };
                for start in start_values(sn, smin, smax) {
                    let out = run_final(&snap, state.clone(), start);
                    hist_cases += 1;
                    if !out.identity && start.is_some() {
                        t.nontrivial += 1;
                    }
                    if out.failed() {
                        shv.run.fail(None, case_of(start), &vharness::run::truncate(&out.text(), 1500), EXPECTED_S);
                    }
                }
            }
        }
        t.cases += hist_cases;
        flush(run, &t, "S");
        run.add("history_states", hist_states);
    });
}

// ---------------------------------------------------------------------------------------------
// family M: page trees that are malformed but inside the statement's domain ("arbitrary reference
// graphs ... dangling references"): a Kids array holding a dangling reference of every flavour, a
// Pages node without a usable Kids entry among page siblings. Every clause that remains meaningful
// must hold: consecutive numbers, max_id, every object survives exactly once (the object COUNT is
// kept), references to live objects resolve to the same content, dangling ones stay dangling, the
// pages the reference walk finds keep their order.

/// flavours of the dangling kid: a number nothing uses (far away / inside the new range when there
/// is a free one); the number of a LIVE object X under the other generation, X being a page taken
/// out of the tree / a Pages node with a page of its own / a plain dictionary, referenced from the
/// catalog (OpenAction, so reachable) or from nowhere; the number of the first / last page of the
/// tree, of the root, of the catalog under the other generation
/// - and kids that are no dangling references but lead to no page either: an integer, null, the catalog, a live plain dictionary
const MAL_D: [&str; 16] = [
    "unused_far", "unused_in_range", "x_page_reach", "x_page_unreach", "x_pages_reach", "x_pages_unreach", "x_other_reach", "x_other_unreach", "first_page_gen", "last_page_gen", "root_gen",
    "cat_gen", "int", "null", "ref_cat", "x_other_live",
];
/// flavours of the Kids entry of the Pages node N
const MAL_N: [&str; 10] = ["missing", "dangling", "int", "dict", "empty", "name", "null", "ref_int", "ref_dict", "ref_stale_gen"];

#[derive(Clone, Debug, PartialEq)]
struct MalSpec {
    k: usize,
    /// the sequence sits in an intermediate Pages node (the root's only kid) instead of the root
    nest: bool,
    /// the Kids array as a string over P (the next page), D (the dangling kid), N (the Pages node without usable Kids)
    seq: String,
    /// "" or one of MAL_D
    d: String,
    /// "" or one of MAL_N
    n: String,
}

impl MalSpec {
    fn to_json(&self) -> Value {
        json!({"pages": self.k, "nest": self.nest, "kids": self.seq, "dangling_kid": self.d, "kids_of_N": self.n})
    }
    fn x_kind(&self) -> Option<&str> {
        self.d.strip_prefix("x_").map(|r| r.split('_').next().unwrap())
    }
    fn roles(&self) -> Vec<String> {
        let mut r: Vec<String> = vec!["cat".into(), "root".into()];
        if self.nest {
            r.push("inter".into());
        }
        for i in 1..=self.k {
            r.push(format!("p{}", i));
        }
        match self.x_kind() {
            Some("pages") => r.extend(["x".to_string(), "y".to_string()]),
            Some(_) => r.push("x".into()),
            None => {}
        }
        if !self.n.is_empty() {
            r.push("n".into());
            match self.n.as_str() {
                "ref_int" => r.push("nint".into()),
                "ref_dict" => r.push("ndict".into()),
                "ref_stale_gen" => r.push("narr".into()),
                _ => {}
            }
        }
        r
    }
    fn page_roles(&self) -> Vec<usize> {
        let base = if self.nest { 3 } else { 2 };
        (base..base + self.k).collect()
    }
}

struct MalDoc {
    doc: Document,
    pages: Vec<ObjectId>,
    /// bookmark targets: first page, last page, and X when there is one
    targets: Vec<ObjectId>,
}

fn build_mal(spec: &MalSpec, ids: &[ObjectId], start: u32) -> MalDoc {
    let roles = spec.roles();
    assert_eq!(roles.len(), ids.len());
    let id = |name: &str| -> ObjectId { ids[roles.iter().position(|r| r == name).unwrap_or_else(|| panic!("no role {}", name))] };
    let tag = |name: &str| -> Object { Object::Integer(100 + roles.iter().position(|r| r == name).unwrap() as i64) };
    let other_gen = |i: ObjectId| -> ObjectId { (i.0, 1 - i.1.min(1)) };
    let k = spec.k;
    let pname = |i: usize| format!("p{}", i);
    let pages: Vec<ObjectId> = (1..=k).map(|i| id(&pname(i))).collect();
    let holder = if spec.nest { "inter" } else { "root" };
    let used: BTreeSet<u32> = ids.iter().map(|i| i.0).collect();
    let far = (used.iter().next_back().unwrap().max(&(start + ids.len() as u32)) + 11, 0u16);
    let dkid: Option<ObjectId> = match spec.d.as_str() {
        "" | "int" | "null" => None,
        "ref_cat" => Some(id("cat")),
        "x_other_live" => Some(id("x")),
        "unused_far" => Some(far),
        "unused_in_range" => Some((start..start + ids.len() as u32).find(|x| !used.contains(x)).map(|x| (x, 0)).unwrap_or(far)),
        "first_page_gen" => Some(other_gen(pages[0])),
        "last_page_gen" => Some(other_gen(pages[k - 1])),
        "root_gen" => Some(other_gen(id("root"))),
        "cat_gen" => Some(other_gen(id("cat"))),
        _ => Some(other_gen(id("x"))),
    };
    let mut doc = Document::with_version("1.5");
    let mut put = |name: &str, o: Object| {
        assert!(doc.objects.insert(id(name), o).is_none(), "duplicate id in generator");
    };
    let mut c = dict(vec![("Type", name("Catalog")), ("Tag", tag("cat")), ("Pages", rf(id("root"))), ("Self", rf(id("cat")))]);
    if spec.d.ends_with("_reach") {
        c.set("OpenAction", Object::Array(vec![rf(id("x")), name("Fit")]));
    }
    put("cat", Object::Dictionary(c));
    let mut kids = vec![];
    let mut next_page = 0;
    for ch in spec.seq.chars() {
        match ch {
            'P' => {
                kids.push(rf(pages[next_page]));
                next_page += 1;
            }
            'D' => kids.push(match spec.d.as_str() {
                "int" => Object::Integer(5),
                "null" => Object::Null,
                _ => rf(dkid.expect("D without a flavour")),
            }),
            'N' => kids.push(rf(id("n"))),
            _ => unreachable!(),
        }
    }
    assert_eq!(next_page, k);
    if spec.nest {
        put("root", Object::Dictionary(dict(vec![("Type", name("Pages")), ("Tag", tag("root")), ("Kids", Object::Array(vec![rf(id("inter"))])), ("Count", Object::Integer(k as i64))])));
        put("inter", Object::Dictionary(dict(vec![("Type", name("Pages")), ("Tag", tag("inter")), ("Parent", rf(id("root"))), ("Kids", Object::Array(kids)), ("Count", Object::Integer(k as i64))])));
    } else {
        put("root", Object::Dictionary(dict(vec![("Type", name("Pages")), ("Tag", tag("root")), ("Kids", Object::Array(kids)), ("Count", Object::Integer(k as i64))])));
    }
    for i in 0..k {
        put(
            &pname(i + 1),
            Object::Dictionary(dict(vec![("Type", name("Page")), ("Tag", tag(&pname(i + 1))), ("Parent", rf(id(holder))), ("Next", rf(pages[(i + 1) % k])), ("MediaBox", Object::Array(vec![0.into(), 0.into(), 10.into(), 10.into()]))])),
        );
    }
    match spec.x_kind() {
        Some("page") => put("x", Object::Dictionary(dict(vec![("Type", name("Page")), ("Tag", tag("x")), ("Parent", rf(id(holder))), ("Peer", rf(pages[0]))]))),
        Some("pages") => {
            put("x", Object::Dictionary(dict(vec![("Type", name("Pages")), ("Tag", tag("x")), ("Parent", rf(id(holder))), ("Kids", Object::Array(vec![rf(id("y"))])), ("Count", Object::Integer(1))])));
            put("y", Object::Dictionary(dict(vec![("Type", name("Page")), ("Tag", tag("y")), ("Parent", rf(id("x")))])));
        }
        Some(_) => put("x", Object::Dictionary(dict(vec![("Tag", tag("x")), ("Back", rf(id("cat"))), ("Peer", rf(pages[k - 1]))]))),
        None => {}
    }
    if !spec.n.is_empty() {
        let mut n = dict(vec![("Type", name("Pages")), ("Tag", tag("n")), ("Parent", rf(id(holder))), ("Count", Object::Integer(0))]);
        match spec.n.as_str() {
            "missing" => {}
            "dangling" => n.set("Kids", rf((far.0 + 1, 0))),
            "int" => n.set("Kids", Object::Integer(1)),
            "dict" => n.set("Kids", Object::Dictionary(dict(vec![("A", rf(pages[0]))]))),
            "empty" => n.set("Kids", Object::Array(vec![])),
            "name" => n.set("Kids", name("None")),
            "null" => n.set("Kids", Object::Null),
            "ref_int" => n.set("Kids", rf(id("nint"))),
            "ref_dict" => n.set("Kids", rf(id("ndict"))),
            // the number of a live array object (holding a reference to the first page) under the other generation
            "ref_stale_gen" => n.set("Kids", rf(other_gen(id("narr")))),
            _ => unreachable!(),
        }
        put("n", Object::Dictionary(n));
        match spec.n.as_str() {
            "ref_int" => put("nint", Object::Integer(7008)),
            "ref_dict" => put("ndict", Object::Dictionary(dict(vec![("Tag", tag("ndict")), ("Back", rf(id("n")))]))),
            // nothing leads to this array: it only has to be renumbered
            "ref_stale_gen" => put("narr", Object::Array(vec![rf(pages[0])])),
            _ => {}
        }
    }
    doc.trailer.set("Root", rf(id("cat")));
    doc.trailer.set("ID", Object::Array(vec![Object::string_literal("a"), Object::string_literal("b")]));
    doc.max_id = ids.iter().map(|i| i.0).max().unwrap_or(0);
    let mut targets = vec![pages[0], pages[k - 1]];
    if spec.x_kind().is_some() {
        targets.push(id("x"));
    }
    MalDoc { doc, pages, targets }
}

/// Every arrangement of k P's, the D (if any) and the N (if any).
fn mal_sequences(k: usize, d: bool, n: bool) -> Vec<String> {
    fn rec(cur: &mut String, p: usize, d: bool, n: bool, out: &mut Vec<String>) {
        if p == 0 && !d && !n {
            out.push(cur.clone());
            return;
        }
        if p > 0 {
            cur.push('P');
            rec(cur, p - 1, d, n, out);
            cur.pop();
        }
        if d {
            cur.push('D');
            rec(cur, p, false, n, out);
            cur.pop();
        }
        if n {
            cur.push('N');
            rec(cur, p, d, false, out);
            cur.pop();
        }
    }
    let mut out = vec![];
    rec(&mut String::new(), k, d, n, &mut out);
    out
}

const EXPECTED_M: &str = "a Kids array may hold a reference that resolves to nothing, and a Pages node may lack a usable Kids entry - the document is still a reference graph with dangling references: numbers start..start+n-1, generations kept, max_id = last, the number of objects is unchanged and every object survives exactly once under a one-to-one renaming; trailer, every reachable object and every bookmark target equal the originals under it; the dangling kid still resolves to nothing; the pages found by a depth-first walk that skips what does not resolve keep their order";

/// role -> number position: the pages take the first / last positions in the order `perm`, the others the rest ascending.
fn mal_ids(spec: &MalSpec, numbers: &str, pages_last: bool, perm: &[usize], gmask: &str) -> Vec<ObjectId> {
    let n = spec.roles().len();
    let set = alias_numbers(numbers, n);
    let pr = spec.page_roles();
    let k = spec.k;
    let lay: Vec<usize> = if pages_last { (n - k..n).collect() } else { (0..k).collect() };
    let mut others = (0..n).filter(|x| !lay.contains(x));
    let mut pos = vec![0usize; n];
    for (role, slot) in pos.iter_mut().enumerate() {
        *slot = match pr.iter().position(|r| *r == role) {
            Some(j) => lay[perm[j]],
            None => others.next().unwrap(),
        };
    }
    (0..n).map(|i| (set[pos[i]], if gmask == "alt" && i % 2 == 1 { 1 } else { 0 })).collect()
}

fn family_m(run: &Run, shv: &Shared) {
    let thorough = run.thorough;
    // work item: (spec, reduced?) - `reduced` (quick: the D x N pairs) takes two numberings, pages last, alternating generations, four start values, two bookmark lists
    let mut work: Vec<(MalSpec, bool)> = vec![];
    let mut structures = 0u64;
    for k in [3usize, 2] {
        for nest in [false, true] {
            let mut ds: Vec<&str> = vec![""];
            ds.extend(MAL_D);
            let mut ns: Vec<&str> = vec![""];
            ns.extend(MAL_N);
            for d in &ds {
                for n in &ns {
                    let pair = !d.is_empty() && !n.is_empty();
                    if pair && nest && !thorough {
                        continue;
                    }
                    for seq in mal_sequences(k, !d.is_empty(), !n.is_empty()) {
                        structures += 1;
                        work.push((MalSpec { k, nest, seq, d: d.to_string(), n: n.to_string() }, pair && !thorough));
                    }
                }
            }
        }
    }
    let sampled = AtomicU64::new(0);
    util::par_for(work.len(), |w| {
        let (spec, reduced) = &work[w];
        let n = spec.roles().len();
        let mut t = Tally::default();
        let numberings: &[&str] = if *reduced { &["dense1", "sparse"] } else { &["dense1", "dense3", "sparse"] };
        let layouts: &[bool] = if *reduced { &[true] } else { &[false, true] };
        let gmasks: &[&str] = if *reduced { &["alt"] } else { &["none", "alt"] };
        for numbers in numberings {
            for &pages_last in layouts {
                for perm in perms(spec.k) {
                    for gmask in gmasks {
                        let ids = mal_ids(spec, numbers, pages_last, &perm, gmask);
                        let (min, max) = (ids.iter().map(|i| i.0).min().unwrap(), ids.iter().map(|i| i.0).max().unwrap());
                        let mut starts = start_values(n, min, max);
                        if *reduced {
                            starts = vec![None, Some(2), Some(n as u32), Some(max + 1)];
                        }
                        for start in starts {
                            let md = build_mal(spec, &ids, start.unwrap_or(1));
                            let prep = prepare(md.doc).unwrap_or_else(|e| {
                                eprintln!("MACHINERY: family M generator: {}", e);
                                std::process::exit(3)
                            });
                            if prep.pages != md.pages {
                                eprintln!("MACHINERY: family M generator: reference page order {:?} differs from the generator's {:?} ({:?})", prep.pages, md.pages, spec);
                                std::process::exit(3);
                            }
                            t.docs += 1;
                            let gen = json!({"family": "M", "malformed": spec.to_json(), "numbers": numbers, "pages_last": pages_last, "page_perm": perm, "generations": gmask,
                                             "ids": spec.roles().iter().zip(ids.iter()).map(|(r, i)| json!([r, i.0, i.1])).collect::<Vec<_>>()});
                            let tg = &md.targets;
                            let mut cfgs: Vec<Vec<Bm>> = vec![vec![]];
                            if thorough {
                                cfgs.push(vec![(*tg.last().unwrap(), None)]);
                            }
                            cfgs.push(vec![(*tg.last().unwrap(), None), (tg[0], Some(0))]);
                            for bms in &cfgs {
                                let out = run_case(&prep, bms, start);
                                t.cases += 1;
                                if out.identity {
                                    t.identity += 1;
                                } else if start.is_some() {
                                    t.nontrivial += 1;
                                    if out.collision {
                                        t.collision += 1;
                                    }
                                }
                                if out.reordered {
                                    t.reordered += 1;
                                }
                                if !bms.is_empty() {
                                    t.with_bm += 1;
                                }
                                if !spec.d.is_empty() {
                                    t.with_dang += 1;
                                }
                                if out.failed() {
                                    t.failing += 1;
                                    shv.run.fail(None, case_json(&gen, Some(&prep.doc), bms, start), &vharness::run::truncate(&out.text(), 1500), EXPECTED_M);
                                }
                                if spec.d == "x_page_reach" && spec.n == "dangling" && !out.identity && out.reordered && bms.len() == 2 && sampled.fetch_add(1, Ordering::Relaxed) < 1 {
                                    shv.run.sample(case_json(&gen, Some(&prep.doc), bms, start));
                                }
                            }
                        }
                    }
                }
            }
        }
        flush(run, &t, "M");
    });
    run.add("structures_family_m", structures);
}

// ---------------------------------------------------------------------------------------------

fn parse_id(v: &Value) -> ObjectId {
    (v[0].as_u64().unwrap() as u32, v[1].as_u64().unwrap() as u16)
}

fn replay(run: &Run, path: &std::path::Path) -> ! {
    let case = vharness::run::read_replay(path);
    let doc = if case.get("doc").is_some() {
        doc_from_json(&case["doc"])
    } else if case["gen"].get("wide").is_some() {
        let w = &case["gen"]["wide"];
        build_wide(w["form"].as_str().unwrap(), w["n"].as_u64().unwrap() as usize, w["first"].as_u64().unwrap() as u32, w["stride"].as_u64().unwrap() as u32)
    } else if case["gen"].get("shape").is_some() {
        let sh = Shape::from_json(&case["gen"]["shape"]);
        let ids: Vec<ObjectId> = case["gen"]["ids"].as_array().unwrap().iter().map(parse_id).collect();
        let dang: Vec<ObjectId> = case["gen"]["dangling"].as_array().unwrap().iter().map(parse_id).collect();
        build(&sh, &ids, &dang).0
    } else {
        eprintln!("MACHINERY: replay case has neither doc nor gen.shape");
        std::process::exit(3);
    };
    let bms: Vec<Bm> = case["bookmarks"]
        .as_array()
        .map(|a| a.iter().map(|b| (parse_id(b), b[2].as_u64().map(|x| x as usize))).collect())
        .unwrap_or_default();
    let start = case["start"].as_u64().map(|s| s as u32);
    if let Some(pre) = case.get("pre").and_then(|p| p.as_array()) {
        // family H: bookmarks, the history, then the renumbering under test against the state right before it
        let pre: Vec<Pre> = pre.iter().map(Pre::from_json).collect();
        let failed = match state_after(&doc, &bms, &pre) {
            Err(e) => {
                println!("observed: {}", e);
                true
            }
            Ok(state) => match snapshot(&state) {
                Err(e) => {
                    println!("observed: state after the history: {}", e);
                    true
                }
                Ok(snap) => {
                    let out = run_final(&snap, state.clone(), start);
                    if out.failed() {
                        println!("observed: {}", out.text());
                        println!("expected: {}", EXPECTED_H);
                    } else {
                        println!("observed: all checks hold after the history ({} objects, {} reachable, {} pages, max_id before the call {})", snap.doc.objects.len(), snap.reach.len(), snap.pages.len(), state.max_id);
                    }
                    out.failed()
                }
            },
        };
        run.finish_replay(failed)
    }
    let prep = match prepare(doc) {
        Ok(p) => p,
        Err(e) => {
            eprintln!("MACHINERY: {}", e);
            std::process::exit(3);
        }
    };
    let out = run_case(&prep, &bms, start);
    if out.failed() {
        println!("observed: {}", out.text());
        println!("expected: {}", EXPECTED);
        match classify(&prep, &bms, start, &out, &mut NeutralCache::default()) {
            Some(f) => println!("classified as: {}", f.join(", ")),
            None => println!("classified as: (none)"),
        }
    } else {
        println!("observed: all checks hold ({} objects, {} reachable, {} pages, {} bookmarks)", prep.doc.objects.len(), prep.reach.len(), prep.pages.len(), bms.len());
    }
    run.finish_replay(out.failed())
}

fn main() {
    let run = Run::from_args("C10", "exploration");
    util::quiet_panics();
    util::init_pool();
    util::pin_schedule();
    if let Mode::Replay(path) = run.mode.clone() {
        // deeply nested objects are cloned, compared and dropped recursively: give the replay the stack of the pool workers
        std::thread::scope(|sc| {
            let _ = std::thread::Builder::new().stack_size(64 << 20).spawn_scoped(sc, || replay(&run, &path));
        });
        std::process::exit(3);
    }
    run.rule(
        "cases are tuples (document structure, ids, dangling refs on/off, bookmark list, start value or the plain entry point) enumerated \
         without repetition. Family A: every shape with n <= 4 (thorough 5) objects x every subset of {1..8} of size n and every size-n subset of \
         {3,70,1000,65536,4000000} x every assignment of the numbers to the roles (n!) x generation patterns (quick: all 2^n for n<=2, else 4 \
         patterns; thorough: all 2^n for n<=4). Family B: catalog, Pages root, optional intermediate Pages node over a prefix/suffix/all pages, \
         1..4 pages, Info, shared target, unreachable holder, stream - numbers dense from 1, dense from 3 or sparse; page numbers first, last or \
         spread among the others; every permutation of page numbers relative to page order; other roles ascending or descending; 4 generation \
         patterns (none, all, alternating, pages only; quick with 4 pages: none and alternating). Each structure x start in {0,1,2,3,n,max+1,1000} + renumber_objects() x dangling refs off/on (quick family B with 4 pages, and family A with 5 objects: on only) \
         x every bookmark list: family B 0..3 top-level bookmarks over all pages, one top-level + one nested child, two top-level + a child \
         of the second (quick: 4 pages -> 0..2 top-level + the nested pair; 3 pages -> without the last group); family A 0..2 top-level + the \
         nested pair (thorough: n <= 4 or one target as family B; 5 objects with 2-3 pages 0..1 top-level + the nested pair). Family A also takes every size-n subset of {0,1,2,4,70} that contains 0, family B the numbers dense from 0: documents that already hold \
         an object numbered 0 (placed through the public map), with every role - bookmark targets included - sitting on number 0 in turn. Distinct by construction (the tags bind \
         roles to numbers); a case is non-trivial when the recovered renaming is not the identity; the plain entry point repeats the input of \
         start 1 and is not counted as distinct. Every family also uses the start value equal to the document's current first number. \
         Family D (deep nesting): a container nest of depth d in {1,2,63,64,126,127,128,129,130,200,1000} (thorough: 16 more depths up to 2000) x \
         arrays only / dictionaries only / alternating x placed as /Deep in the trailer, the catalog, the first page, a stream dictionary (thorough: \
         Info); the innermost container holds a reference to EVERY object and every dangling reference, every level an integer, every 50th level a \
         reference to the catalog; shapes {2 pages + shared + stream, no pages + shared + stream} (thorough: + 3 pages under an intermediate node) x \
         numbers dense from 1 / dense from 3 / sparse x pages first / last x every page permutation (no pages: every rotation of the roles) x \
         generations none / alternating x every start value x dangling refs off/on x 0..1 bookmarks + the nested pair. Family H (history): shapes \
         {2 pages + Info + shared + orphan + stream, 3 pages (2 under an intermediate node) + shared + orphan, no pages + Info + orphan} x the same \
         numberings x every history out of: one earlier renumbering with every start value; delete_object of Info / shared / orphan / stream / last \
         page; delete_pages first / last; add_object; objects.insert far above max_id; objects.remove of the last object; max_id set to 0 / max+100 \
         / u32::MAX; save_to as table / stream; prune_objects; get_pages; and 10 two- and three-step combinations; renumbering chains: start s1 then start s2 for every ordered pair s1 != s2 over {0,1,3,10,current first number} \
         (with the start under test ranging over the same values this is every ordered pair and every triple, 0 -> 10 -> 0 included); numberings also dense from 0 and \
         {0, sparse...}; bookmark targets: the pages and the lowest-numbered object (alone and nested with the first page) - then every start value (plus 10) computed \
         on the resulting state (so 'start = current first number after an earlier renumbering' moves nothing) x dangling refs off/on x bookmark lists; \
         with >= 2 pages also: root Kids reversed through the public fields, alone, after get_pages, and after renumbering + get_pages. Family W \
         (many objects): 100, 255, 256, 257, 1000 (thorough: + 512, 1023, 1024, 1025, 4097) objects as a star (one array referencing all), a \
         reference chain closed to a ring, or a flat page tree whose page numbers decrease in page order x numbers (first, stride) in \
         {(1,1),(3,1),(5,3)} with alternating generations x every start value, no bookmarks. Family L (alias objects = indirect objects whose whole \
         value is a reference; arrays and scalars as whole objects): catalog, root Pages, 2 pages under the root or 3 pages (the last two under an \
         intermediate node), content stream, tagged dictionary T, plus a set of 16 features (listed under alias_features: alias to a dictionary from \
         the trailer; a dictionary reachable ONLY through an alias; alias to an array object; Contents through an alias; a Kids entry that is an alias \
         of a page / of the intermediate node; alias chains of 2 and 3 with an entry into the middle; aliases to ids no object has; an alias to \
         itself; integer/string/name/null/real/boolean objects referenced from several places and an alias to one; an alias of a page as bookmark \
         target; Kids -> alias -> array object; Parent, Root, Pages through aliases; an unreferenced alias) - feature sets: none, all, every single one, \
         all but one, every pair (thorough: every triple; 2 pages quick: without the pairs) x numbers dense from 1 / dense from 3 / sparse x roles in \
         canonical order (aliases numbered above what they stand for) / reversed / a stride walk x page-number permutations (all when a page-related \
         feature is present, else identity and reversal; thorough all) x generations none / alternating x every start value x dangling references \
         and stale-generation references always present x bookmark lists: none, one on each of first page / last page / bookmark alias / alias kid \
         (quick: only the alias targets, or the last page when there is none), and the last of these with a nested child on the first page. \
         Family L has two further features: /Type of the root Pages node and of the first and last page behind a reference to a name object, /Count behind a reference to an integer object. \
         Family M (page trees that are malformed but inside the domain 'arbitrary reference graphs ... dangling references'): catalog, root Pages (or root -> one intermediate node), 2 or 3 \
         pages, whose Kids array is EVERY arrangement of the pages with at most one unusable kid D and at most one Pages node N without a usable Kids entry. D: a reference to a number nothing \
         uses (far away / the first free number of the new range); the number of a LIVE object X under the other generation - X a page taken out of the tree / a Pages node with a page of its \
         own / a plain dictionary, referenced from the catalog's OpenAction and as bookmark target, or referenced from nowhere; the number of the first / last page of the tree, of the root, of \
         the catalog under the other generation; an integer; null; the catalog; a live plain dictionary. N: Kids missing / dangling / an integer / a dictionary / [] / a name / null / a \
         reference to an integer object / to a dictionary object / the number of a live array object (holding the first page) under the other generation. D alone and N alone: x in the root or \
         in the intermediate node x numbers dense from 1 / from 3 / sparse x page numbers lowest or highest x every permutation of page numbers relative to page order x generations none / \
         alternating x every start value x bookmarks none / (X or last page) with a nested child on the first page (thorough: + a single one). D and N together: every arrangement, quick: in \
         the root, dense from 1 / sparse, page numbers highest, alternating generations, start in {{plain, 2, n, max+1}} (thorough: the full product). Family S (stale max_id and the public map): \
         alias documents of family L with the feature sets {{none, all, Kids+Type+Count indirect, kid+interkid+Pages+Root aliases, and 12 single features}} x 2 or 3 pages x numbers dense / sparse \
         (thorough + dense from 3) x roles canonical / reversed (thorough + stride walk) x every page permutation x generations none / alternating; S1: Document::max_id set to 0, 1, the \
         median number, highest-1, highest+100 before the call x every start value x bookmarks none / nested pair; S2: a history through the public map or lopdf's methods (objects.insert far \
         above max_id; objects.remove of the last object; add_object; save_to; renumber then max_id = 0; get_pages then max_id = 1; insert high then max_id = 1; remove last then insert high) \
         then every start value computed on the resulting state, compared with the state right before the call",
    );
    run.assume("family M: a Kids entry that does not resolve, is no reference, or names an object that is no page-tree node, and a Pages node whose Kids is missing or not an array, contribute no pages: the reference page order is the depth-first walk that skips them (exact id lookups only). The objects such entries would have named under another generation are ordinary live objects: they must survive exactly once, like every other object");
    run.assume("family S: Document::max_id before the call is an input like any other (a public field that objects.insert does not maintain); after the call it must be the last assigned number whatever it was before");
    run.assume("objects without a tag (alias objects, arrays, scalars as whole objects) are allowed in any document: the new id of a reachable one is read off the reference that leads to it from an object whose counterpart is already known, and the content comparison then has to hold for the pair; unreachable ones are paired in ascending order within their generation. Every dictionary and stream still carries a unique /Tag");
    run.assume("a Kids entry (or Root, Pages, Kids, Parent, Contents value) that names an alias object stands for the object at the end of the alias chain (ISO 32000-1 7.3.10); page order is compared on the Page dictionaries the yielded ids denote, so page_iter() may yield the entry's id or the page's own id");
    run.assume("family H compares the renumbering under test against the document state right before that call (objects, trailer, bookmark targets), not against the generated document; objects added by the history carry fresh tags");
    run.assume("deeply nested objects (family D) exist only in memory: lopdf's parser rejects nesting beyond its own limit, the statement is about Document values");
    run.assume("domain: start >= 0 (renumber_objects_with(0) gives the first object number 0, and an object numbered 0 in Document::objects is an object like any other - also as bookmark target), unique object numbers, well-formed page tree (a page listed twice in Kids is outside it), bookmarks target existing objects; every dictionary or stream object carries a unique integer /Tag (the tag is how the renaming is observed)");
    run.assume("a reference that resolved to nothing may afterwards be any reference to a missing object, or null");
    run.assume("objects not reachable from the trailer are only required to be renumbered (number, generation), not to have their references renamed - the statement speaks of the trailer and what is reachable from it");
    let open: Vec<String> = std::fs::read_to_string(vharness::run::verif_root().join("known_findings.json"))
        .ok()
        .and_then(|t| serde_json::from_str::<Value>(&t).ok())
        .and_then(|v| v["findings"].as_array().cloned())
        .unwrap_or_default()
        .iter()
        .filter(|f| f["property"] == "C10" && f["status"] == "open")
        .filter_map(|f| f["finding_id"].as_str().map(String::from))
        .collect();
    let shv = Shared { run: &run, open, full_json_left: [AtomicU64::new(16), AtomicU64::new(16), AtomicU64::new(16), AtomicU64::new(16)], samples_left: AtomicU64::new(3) };
    family_a(&run, &shv);
    shv.samples_left.store(3, Ordering::SeqCst);
    run.set("wall_family_a_s", json!((run.elapsed() * 10.0).round() / 10.0));
    family_b(&run, &shv);
    run.set("wall_family_b_s", json!((run.elapsed() * 10.0).round() / 10.0));
    family_d(&run, &shv);
    run.set("wall_family_d_s", json!((run.elapsed() * 10.0).round() / 10.0));
    family_h(&run, &shv);
    run.set("wall_family_h_s", json!((run.elapsed() * 10.0).round() / 10.0));
    family_w(&run);
    run.set("wall_family_w_s", json!((run.elapsed() * 10.0).round() / 10.0));
    family_l(&run, &shv);
    run.set("wall_family_l_s", json!((run.elapsed() * 10.0).round() / 10.0));
    family_m(&run, &shv);
    run.set("wall_family_m_s", json!((run.elapsed() * 10.0).round() / 10.0));
    family_s(&run, &shv);
    run.exhaustive(true);
    run.finish();
}
