//! C14 - content streams survive encode and decode (DESIGN §4 C14).
//!
//! Parts: (a) byte content of string and name operands (all byte strings of length <= 2, sharp
//! k-tuples), (b) operators x operand-kind tuples, (c) operand trees and operation sequences,
//! (d) inline images built as bytes. Oracle a-c: `Content::decode(Content::encode(ops))` has the
//! same operators and equal operands in order (`cmp::diff_obj` per operand: an integral real may
//! come back as an integer). Oracle d: `decode(encode(decode(bytes))) == decode(bytes)`, where
//! `decode(bytes)` must be the image that was built (else the case says nothing).
//!
//! (e) nesting grid: a levels of arrays / dictionaries around (or next to) a literal string with d
//! balanced parenthesis levels, through Content::decode, Stream::decode_content and
//! Document::get_and_decode_page_content. (f) history independence: the results for a fixed probe
//! list are the same on a fresh thread and on a thread (plain, or a rayon worker) that earlier
//! decoded hostile content (over-deep, truncated at every depth, unbalanced) 1, 2, 40 or 130 times.
//! (g) long operands, long operand lists, long operators, long operation lists.
//!
//! Every unit (one operation or one short sequence) is checked alone (so it also ends at the end
//! of input) and inside a batch of several hundred units (so it also has neighbours).
use lopdf::content::{Content, Operation};
use lopdf::{Dictionary, Object, Stream, StringFormat};
use serde_json::{json, Value};
use std::sync::atomic::{AtomicU64, Ordering};
use vharness::gen::{all_upto2, tuples, SHARP};
use vharness::objjson::{esc, hex, obj_from_json, obj_to_json, show, unhex};
use vharness::{cmp, util, Mode, Run};

const EXPECTED_OPS: &str = "decode(encode(ops)) has the same operators and equal operands in order (integral Real may become Integer)";

// ---------------------------------------------------------------------------------------------
// the implementation under test

fn encode(ops: &[Operation]) -> Result<Vec<u8>, String> {
    match util::guard(|| Content { operations: ops }.encode()) {
        Ok(Ok(b)) => Ok(b),
        Ok(Err(e)) => Err(format!("encode error: {}", e)),
        Err(p) => Err(format!("encode {}", p)),
    }
}

fn decode(bytes: &[u8]) -> Result<Vec<Operation>, String> {
    match util::guard(|| Content::decode(bytes)) {
        Ok(Ok(c)) => Ok(c.operations),
        Ok(Err(e)) => Err(format!("decode error: {}", e)),
        Err(p) => Err(format!("decode {}", p)),
    }
}

fn show_op(o: &Operation) -> String {
    let mut s = String::new();
    for a in &o.operands {
        s.push_str(&show(a));
        s.push(' ');
    }
    s.push_str(&o.operator);
    s
}

/// First difference between two operation lists, or None. `from` = index of the first operation
/// that differs (used by the batch bisection).
fn cmp_ops(expected: &[Operation], actual: &[Operation]) -> Option<(usize, String)> {
    for (i, e) in expected.iter().enumerate() {
        let Some(a) = actual.get(i) else {
            return Some((i, format!("operation {} ({}) missing: decoded {} operations, expected {}", i, show_op(e), actual.len(), expected.len())));
        };
        if a.operator != e.operator {
            return Some((i, format!("operation {}: expected `{}` got `{}`", i, show_op(e), show_op(a))));
        }
        if a.operands.len() != e.operands.len() {
            return Some((i, format!("operation {}: operand count: expected `{}` got `{}`", i, show_op(e), show_op(a))));
        }
        for (k, (x, y)) in e.operands.iter().zip(a.operands.iter()).enumerate() {
            if let Some(d) = cmp::diff_obj(x, y, &format!("operation {} ({}) operand {}", i, e.operator, k)) {
                return Some((i, d));
            }
        }
    }
    if actual.len() > expected.len() {
        let i = expected.len();
        return Some((i, format!("unexpected operation {}: `{}` (expected {} operations)", i, show_op(&actual[i]), expected.len())));
    }
    None
}

fn roundtrip_at(ops: &[Operation]) -> Option<(usize, String)> {
    let bytes = match encode(ops) {
        Ok(b) => b,
        Err(e) => return Some((0, e)),
    };
    match decode(&bytes) {
        Err(e) => Some((0, format!("{} (encoded: {})", e, vharness::run::truncate(&esc(&bytes), 300)))),
        Ok(d) => cmp_ops(ops, &d).map(|(i, m)| (i, format!("{} (encoded: {})", m, vharness::run::truncate(&esc(&bytes), 300)))),
    }
}

fn roundtrip(ops: &[Operation]) -> Option<String> {
    roundtrip_at(ops).map(|x| x.1)
}

// ---------------------------------------------------------------------------------------------
// JSON form of operation lists (replay files, samples)

fn ops_to_json(ops: &[Operation]) -> Value {
    Value::Array(ops.iter().map(|o| json!({"op": o.operator, "a": o.operands.iter().map(obj_to_json).collect::<Vec<_>>()})).collect())
}

fn ops_from_json(v: &Value) -> Vec<Operation> {
    v.as_array()
        .map(|a| {
            a.iter()
                .map(|o| Operation {
                    operator: o["op"].as_str().unwrap_or("").to_string(),
                    operands: o["a"].as_array().map(|x| x.iter().map(obj_from_json).collect()).unwrap_or_default(),
                })
                .collect()
        })
        .unwrap_or_default()
}

// ---------------------------------------------------------------------------------------------
// classification (DESIGN Appendix A)

fn is_bi_stream(o: &Operation) -> bool {
    o.operator == "BI" && o.operands.iter().any(|a| matches!(a, Object::Stream(_)))
}

/// `content-bi-reencode`: the list holds a decoded inline image (operator BI with a Stream
/// operand) AND the same list without those operations round-trips.
fn classify_ops(ops: &[Operation]) -> Option<&'static str> {
    if ops.iter().any(is_bi_stream) {
        let rest: Vec<Operation> = ops.iter().filter(|o| !is_bi_stream(o)).cloned().collect();
        if roundtrip(&rest).is_none() {
            return Some("content-bi-reencode");
        }
    }
    None
}

fn report_ops(run: &Run, part: &str, ops: &[Operation], msg: &str) {
    run.fail(classify_ops(ops), json!({"kind": "ops", "part": part, "ops": ops_to_json(ops)}), msg, EXPECTED_OPS);
}

// ---------------------------------------------------------------------------------------------
// unit runner: each unit alone and all units of a chunk in one Content

type Unit = Vec<Operation>;

fn unit_nontrivial(u: &Unit) -> bool {
    u.len() >= 2 || u.iter().any(|o| !o.operands.is_empty() || o.operator.bytes().any(|c| !c.is_ascii_alphanumeric()))
}

fn check_chunk(run: &Run, part: &str, units: &[Unit]) {
    let mut failed_alone = vec![false; units.len()];
    run.eval(units.len() as u64 + 1);
    for (i, u) in units.iter().enumerate() {
        if let Some(m) = roundtrip(u) {
            failed_alone[i] = true;
            // does the failure depend on what this worker thread decoded before?
            if on_fresh("thread", || roundtrip(u)).is_some() {
                report_ops(run, part, u, &m);
            } else {
                let before = &units[..i];
                let again = on_fresh("thread", || {
                    for b in before {
                        let _ = roundtrip(b);
                    }
                    roundtrip(u)
                });
                run.eval(2 + before.len() as u64);
                run.fail(
                    None,
                    json!({"kind": "ops_after", "part": part, "before": before.iter().map(|b| ops_to_json(b)).collect::<Vec<_>>(), "ops": ops_to_json(u), "reproduced_by_the_units_before": again.is_some()}),
                    &format!(
                        "{} -- the same operations round-trip on a thread that has decoded nothing else: the result depends on what the thread decoded before ({})",
                        m,
                        if again.is_some() { format!("reproduced on a new thread by first round-tripping the {} units that precede it in its chunk", before.len()) } else { "the state came from an earlier chunk on the same worker thread; see the history cases".to_string() }
                    ),
                    EXPECTED_HISTORY,
                );
            }
        }
    }
    // batch of the units that pass alone: every unit gets a predecessor and a successor
    let good: Vec<&Unit> = units.iter().zip(&failed_alone).filter(|(_, f)| !**f).map(|(u, _)| u).collect();
    let all: Vec<Operation> = good.iter().flat_map(|u| u.iter().cloned()).collect();
    if roundtrip(&all).is_some() {
        // attribute to the smallest window of neighbouring units that fails
        let mut found = false;
        for w in good.windows(2) {
            let pair: Vec<Operation> = w[0].iter().chain(w[1].iter()).cloned().collect();
            run.eval(1);
            if let Some(m) = roundtrip(&pair) {
                found = true;
                report_ops(run, &format!("{} (two neighbouring units of a batch)", part), &pair, &m);
            }
        }
        if !found {
            let (i, m) = roundtrip_at(&all).unwrap();
            let lo = i.saturating_sub(3);
            let hi = (i + 3).min(all.len());
            run.fail(
                None,
                json!({"kind": "ops", "part": format!("{} (batch)", part), "ops": ops_to_json(&all), "first_bad_operation": i,
                       "window": ops_to_json(&all[lo..hi])}),
                &m,
                EXPECTED_OPS,
            );
        }
    }
}

fn check_units(run: &Run, part: &str, units: &[Unit], chunk: usize) {
    util::par_for(units.len().div_ceil(chunk), |c| {
        let lo = c * chunk;
        let hi = (lo + chunk).min(units.len());
        check_chunk(run, part, &units[lo..hi]);
    });
    run.nontrivial(units.iter().filter(|u| unit_nontrivial(u)).count() as u64);
}

fn op(operator: &str, operands: Vec<Object>) -> Operation {
    Operation::new(operator, operands)
}

fn dict1(k: &[u8], v: Object) -> Object {
    let mut d = Dictionary::new();
    d.set(k.to_vec(), v);
    Object::Dictionary(d)
}

// ---------------------------------------------------------------------------------------------
// part a: byte content of strings and names

fn carrier_units(b: &[u8]) -> Vec<Unit> {
    let lit = Object::String(b.to_vec(), StringFormat::Literal);
    let hx = Object::String(b.to_vec(), StringFormat::Hexadecimal);
    let name = Object::Name(b.to_vec());
    vec![
        vec![op("Tj", vec![lit.clone()])],
        vec![op("Tj", vec![hx.clone()])],
        vec![op("gs", vec![name.clone()])],
        // the same bytes below the top level: array elements, dictionary key and values
        vec![op("TJ", vec![Object::Array(vec![lit.clone(), hx, name.clone()])])],
        vec![op("DP", vec![Object::Name(b"T".to_vec()), dict1(b, lit)])],
        vec![op("BDC", vec![name.clone(), dict1(b"K", name)])],
    ]
}

const CARRIER_CONTEXTS: u64 = 6;

fn carriers_over(run: &Run, part: &str, list: &[Vec<u8>]) {
    let chunk = 200;
    util::par_for(list.len().div_ceil(chunk), |c| {
        let lo = c * chunk;
        let hi = (lo + chunk).min(list.len());
        let mut units = Vec::with_capacity((hi - lo) * CARRIER_CONTEXTS as usize);
        for b in &list[lo..hi] {
            units.extend(carrier_units(b));
        }
        check_chunk(run, part, &units);
    });
    // all carrier units have an operand next to an operator: non-trivial, distinct by construction
    run.nontrivial(list.len() as u64 * CARRIER_CONTEXTS);
    run.add(&format!("carriers_{}", part), list.len() as u64);
}

fn part_a(run: &Run) {
    let all = all_upto2();
    run.sample(json!({"part": "a", "bytes_hex": hex(&all[all.len() - 1]), "units": carrier_units(&all[all.len() - 1]).iter().map(|u| ops_to_json(u)).collect::<Vec<_>>()}));
    carriers_over(run, "bytes_le2", &all);
    let t3: Vec<Vec<u8>> = tuples(&SHARP, 3).collect();
    carriers_over(run, "sharp3", &t3);
    if run.thorough {
        let t4: Vec<Vec<u8>> = tuples(&SHARP, 4).collect();
        carriers_over(run, "sharp4", &t4);
    } else {
        let m = 64u64;
        let r = run.seed % m;
        let t4: Vec<Vec<u8>> = tuples(&SHARP, 4).enumerate().filter(|(i, _)| *i as u64 % m == r).map(|x| x.1).collect();
        carriers_over(run, "sharp4_slice", &t4);
        run.set("sharp4_slice", json!(format!("index mod {} == {} (supplementary; the quick bound is sharp 3-tuples)", m, r)));
    }
    // parenthesis nesting around the reader's limit (C01's family, through the content parser)
    let mut units = vec![];
    for n in [1usize, 2, 99, 100, 101, 102, 300] {
        let mut s = vec![b'('; n];
        s.extend(vec![b')'; n]);
        units.push(vec![op("Tj", vec![Object::String(s.clone(), StringFormat::Literal)])]);
        units.push(vec![op("Tj", vec![Object::String(vec![b'('; n], StringFormat::Literal)])]);
        units.push(vec![op("Tj", vec![Object::String(vec![b')'; n], StringFormat::Literal)])]);
    }
    run.add("paren_family_units", units.len() as u64);
    check_units(run, "paren_family", &units, 8);
}

// ---------------------------------------------------------------------------------------------
// part b: operators x operand kinds

/// ISO 32000-1 Table 51 (all 73 content operators).
const ISO_OPERATORS: [&str; 73] = [
    "b", "B", "b*", "B*", "BDC", "BI", "BMC", "BT", "BX", "c", "cm", "CS", "cs", "d", "d0", "d1", "Do", "DP", "EI", "EMC", "ET",
    "EX", "f", "F", "f*", "G", "g", "gs", "h", "i", "ID", "j", "J", "K", "k", "l", "m", "M", "MP", "n", "q", "Q", "re", "RG", "rg",
    "ri", "s", "S", "SC", "sc", "SCN", "scn", "sh", "T*", "Tc", "Td", "TD", "Tf", "Tj", "TJ", "TL", "Tm", "Tr", "Ts", "Tw", "Tz",
    "v", "w", "W", "W*", "y", "'", "\"",
];

const SYNTH_ALPHABET: [u8; 9] = [b'a', b'Z', b'n', b't', b'f', b'R', b'*', b'\'', b'"'];

fn in_operator_alphabet(t: &str) -> bool {
    !t.is_empty() && t.bytes().all(|c| c.is_ascii_alphabetic() || b"*'\"".contains(&c))
}

fn keyword_prefixed(t: &str) -> bool {
    t.starts_with("null") || t.starts_with("true") || t.starts_with("false")
}

fn operator_list(run: &Run) -> Vec<String> {
    let mut out: Vec<String> = vec![];
    let mut outside = vec![];
    let mut inline = vec![];
    for t in ISO_OPERATORS {
        if ["BI", "ID", "EI"].contains(&t) {
            inline.push(t);
        } else if !in_operator_alphabet(t) {
            outside.push(t);
        } else {
            out.push(t.to_string());
        }
    }
    let iso = out.len();
    let mut synth = 0;
    let mut excluded = 0;
    for len in 1..=2 {
        for t in tuples(&SYNTH_ALPHABET, len) {
            let t = String::from_utf8(t).unwrap();
            if keyword_prefixed(&t) {
                excluded += 1;
                continue;
            }
            synth += 1;
            if !out.contains(&t) {
                out.push(t);
            }
        }
    }
    run.set(
        "operator_domain",
        json!({"iso_32000_operators": ISO_OPERATORS.len(), "iso_in_alphabet": iso, "iso_outside_alphabet": outside,
               "iso_inline_image_syntax_part_d_only": inline, "synthetic_tokens_len_le2": synth,
               "synthetic_excluded_keyword_prefix": excluded, "operators_total_distinct": out.len()}),
    );
    out
}

/// One representative per direct operand kind (and per spelling class of numbers / names).
fn operand_kinds() -> Vec<Object> {
    let mut d = Dictionary::new();
    d.set("K", Object::string_literal("v"));
    vec![
        Object::Null,
        Object::Boolean(true),
        Object::Boolean(false),
        Object::Integer(0),
        Object::Integer(-7),
        Object::Real(0.5),
        Object::Real(-12.25),
        Object::Real(3.0),
        Object::Name(b"N".to_vec()),
        Object::Name(vec![]),
        Object::String(b"s".to_vec(), StringFormat::Literal),
        Object::String(vec![0x00, 0xff], StringFormat::Hexadecimal),
        Object::Array(vec![Object::Integer(1), Object::Name(b"a".to_vec())]),
        Object::Dictionary(d),
    ]
}

fn part_b(run: &Run) {
    let ops = operator_list(run);
    let kinds = operand_kinds();
    let n = kinds.len();
    // operand tuples of length 0..3
    let mut operand_tuples: Vec<Vec<Object>> = vec![vec![]];
    for a in &kinds {
        operand_tuples.push(vec![a.clone()]);
    }
    for a in &kinds {
        for b in &kinds {
            operand_tuples.push(vec![a.clone(), b.clone()]);
        }
    }
    for a in &kinds {
        for b in &kinds {
            for c in &kinds {
                operand_tuples.push(vec![a.clone(), b.clone(), c.clone()]);
            }
        }
    }
    run.set("operand_kinds", json!(n));
    run.set("operand_tuples_len_0_to_3", json!(operand_tuples.len()));
    run.add("operators", ops.len() as u64);
    let count = AtomicU64::new(0);
    util::par_for(ops.len(), |i| {
        let units: Vec<Unit> = operand_tuples.iter().map(|t| vec![op(&ops[i], t.clone())]).collect();
        for c in units.chunks(500) {
            check_chunk(run, "operators", c);
        }
        count.fetch_add(units.iter().filter(|u| unit_nontrivial(u)).count() as u64, Ordering::Relaxed);
    });
    run.nontrivial(count.load(Ordering::Relaxed));
    run.add("operator_operations", (ops.len() * operand_tuples.len()) as u64);
    run.sample(json!({"part": "b", "unit": ops_to_json(&[op(&ops[ops.len() - 1], operand_tuples[operand_tuples.len() - 1].clone())])}));

    // the domain restriction, measured: tokens that begin with a keyword are read as operand + rest
    let mut observed = vec![];
    for t in ["nulla", "truex", "falsey", "null", "true", "false", "d0", "d1"] {
        run.eval(1);
        let r = roundtrip(&[op(t, vec![Object::Integer(1)])]);
        observed.push(json!({"token": t, "round_trips_as_operator": r.is_none()}));
    }
    run.set("out_of_domain_tokens_observed_not_demanded", json!(observed));
}

// ---------------------------------------------------------------------------------------------
// part c: operand trees, operation sequences, reals

fn leaves() -> Vec<Object> {
    vec![
        Object::Null,
        Object::Boolean(true),
        Object::Integer(-7),
        Object::Real(2.5),
        Object::Name(b"N m".to_vec()),
        Object::String(b"(s\\".to_vec(), StringFormat::Literal),
        Object::String(b"\x00\xff".to_vec(), StringFormat::Hexadecimal),
        Object::Array(vec![]),
        Object::Dictionary(Dictionary::new()),
    ]
}

/// All trees with exactly `nodes` nodes (arrays and dictionaries as inner nodes).
fn gen_trees(nodes: usize) -> Vec<Object> {
    if nodes == 1 {
        return leaves();
    }
    let mut out = vec![];
    for comp in vharness::docgen::compositions(nodes - 1) {
        let mut lists: Vec<Vec<Object>> = vec![vec![]];
        for part in &comp {
            let subs = gen_trees(*part);
            let mut next = Vec::with_capacity(lists.len() * subs.len());
            for l in &lists {
                for s in &subs {
                    let mut l2 = l.clone();
                    l2.push(s.clone());
                    next.push(l2);
                }
            }
            lists = next;
        }
        for children in lists {
            out.push(Object::Array(children.clone()));
            let mut d = Dictionary::new();
            for (i, c) in children.into_iter().enumerate() {
                d.set(format!("K{}", i).into_bytes(), c);
            }
            out.push(Object::Dictionary(d));
        }
    }
    out
}

fn part_c_trees(run: &Run) {
    let mut trees = vec![];
    for n in 1..=3 {
        trees.extend(gen_trees(n));
    }
    let mut units: Vec<Unit> = vec![];
    for t in &trees {
        units.push(vec![op("sc", vec![t.clone()])]);
        units.push(vec![op("sc", vec![t.clone(), Object::Integer(1)])]);
        units.push(vec![op("sc", vec![Object::Integer(1), t.clone()])]);
        units.push(vec![op("'", vec![t.clone(), t.clone()])]);
    }
    run.add("trees", trees.len() as u64);
    run.add("tree_units", units.len() as u64);
    run.sample(json!({"part": "c-trees", "unit": ops_to_json(&units[units.len() - 1])}));
    check_units(run, "trees", &units, 500);
}

/// Operations for the sequence menu: every kind of first/last operand token x every class of
/// operator spelling, so that every token kind ends one operation and begins the next.
fn sequence_menu() -> Vec<Operation> {
    let mut d = Dictionary::new();
    d.set("K", Object::Integer(1));
    let firsts: Vec<Object> = vec![
        Object::Null,
        Object::Boolean(true),
        Object::Boolean(false),
        Object::Integer(5),
        Object::Integer(-5),
        Object::Real(0.5),
        Object::Real(-0.5),
        Object::Name(b"N".to_vec()),
        Object::Name(vec![]),
        Object::String(b"s".to_vec(), StringFormat::Literal),
        Object::String(b"\xab".to_vec(), StringFormat::Hexadecimal),
        Object::Array(vec![Object::Integer(1)]),
        Object::Dictionary(d),
    ];
    let operators = ["q", "n", "f", "T*", "'", "\""];
    let mut menu = vec![];
    for o in operators {
        menu.push(op(o, vec![]));
        for a in &firsts {
            menu.push(op(o, vec![a.clone()]));
        }
    }
    menu
}

fn part_c_sequences(run: &Run) {
    let menu = sequence_menu();
    let m = menu.len();
    run.set("sequence_menu", json!(m));
    let depth = if run.thorough { 3 } else { 2 };
    let mut total = 0u64;
    for len in 1..=depth {
        let n = m.pow(len as u32);
        total += n as u64;
        let chunk = 2000;
        util::par_for(n.div_ceil(chunk), |c| {
            let lo = c * chunk;
            let hi = (lo + chunk).min(n);
            let mut units: Vec<Unit> = Vec::with_capacity(hi - lo);
            for mut i in lo..hi {
                let mut u = Vec::with_capacity(len);
                for _ in 0..len {
                    u.push(menu[i % m].clone());
                    i /= m;
                }
                u.reverse();
                units.push(u);
            }
            for c in units.chunks(250) {
                check_chunk(run, "sequences", c);
            }
        });
        // sequences of length >= 2 are non-trivial; of length 1 when they have an operand or a non-alphanumeric operator
        if len == 1 {
            run.nontrivial(menu.iter().filter(|o| unit_nontrivial(&vec![(*o).clone()])).count() as u64);
        } else {
            run.nontrivial(n as u64);
        }
    }
    if !run.thorough {
        // supplementary slice of the length-3 sequences, rotated by the seed
        let md = 97u64;
        let r = run.seed % md;
        let n = m.pow(3);
        let idx: Vec<usize> = (0..n).filter(|i| *i as u64 % md == r).collect();
        util::par_for(idx.len().div_ceil(500), |c| {
            let units: Vec<Unit> = idx[c * 500..((c + 1) * 500).min(idx.len())]
                .iter()
                .map(|&i| vec![menu[i / (m * m)].clone(), menu[(i / m) % m].clone(), menu[i % m].clone()])
                .collect();
            check_chunk(run, "sequences", &units);
        });
        run.nontrivial(idx.len() as u64);
        total += idx.len() as u64;
        run.set("sequences_len3_slice", json!(format!("index mod {} == {} (supplementary; the quick bound is length 2)", md, r)));
    }
    run.add("sequences", total);
    run.sample(json!({"part": "c-sequences", "unit": ops_to_json(&[menu[m - 1].clone(), menu[1].clone()]), "menu_size": m, "max_length": depth}));
}

fn mantissas() -> Vec<u32> {
    let mut m: Vec<u32> = vec![0, 1, 2, 3, 0x7fffff, 0x7ffffe, 0x555555, 0x2aaaaa, 0x400000, 0x400001, 0x3fffff];
    for k in 2..23 {
        m.push(1 << k);
    }
    let mut x: u32 = 0x9e3779b9;
    while m.len() < 64 {
        x = x.wrapping_mul(1664525).wrapping_add(1013904223);
        let v = x >> 9;
        if !m.contains(&v) {
            m.push(v);
        }
    }
    m
}

fn part_c_reals(run: &Run) {
    let mut vals: Vec<f32> = vec![
        0.5, -12.25, 1e-7, 3.0, -3.0, 0.0, -0.0, f32::MAX, f32::MIN, f32::MIN_POSITIVE, 1e-45, 1e10, 1e19, -1e19, 9.2e18, 9.223372e18,
        9.223373e18, 16777216.0, 16777217.0, 123456.79, 0.1, 1.0 / 3.0, 4294967296.0, 2147483648.0, 255.0, 1e38,
    ];
    let ms = mantissas();
    let exps: Vec<u32> = if run.thorough { (0..255).collect() } else { (0..255).collect() };
    let msel: Vec<u32> = if run.thorough { ms.clone() } else { ms.iter().take(24).cloned().collect() };
    for e in &exps {
        for m in &msel {
            for s in 0..2u32 {
                vals.push(f32::from_bits((s << 31) | (e << 23) | m));
            }
        }
    }
    let units: Vec<Unit> = vals
        .iter()
        .flat_map(|v| {
            vec![
                vec![op("w", vec![Object::Real(*v)])],
                vec![op("Td", vec![Object::Real(*v), Object::Real(*v)])],
                vec![op("d", vec![Object::Array(vec![Object::Real(*v), Object::Integer(1), Object::Real(*v)]), Object::Integer(0)])],
            ]
        })
        .collect();
    run.add("reals_checked", vals.len() as u64);
    run.sample(json!({"part": "c-reals", "unit": ops_to_json(&units[7 * 3 + 1]), "values": vals.len(),
                      "rule": "listed boundary values + exponents 0..254 x mantissa patterns x sign (no NaN/inf)"}));
    check_units(run, "reals", &units, 600);
    let ints: Vec<Unit> = [0i64, 1, -1, 2147483647, 2147483648, -2147483649, 4294967296, 9007199254740993, i64::MAX, i64::MIN, i64::MAX - 1, i64::MIN + 1]
        .iter()
        .map(|i| vec![op("Tr", vec![Object::Integer(*i), Object::Integer(*i)])])
        .collect();
    check_units(run, "integers", &ints, 12);
}

// ---------------------------------------------------------------------------------------------
// part d: inline images

/// Colour-space names accepted by lopdf's `image_data_stream` with their component counts.
const COLOUR_SPACES: [(&str, usize); 8] = [
    ("DeviceGray", 1),
    ("Gray", 1),
    ("DeviceRGB", 3),
    ("RGB", 3),
    ("DeviceRGBA", 4),
    ("RGBA", 4),
    ("DeviceCMYK", 4),
    ("CMYK", 4),
];
const DATA_ALPHABET: [u8; 6] = [0x00, 0x20, 0x0a, b'E', b'I', 0xff];
const CONTENT_SPACE: [u8; 4] = [b' ', b'\t', b'\r', b'\n'];

#[derive(Clone, Debug)]
struct Image {
    full_keys: bool,
    cs: &'static str,
    ncomp: usize,
    bpc: usize,
    w: usize,
    h: usize,
    data: Vec<u8>,
    /// 0 = the image alone, 1 = between `q` and `Q`
    context: u8,
}

impl Image {
    fn len(&self) -> usize {
        self.h * ((self.w * self.ncomp * self.bpc + 7) / 8)
    }
    fn keys(&self) -> [&'static str; 4] {
        if self.full_keys {
            ["Width", "Height", "ColorSpace", "BitsPerComponent"]
        } else {
            ["W", "H", "CS", "BPC"]
        }
    }
    /// The bytes `BI /W .. /H .. /CS .. /BPC .. ID <data> EI` (ISO 32000-1 8.9.7: ID is followed
    /// by one white-space character, then the data; EI is preceded by white-space).
    fn bytes(&self) -> Vec<u8> {
        let k = self.keys();
        let sep = if self.full_keys { "\n" } else { " " };
        let mut b = Vec::new();
        if self.context == 1 {
            b.extend_from_slice(b"q\n");
        }
        b.extend_from_slice(format!("BI{s}/{} {}{s}/{} {}{s}/{} /{}{s}/{} {}{s}ID{s}", k[0], self.w, k[1], self.h, k[2], self.cs, k[3], self.bpc, s = sep).as_bytes());
        b.extend_from_slice(&self.data);
        b.extend_from_slice(sep.as_bytes());
        b.extend_from_slice(b"EI");
        if self.context == 1 {
            b.extend_from_slice(b"\nQ");
        }
        b
    }
    /// What the bytes denote: one BI operation whose operand is the image (dictionary + data).
    fn expected(&self) -> Vec<Operation> {
        let k = self.keys();
        let mut d = Dictionary::new();
        d.set(k[0], Object::Integer(self.w as i64));
        d.set(k[1], Object::Integer(self.h as i64));
        d.set(k[2], Object::Name(self.cs.as_bytes().to_vec()));
        d.set(k[3], Object::Integer(self.bpc as i64));
        let bi = op("BI", vec![Object::Stream(Stream::new(d, self.data.clone()))]);
        if self.context == 1 {
            vec![op("q", vec![]), bi, op("Q", vec![])]
        } else {
            vec![bi]
        }
    }
    fn to_json(&self) -> Value {
        json!({"full_keys": self.full_keys, "cs": self.cs, "bpc": self.bpc, "w": self.w, "h": self.h, "data": hex(&self.data), "context": self.context})
    }
}

fn data_patterns(n: usize, exhaustive_upto: usize) -> Vec<Vec<u8>> {
    let a = &DATA_ALPHABET;
    if n <= exhaustive_upto {
        return tuples(a, n).collect();
    }
    let mut out: Vec<Vec<u8>> = vec![];
    for &c in a {
        out.push(vec![c; n]);
    }
    let cyc = [b'E', b'I', 0x20, 0x0a, 0x00, 0xff];
    for r in 0..6 {
        out.push((0..n).map(|i| cyc[(i + r) % 6]).collect());
    }
    // "EI" preceded and followed by white-space inside the data; every alphabet byte first / last
    out.push((0..n).map(|i| b" EI\nEI "[i % 7]).collect());
    for &c in a {
        let mut v = vec![0x41u8; n];
        v[0] = c;
        out.push(v.clone());
        let mut v = vec![0x41u8; n];
        v[n - 1] = c;
        out.push(v);
        let mut v = vec![0x41u8; n];
        v[0] = c;
        v[1] = b'E';
        v[2] = b'I';
        out.push(v);
    }
    out.sort();
    out.dedup();
    out
}

/// Outcome of one inline-image case. `Ok(())` = both oracles hold.
enum ImgFail {
    /// decode(bytes) is not the image that was built (or fails)
    FirstDecode(String),
    /// decode(encode(decode(bytes))) != decode(bytes)
    Reencode(Vec<Operation>, String),
}

fn check_image_bytes(bytes: &[u8], expected: &[Operation]) -> Result<(), ImgFail> {
    let ops1 = match decode(bytes) {
        Ok(o) => o,
        Err(e) => return Err(ImgFail::FirstDecode(format!("{} (bytes: {})", e, vharness::run::truncate(&esc(bytes), 300)))),
    };
    if let Some((_, m)) = cmp_ops(expected, &ops1) {
        return Err(ImgFail::FirstDecode(format!("decode(bytes) is not the image: {} (bytes: {})", m, vharness::run::truncate(&esc(bytes), 300))));
    }
    match roundtrip(&ops1) {
        None => Ok(()),
        Some(m) => Err(ImgFail::Reencode(ops1, m)),
    }
}

/// `content-inline-image-leading-ws`: the image data begins with a byte of lopdf's content_space
/// AND the same image with that leading run replaced by 'A' bytes decodes to what was built.
fn classify_first_decode(img: &Image) -> Option<&'static str> {
    if img.data.first().map(|c| CONTENT_SPACE.contains(c)).unwrap_or(false) {
        let mut n = img.clone();
        for c in n.data.iter_mut() {
            if CONTENT_SPACE.contains(c) {
                *c = b'A';
            } else {
                break;
            }
        }
        if let Ok(o) = decode(&n.bytes()) {
            if cmp_ops(&n.expected(), &o).is_none() {
                return Some("content-inline-image-leading-ws");
            }
        }
    }
    None
}

fn run_image(run: &Run, img: &Image) {
    let bytes = img.bytes();
    run.eval(1);
    match check_image_bytes(&bytes, &img.expected()) {
        Ok(()) => {}
        Err(ImgFail::FirstDecode(m)) => run.fail(
            classify_first_decode(img),
            json!({"kind": "inline", "part": "inline_images", "image": img.to_json(), "bytes": hex(&bytes), "expect": ops_to_json(&img.expected())}),
            &m,
            "decode(bytes) returns the inline image that the bytes spell (dictionary entries and exactly the data bytes)",
        ),
        Err(ImgFail::Reencode(ops1, m)) => run.fail(
            classify_ops(&ops1),
            json!({"kind": "inline", "part": "inline_images", "image": img.to_json(), "bytes": hex(&bytes), "expect": ops_to_json(&img.expected())}),
            &m,
            "decode(encode(decode(bytes))) == decode(bytes)",
        ),
    }
}

fn part_d(run: &Run) {
    let exh = if run.thorough { 4 } else { 3 };
    let mut geoms = vec![];
    for (cs, ncomp) in COLOUR_SPACES {
        for bpc in [1usize, 2, 4, 8, 16] {
            for w in 1..=4usize {
                for h in 1..=3usize {
                    for full_keys in [false, true] {
                        geoms.push(Image { full_keys, cs, ncomp, bpc, w, h, data: vec![], context: 0 });
                    }
                }
            }
        }
    }
    run.add("inline_geometries", geoms.len() as u64);
    let images = AtomicU64::new(0);
    let exhaustive_data = AtomicU64::new(0);
    util::par_for(geoms.len(), |g| {
        let n = geoms[g].len();
        let pats = data_patterns(n, exh);
        if n <= exh {
            exhaustive_data.fetch_add(1, Ordering::Relaxed);
        }
        for (pi, p) in pats.iter().enumerate() {
            for context in [0u8, 1] {
                // the second context only for every other pattern of the long data sets (keeps quick fast)
                if context == 1 && n > exh && pi % 2 == 1 && !run.thorough {
                    continue;
                }
                let mut img = geoms[g].clone();
                img.data = p.clone();
                img.context = context;
                run_image(run, &img);
                images.fetch_add(1, Ordering::Relaxed);
            }
        }
    });
    let n = images.load(Ordering::Relaxed);
    run.add("inline_images", n);
    run.nontrivial(n);
    run.set("inline_geometries_with_exhaustive_data", json!(exhaustive_data.load(Ordering::Relaxed)));
    run.set("inline_data_rule", json!(format!("data length = H*ceil(W*components*BPC/8); all strings over {{00,20,0A,'E','I',FF}} when the length is <= {}, else uniform fills, 6 rotations of a cyclic pattern, ' EI\\nEI ' repeated, and every alphabet byte first / last / followed by 'EI'", exh)));
    let mut s = geoms[geoms.len() / 2].clone();
    s.data = data_patterns(s.len(), exh)[0].clone();
    run.sample(json!({"part": "d", "image": s.to_json(), "bytes": String::from_utf8_lossy(&s.bytes())}));

    // measured, not demanded: the standard abbreviations of ISO 32000-1 Table 94 that lopdf's
    // image_data_stream does not list are outside "every supported colour space"
    let mut unsupported = vec![];
    for cs in ["G", "I", "Indexed", "CalGray", "CalRGB", "Lab", "Pattern"] {
        let b = format!("BI /W 1 /H 1 /CS /{} /BPC 8 ID A EI", cs);
        run.eval(1);
        if decode(b.as_bytes()).map(|o| o.len() != 1).unwrap_or(true) {
            unsupported.push(cs);
        }
    }
    run.set("colour_space_names_not_supported_by_lopdf_not_demanded", json!(unsupported));
}

// ---------------------------------------------------------------------------------------------
// parts e-g: deep nesting, history independence, long operands
//
// Deep operands are described by parameters (`Shape`), not by their tree: serde_json refuses to
// read values nested deeper than 128 levels, so a replay file holds the parameters and the replay
// rebuilds the operand from them.

/// Arrays / dictionaries nested `a` levels: the accepted limit found by experiment on the
/// unchanged tree (lopdf's parser rejects the 128th level; stated as an assumption in main).
const NESTING_IN_DOMAIN: usize = 127;

const WRAPS: [&str; 3] = ["array", "dict", "alt"];
const ENTRIES: [&str; 3] = ["Content::decode", "Stream::decode_content", "Document::get_and_decode_page_content"];

fn static_of(s: &str, menu: &[&'static str]) -> &'static str {
    menu.iter().copied().find(|m| *m == s).unwrap_or(menu[0])
}

/// `a` levels of arrays / dictionaries (`wrap`: array = `[x]`, dict = `<</K x>>`, alt = array
/// outermost, then alternating) around / next to a literal string with `d` balanced levels of
/// parentheses. `pos`: inner = the string is the innermost element; before / after = the string is
/// a sibling operand of the nest (whose innermost element is then the integer 7); inline = the nest
/// with the string inside is an entry of an inline image's dictionary (`BI` with a Stream operand).
#[derive(Clone, Debug, PartialEq)]
struct Shape {
    wrap: &'static str,
    a: usize,
    d: usize,
    pos: &'static str,
    hex: bool,
}

const POSITIONS: [&str; 4] = ["inner", "before", "after", "inline"];

impl Shape {
    fn to_json(&self) -> Value {
        json!({"wrap": self.wrap, "a": self.a, "d": self.d, "pos": self.pos, "hex": self.hex})
    }
    fn from_json(v: &Value) -> Shape {
        Shape {
            wrap: static_of(v["wrap"].as_str().unwrap_or(""), &WRAPS),
            a: v["a"].as_u64().unwrap_or(0) as usize,
            d: v["d"].as_u64().unwrap_or(0) as usize,
            pos: static_of(v["pos"].as_str().unwrap_or(""), &POSITIONS),
            hex: v["hex"].as_bool().unwrap_or(false),
        }
    }
    fn string(&self) -> Object {
        let mut s = vec![b'('; self.d];
        s.push(b'x');
        s.extend(vec![b')'; self.d]);
        Object::String(s, if self.hex { StringFormat::Hexadecimal } else { StringFormat::Literal })
    }
    fn nest(&self, leaf: Object) -> Object {
        let mut o = leaf;
        for level in (0..self.a).rev() {
            let is_array = match self.wrap {
                "array" => true,
                "dict" => false,
                _ => level % 2 == 0,
            };
            o = if is_array { Object::Array(vec![o]) } else { dict1(b"K", o) };
        }
        o
    }
    fn ops(&self) -> Vec<Operation> {
        let operands = match self.pos {
            "inner" => vec![self.nest(self.string())],
            "before" => vec![self.string(), self.nest(Object::Integer(7))],
            "inline" => {
                // a decoded inline image whose dictionary holds the nest
                let mut d = Dictionary::new();
                d.set("W", Object::Integer(1));
                d.set("H", Object::Integer(1));
                d.set("CS", Object::Name(b"DeviceGray".to_vec()));
                d.set("BPC", Object::Integer(8));
                d.set("X", self.nest(self.string()));
                return vec![op("BI", vec![Object::Stream(Stream::new(d, b"x".to_vec()))])];
            }
            _ => vec![self.nest(Object::Integer(7)), self.string()],
        };
        vec![op("sc", operands)]
    }
    fn label(&self) -> String {
        format!("{} x{} {} string with {} paren levels{}", self.wrap, self.a, self.pos, self.d, if self.hex { " (hex)" } else { "" })
    }
}

/// Build-and-forget for very deep objects: dropping recurses once per level, like building.
fn page_doc(bytes: &[u8]) -> (lopdf::Document, lopdf::ObjectId) {
    let mut doc = lopdf::Document::with_version("1.5");
    let cid = doc.add_object(Stream::new(Dictionary::new(), bytes.to_vec()));
    let mut page = Dictionary::new();
    page.set("Type", Object::Name(b"Page".to_vec()));
    page.set("Contents", Object::Reference(cid));
    let pid = doc.add_object(page);
    (doc, pid)
}

fn decode_via(entry: &str, bytes: &[u8]) -> Result<Vec<Operation>, String> {
    match entry {
        "Stream::decode_content" => {
            let st = Stream::new(Dictionary::new(), bytes.to_vec());
            match util::guard(|| st.decode_content()) {
                Ok(Ok(c)) => Ok(c.operations),
                Ok(Err(e)) => Err(format!("decode_content error: {}", e)),
                Err(p) => Err(format!("decode_content {}", p)),
            }
        }
        "Document::get_and_decode_page_content" => {
            let (doc, pid) = page_doc(bytes);
            match util::guard(|| doc.get_and_decode_page_content(pid)) {
                Ok(Ok(c)) => Ok(c.operations),
                Ok(Err(e)) => Err(format!("get_and_decode_page_content error: {}", e)),
                Err(p) => Err(format!("get_and_decode_page_content {}", p)),
            }
        }
        _ => decode(bytes),
    }
}

fn roundtrip_via(ops: &[Operation], entry: &str) -> Option<String> {
    let bytes = match encode(ops) {
        Ok(b) => b,
        Err(e) => return Some(e),
    };
    match decode_via(entry, &bytes) {
        Err(e) => Some(format!("{} (encoded, {} bytes: {})", e, bytes.len(), vharness::run::truncate(&esc(&bytes), 300))),
        Ok(d) => cmp_ops(ops, &d).map(|(_, m)| format!("{} (encoded, {} bytes: {})", vharness::run::truncate(&m, 400), bytes.len(), vharness::run::truncate(&esc(&bytes), 300))),
    }
}

/// Run `f` on a thread that has never run anything else (fresh thread-locals): a plain thread, or
/// the single worker of a rayon pool built for this call.
fn on_fresh<T: Send>(place: &str, f: impl FnOnce() -> T + Send) -> T {
    if place == "rayon" {
        let pool = rayon::ThreadPoolBuilder::new().num_threads(1).stack_size(16 << 20).build().expect("pool");
        pool.install(f)
    } else {
        std::thread::scope(|s| {
            std::thread::Builder::new().stack_size(16 << 20).spawn_scoped(s, f).expect("spawn").join().unwrap_or_else(|_| {
                eprintln!("MACHINERY: helper thread panicked");
                std::process::exit(3)
            })
        })
    }
}

const PLACES: [&str; 2] = ["thread", "rayon"];

/// Run `f(i)` for i in 0..n from plain driver threads (not from workers of the global rayon pool:
/// a case may call Document::load_mem, which waits for that pool).
fn drive(n: usize, f: impl Fn(usize) + Sync) {
    let next = std::sync::atomic::AtomicUsize::new(0);
    let k = std::thread::available_parallelism().map(|x| x.get()).unwrap_or(8);
    std::thread::scope(|s| {
        for _ in 0..k {
            s.spawn(|| loop {
                let i = next.fetch_add(1, Ordering::Relaxed);
                if i >= n {
                    break;
                }
                f(i);
            });
        }
    });
}

const EXPECTED_SHAPE: &str = "decode(encode(ops)) == ops: arrays / dictionaries nested up to 127 levels and literal strings with any number of balanced parenthesis levels (the writer escapes what the reader would not accept) each round-trip alone, so they round-trip combined in one operand list";

fn part_e(run: &Run) {
    let a_list: Vec<usize> = if run.thorough { (0..=NESTING_IN_DOMAIN).collect() } else { vec![0, 1, 2, 27, 28, 60, 100, 126, 127] };
    let d_list: Vec<usize> = if run.thorough { (0..=103).chain([150, 300]).collect() } else { vec![0, 1, 2, 50, 90, 99, 100, 101] };
    let mut shapes = vec![];
    for wrap in WRAPS {
        for &a in &a_list {
            for &d in &d_list {
                for pos in POSITIONS {
                    if a == 0 && ((pos != "inner" && pos != "inline") || wrap != "array") {
                        continue; // without a nest the three wraps and the sibling positions coincide
                    }
                    shapes.push(Shape { wrap, a, d, pos, hex: false });
                }
            }
            // control: the same bytes as a hexadecimal string (no parentheses on the wire)
            shapes.push(Shape { wrap, a, d: 100, pos: "inner", hex: true });
        }
    }
    let failed = AtomicU64::new(0);
    util::par_for(shapes.len(), |i| {
        let sh = &shapes[i];
        let ops = sh.ops();
        for entry in ENTRIES {
            run.eval(1);
            if let Some(mut m) = roundtrip_via(&ops, entry) {
                if on_fresh("thread", || roundtrip_via(&ops, entry)).is_none() {
                    m.push_str(" -- the same shape round-trips on a thread that has decoded nothing else: the result depends on what this worker thread decoded before; see the history cases");
                }
                failed.fetch_add(1, Ordering::Relaxed);
                run.fail(None, json!({"kind": "shape", "part": "nesting_grid", "shape": sh.to_json(), "entry": entry}), &format!("{}: {} -> {}: {}", sh.label(), "Content::encode", entry, m), EXPECTED_SHAPE);
            }
        }
    });
    run.nontrivial(shapes.len() as u64 * ENTRIES.len() as u64);
    run.add("nesting_grid_shapes", shapes.len() as u64);
    run.set("nesting_grid", json!({"a": a_list, "d": d_list, "wraps": WRAPS, "string_positions": POSITIONS, "entries": ENTRIES}));
    run.sample(json!({"part": "e-grid", "shape": shapes[shapes.len() / 2].to_json(), "encoded": esc(&encode(&shapes[shapes.len() / 2].ops()).unwrap_or_default())}));
    // every shape of the grid in one content stream, on a thread of its own
    if failed.load(Ordering::Relaxed) == 0 {
        for chunk in shapes.chunks(400) {
            run.eval(1);
            if let Some(m) = on_fresh("thread", || shapes_batch(chunk)) {
                run.fail(None, json!({"kind": "shapes", "part": "nesting_grid_batch", "shapes": chunk.iter().map(|s| s.to_json()).collect::<Vec<_>>()}), &m, EXPECTED_SHAPE);
            }
        }
    }
    // measured, on a thread of its own: the deepest nesting that round-trips, per wrap
    let measured = on_fresh("thread", || {
        let mut out = serde_json::Map::new();
        for wrap in WRAPS {
            let ok = |a: usize| roundtrip_via(&Shape { wrap, a, d: 0, pos: "inner", hex: false }.ops(), ENTRIES[0]).is_none();
            let first_bad = (0..=300).find(|&a| !ok(a));
            let later_ok: Vec<usize> = first_bad.map(|f| (f..=300).chain([1000]).filter(|&a| ok(a)).collect()).unwrap_or_default();
            out.insert(wrap.to_string(), json!({"deepest_round_tripping": first_bad.map(|f| f as i64 - 1), "deeper_levels_that_round_trip": later_ok}));
        }
        Value::Object(out)
    });
    run.eval(3 * 302);
    run.set("nesting_limit_measured_not_demanded_beyond_127", measured);
}

fn shapes_batch(shapes: &[Shape]) -> Option<String> {
    let all: Vec<Operation> = shapes.iter().flat_map(|s| s.ops()).collect();
    let bytes = match encode(&all) {
        Ok(b) => b,
        Err(e) => return Some(e),
    };
    match decode(&bytes) {
        Err(e) => Some(format!("{} shapes in one content stream ({} bytes): {}", shapes.len(), bytes.len(), e)),
        Ok(d) => cmp_ops(&all, &d).map(|(i, m)| format!("{} shapes in one content stream: shape {} ({}): {}", shapes.len(), i, shapes.get(i).map(|s| s.label()).unwrap_or_default(), vharness::run::truncate(&m, 300))),
    }
}

// ---------------------------------------------------------------------------------------------
// part f: history independence

/// One earlier use of the decoder. `kind` selects the generator, `wrap` the container kind,
/// `n` / `m` its sizes. Everything is rebuilt from these four values.
#[derive(Clone, Debug)]
struct Prelude {
    kind: &'static str,
    wrap: &'static str,
    n: usize,
    m: usize,
}

const PRELUDE_KINDS: [&str; 18] = [
    "wellformed", "nest", "open", "open_elem", "half_closed", "wrong_closer", "bad_token", "string_open", "string_open_in_array", "string_deep", "closers", "prefix",
    "inline_open", "inline_nest", "inline_data", "load_open", "load_nest", "long",
];

/// Small well-formed content streams (empty containers, every kind of success path).
const WELLFORMED: [&[u8]; 8] = [
    b"[] sc",
    b"<<>> sc",
    b"[[] <<>> [[]]] sc",
    b"<</K [] /L <<>>>> sc",
    b"() Tj <> Tj / gs",
    b"BI /W 1 /H 1 /CS /DeviceGray /BPC 8 /D [] /X <<>> ID x EI",
    b"[<</K [<</K []>>]>>] sc [(a(b)c)] TJ",
    b"% comment
1 2 3 sc % another
",
];

/// A content stream that uses every token kind; its prefixes are "content truncated at every offset".
const RICH: &[u8] = b"q [1 [2 <</K [3 (a(b\\)c) <AB>] /N /M>>] -1.5] TJ <</A <</B [/C (d)]>>>> DP BI /W 2 /H 1 /CS /G /BPC 8 /D [0 [1]] ID ab EI (t) ' Q";

fn opener(wrap: &str, level: usize) -> &'static [u8] {
    let is_array = match wrap {
        "array" => true,
        "dict" => false,
        _ => level % 2 == 0,
    };
    if is_array {
        b"["
    } else {
        b"<</K "
    }
}

fn closer(wrap: &str, level: usize) -> &'static [u8] {
    if opener(wrap, level) == b"[" {
        b"]"
    } else {
        b">>"
    }
}

fn openers(wrap: &str, n: usize) -> Vec<u8> {
    (0..n).flat_map(|l| opener(wrap, l).to_vec()).collect()
}

/// The closers of levels n-1 down to n-count.
fn closers(wrap: &str, n: usize, count: usize) -> Vec<u8> {
    (0..count).flat_map(|i| closer(wrap, n - 1 - i).to_vec()).collect()
}

fn pdf_with_object(body: &[u8]) -> Vec<u8> {
    let mut f = b"%PDF-1.4\n".to_vec();
    let o1 = f.len();
    f.extend_from_slice(b"1 0 obj\n<</Type /Catalog /Pages 2 0 R>>\nendobj\n");
    let o2 = f.len();
    f.extend_from_slice(b"2 0 obj\n<</Type /Pages /Kids [] /Count 0>>\nendobj\n");
    let o3 = f.len();
    f.extend_from_slice(b"3 0 obj\n");
    f.extend_from_slice(body);
    f.extend_from_slice(b"\nendobj\n");
    let x = f.len();
    f.extend_from_slice(format!("xref\n0 4\n0000000000 65535 f \n{:010} 00000 n \n{:010} 00000 n \n{:010} 00000 n \ntrailer\n<</Size 4 /Root 1 0 R>>\nstartxref\n{}\n%%EOF\n", o1, o2, o3, x).as_bytes());
    f
}

impl Prelude {
    fn to_json(&self) -> Value {
        json!({"kind": self.kind, "wrap": self.wrap, "n": self.n, "m": self.m})
    }
    fn from_json(v: &Value) -> Prelude {
        Prelude {
            kind: static_of(v["kind"].as_str().unwrap_or(""), &PRELUDE_KINDS),
            wrap: static_of(v["wrap"].as_str().unwrap_or(""), &WRAPS),
            n: v["n"].as_u64().unwrap_or(0) as usize,
            m: v["m"].as_u64().unwrap_or(0) as usize,
        }
    }
    /// The bytes handed to the decoder (content stream, or a PDF file for the load_* kinds).
    fn bytes(&self) -> Vec<u8> {
        let (w, n) = (self.wrap, self.n);
        let cat = |parts: &[&[u8]]| -> Vec<u8> { parts.concat() };
        match self.kind {
            "wellformed" => WELLFORMED[self.m % WELLFORMED.len()].to_vec(),
            // well-formed nest of n levels (over-deep when n > 127)
            "nest" => cat(&[&openers(w, n), b"1", &closers(w, n, n), b" sc"]),
            // ends right after the n-th opening delimiter
            "open" => openers(w, n),
            // ends inside a string inside the n-th level
            "open_elem" => cat(&[&openers(w, n), b"1 (a"]),
            // ends after m of the n closing delimiters
            "half_closed" => cat(&[&openers(w, n), b"1", &closers(w, n, self.m.min(n))]),
            // every level closed by the other kind's delimiter
            "wrong_closer" => {
                let wrong: Vec<u8> = (0..n).flat_map(|i| if closer(w, n - 1 - i) == b"]" { b">>".to_vec() } else { b"]".to_vec() }).collect();
                cat(&[&openers(w, n), b"1", &wrong, b" sc"])
            }
            // a stray ')' where an element should be
            "bad_token" => cat(&[&openers(w, n), b"1 ) ", &closers(w, n, n), b" sc"]),
            // literal string never closed, n parenthesis levels open
            "string_open" => cat(&[&vec![b'('; n], b"x"]),
            "string_open_in_array" => cat(&[b"[1 ", &vec![b'('; n], b"x"]),
            // n balanced raw parenthesis levels (the reader rejects more than 100)
            "string_deep" => cat(&[&vec![b'('; n], b"x", &vec![b')'; n], b" Tj"]),
            // closing delimiters without openers (m: 0 = ']', 1 = '>>', 2 = ')', 3 = mixed after one opener)
            "closers" => match self.m {
                0 => vec![b']'; n],
                1 => b">>".repeat(n),
                2 => vec![b')'; n],
                _ => cat(&[b"[ ", &b">> ] ".repeat(n), b"<< ", &b"] >> ".repeat(n), b"( ", &b") ".repeat(n)]),
            },
            // the first n bytes of the rich content stream
            "prefix" => RICH[..n.min(RICH.len())].to_vec(),
            // array never closed inside an inline image dictionary
            "inline_open" => cat(&[b"BI /W 1 /H 1 /CS /G /BPC 8 /D ", &openers(w, n), b" ID x EI"]),
            "inline_nest" => cat(&[b"BI /W 1 /H 1 /CS /G /BPC 8 /D ", &openers(w, n), b"1", &closers(w, n, n), b" ID x EI"]),
            // inline image data shorter than the dictionary says (n bytes of 243)
            "inline_data" => cat(&[b"BI /W 9 /H 9 /CS /RGB /BPC 8 ID ", &vec![b'a'; n]]),
            // a PDF file whose object 3 is a nest never closed / a well-formed nest of n levels
            "load_open" => pdf_with_object(&openers(w, n)),
            "load_nest" => pdf_with_object(&cat(&[&openers(w, n), b"1", &closers(w, n, n)])),
            // harmless but big: n operations with m operands each and a string of n bytes
            _ => {
                let mut ops = vec![op("Tj", vec![Object::String((0..n).map(|i| (i % 251) as u8).collect(), StringFormat::Literal)])];
                for i in 0..n.min(4000) {
                    ops.push(op("sc", (0..self.m).map(|k| Object::Array(vec![Object::Integer((i + k) as i64)])).collect()));
                }
                encode(&ops).unwrap_or_default()
            }
        }
    }
    fn run(&self, bytes: &[u8]) {
        if self.kind.starts_with("load_") {
            let _ = util::load(bytes);
        } else {
            let _ = decode(bytes);
        }
    }
}

fn prelude_menu(thorough: bool) -> Vec<Prelude> {
    let mut menu = vec![];
    let k = 130usize;
    let some: Vec<usize> = if thorough { (1..=k).collect() } else { vec![1, 2, 3, 5, 27, 64, 100, 126, 127, 128, 129, 130] };
    for wrap in WRAPS {
        for n in [1usize, 2, 126, 127, 128, 129, 200, 1000] {
            menu.push(Prelude { kind: "nest", wrap, n, m: 0 });
        }
        for n in 1..=k {
            menu.push(Prelude { kind: "open", wrap, n, m: 0 });
        }
        for &n in &some {
            menu.push(Prelude { kind: "open_elem", wrap, n, m: 0 });
            for m in [1usize, n / 2, n.saturating_sub(1)] {
                if m >= 1 && m < n && !menu.iter().any(|p: &Prelude| p.kind == "half_closed" && p.wrap == wrap && p.n == n && p.m == m) {
                    menu.push(Prelude { kind: "half_closed", wrap, n, m });
                }
            }
            menu.push(Prelude { kind: "wrong_closer", wrap, n, m: 0 });
            menu.push(Prelude { kind: "bad_token", wrap, n, m: 0 });
            menu.push(Prelude { kind: "inline_open", wrap, n, m: 0 });
        }
        for n in [2usize, 127, 129, 200] {
            menu.push(Prelude { kind: "inline_nest", wrap, n, m: 0 });
            menu.push(Prelude { kind: "load_open", wrap, n, m: 0 });
            menu.push(Prelude { kind: "load_nest", wrap, n, m: 0 });
        }
    }
    for n in 1..=102 {
        menu.push(Prelude { kind: "string_open", wrap: "array", n, m: 0 });
    }
    for n in [1usize, 2, 50, 99, 100, 101, 102] {
        menu.push(Prelude { kind: "string_open_in_array", wrap: "array", n, m: 0 });
    }
    for n in [100usize, 101, 102, 300] {
        menu.push(Prelude { kind: "string_deep", wrap: "array", n, m: 0 });
    }
    for m in 0..4 {
        for n in [1usize, 2, 130] {
            menu.push(Prelude { kind: "closers", wrap: "array", n, m });
        }
    }
    for n in 0..=RICH.len() {
        menu.push(Prelude { kind: "prefix", wrap: "array", n, m: 0 });
    }
    for n in [0usize, 1, 242] {
        menu.push(Prelude { kind: "inline_data", wrap: "array", n, m: 0 });
    }
    for m in 0..WELLFORMED.len() {
        menu.push(Prelude { kind: "wellformed", wrap: "array", n: 0, m });
    }
    menu.push(Prelude { kind: "long", wrap: "array", n: 70000, m: 1 });
    menu.push(Prelude { kind: "long", wrap: "array", n: 300, m: 40 });
    menu
}

/// What is decoded after the prelude: a shape (encoded on the spot) or raw bytes.
#[derive(Clone, Debug)]
enum Probe {
    Shape(Shape),
    Raw(Vec<u8>),
}

impl Probe {
    fn to_json(&self) -> Value {
        match self {
            Probe::Shape(s) => json!({"shape": s.to_json()}),
            Probe::Raw(b) => json!({"raw": hex(b)}),
        }
    }
    fn from_json(v: &Value) -> Probe {
        match v.get("shape") {
            Some(s) => Probe::Shape(Shape::from_json(s)),
            None => Probe::Raw(unhex(v["raw"].as_str().unwrap_or(""))),
        }
    }
    fn label(&self) -> String {
        match self {
            Probe::Shape(s) => s.label(),
            Probe::Raw(b) => format!("content `{}`", vharness::run::truncate(&esc(b), 80)),
        }
    }
    /// The observable result: the encoded bytes (shapes) and what decoding them returns.
    fn outcome(&self) -> String {
        let bytes = match self {
            Probe::Shape(s) => match encode(&s.ops()) {
                Ok(b) => b,
                Err(e) => return e,
            },
            Probe::Raw(b) => b.clone(),
        };
        let dec = match decode(&bytes) {
            Err(e) => format!("Err({})", e),
            Ok(ops) => format!(
                "Ok, {} operations: {}",
                ops.len(),
                ops.iter()
                    .map(|o| {
                        let mut s = show_op(o);
                        for a in &o.operands {
                            if let Object::Stream(st) = a {
                                s.push_str(&format!(" data={}", hex(&st.content)));
                            }
                        }
                        s
                    })
                    .collect::<Vec<_>>()
                    .join(" | ")
            ),
        };
        format!("encoded {} bytes #{:016x}; decode -> {}", bytes.len(), vharness::run::fnv(&bytes), dec)
    }
}

fn probe_list() -> Vec<Probe> {
    let sh = |wrap: &'static str, a: usize, d: usize, pos: &'static str| Probe::Shape(Shape { wrap, a, d, pos, hex: false });
    vec![
        Probe::Raw(b"[(a)] TJ".to_vec()),
        Probe::Raw(b"/T <</K (v)>> DP".to_vec()),
        sh("array", 1, 0, "inner"),
        sh("dict", 2, 1, "inner"),
        sh("array", 126, 0, "inner"),
        sh("array", 127, 0, "inner"),
        sh("dict", 127, 0, "inner"),
        sh("alt", 127, 0, "inner"),
        sh("array", 27, 100, "inner"),
        sh("array", 126, 1, "inner"),
        sh("alt", 60, 99, "after"),
        sh("array", 0, 100, "inner"),
        sh("array", 0, 101, "inner"),
        // just over the limit: rejected on a fresh thread, so rejected (the same way) always
        sh("array", 128, 0, "inner"),
        sh("dict", 129, 0, "inner"),
        Probe::Raw(b"BI /W 2 /H 1 /CS /G /BPC 8 /D [0 [1]] ID ab EI".to_vec()),
        Probe::Raw(b"q 1 0 0 1 5 5 cm (a(b)c) Tj [(x) -3 <41>] TJ Q".to_vec()),
        // partly decodable content: what is returned for it must not depend on history either
        Probe::Raw(b"q [1 [2".to_vec()),
        Probe::Raw(b"q ((a) Tj".to_vec()),
    ]
}

/// Probes that must round-trip on a fresh thread (nesting within the accepted limit).
fn probe_in_domain(p: &Probe) -> bool {
    matches!(p, Probe::Shape(s) if s.a <= NESTING_IN_DOMAIN)
}

fn run_history(prelude: Option<(&Prelude, usize)>, probes: &[Probe]) -> Vec<String> {
    if let Some((p, reps)) = prelude {
        let bytes = p.bytes();
        for _ in 0..reps {
            p.run(&bytes);
        }
    }
    probes.iter().map(|p| p.outcome()).collect()
}

const EXPECTED_HISTORY: &str = "Content::encode / Content::decode are functions of their argument: the result for an operand list is the same on a thread that has done nothing else and on a thread that earlier decoded (and rejected or cut short) other content";

fn history_case_json(place: &str, prelude: &Prelude, reps: usize, probes: &[Probe], index: usize) -> Value {
    json!({"kind": "history", "part": "history", "place": place, "prelude": prelude.to_json(), "reps": reps,
           "probes": probes[..=index].iter().map(|p| p.to_json()).collect::<Vec<_>>(), "probe_index": index,
           "prelude_bytes_shown": vharness::run::truncate(&esc(&prelude.bytes()), 200)})
}

/// First probe whose outcome after the prelude differs from its outcome on a fresh thread.
fn history_diff(fresh: &[String], got: &[String], probes: &[Probe]) -> Option<(usize, String)> {
    for (i, (f, g)) in fresh.iter().zip(got.iter()).enumerate() {
        if f != g {
            return Some((i, format!("probe {} ({}): after the prelude: {}; on a fresh thread: {}", i, probes[i].label(), vharness::run::truncate(g, 260), vharness::run::truncate(f, 260))));
        }
    }
    None
}

fn part_f(run: &Run) {
    let probes = probe_list();
    // reference outcomes: fresh plain thread, twice, and the fresh worker of a new rayon pool
    let fresh = on_fresh("thread", || run_history(None, &probes));
    let again = on_fresh("thread", || run_history(None, &probes));
    let fresh_rayon = on_fresh("rayon", || run_history(None, &probes));
    run.eval(3 * probes.len() as u64);
    for (label, other) in [("a second fresh thread", &again), ("a fresh rayon worker", &fresh_rayon)] {
        if let Some((i, _)) = history_diff(&fresh, other, &probes) {
            run.fail(
                None,
                json!({"kind": "history", "part": "history_fresh", "place": if label.contains("rayon") { "rayon" } else { "thread" }, "prelude": Value::Null, "reps": 0,
                       "probes": probes[..=i].iter().map(|p| p.to_json()).collect::<Vec<_>>(), "probe_index": i}),
                &format!("probe {} ({}): on {}: {}; on a fresh thread: {}", i, probes[i].label(), label, vharness::run::truncate(&other[i], 260), vharness::run::truncate(&fresh[i], 260)),
                EXPECTED_HISTORY,
            );
        }
    }
    // the in-domain probes round-trip on a fresh thread (else the comparison says nothing)
    for (i, p) in probes.iter().enumerate() {
        if let (true, Probe::Shape(s)) = (probe_in_domain(p), p) {
            let s2 = s.clone();
            run.eval(1);
            if let Some(m) = on_fresh("thread", move || roundtrip_via(&s2.ops(), ENTRIES[0])) {
                run.fail(None, json!({"kind": "shape", "part": "history_probe", "shape": s.to_json(), "entry": ENTRIES[0]}), &format!("probe {} ({}): {}", i, s.label(), m), EXPECTED_SHAPE);
            }
        }
    }
    let menu = prelude_menu(run.thorough);
    let reps_list = [1usize, 2, 40, 130];
    let mut cases: Vec<(usize, usize, &'static str)> = vec![];
    for pi in 0..menu.len() {
        for &reps in &reps_list {
            // the big harmless preludes once or twice only
            if menu[pi].kind == "long" && reps > 2 {
                continue;
            }
            for place in PLACES {
                // Document::load_mem parses objects on the workers of the current rayon pool: inside
                // the one-thread pool that is the thread the probes run on; from a plain thread it
                // would be the global pool, which the probes never see
                if menu[pi].kind.starts_with("load_") && place != "rayon" {
                    continue;
                }
                cases.push((pi, reps, place));
            }
        }
    }
    let decodes = AtomicU64::new(0);
    drive(cases.len(), |c| {
        let (pi, reps, place) = cases[c];
        let got = on_fresh(place, || run_history(Some((&menu[pi], reps)), &probes));
        decodes.fetch_add((reps + probes.len()) as u64, Ordering::Relaxed);
        if let Some((i, m)) = history_diff(&fresh, &got, &probes) {
            run.fail(
                None,
                history_case_json(place, &menu[pi], reps, &probes, i),
                &format!("after {} x decode of prelude {} {} n={} m={} (`{}`) on the same {}: {}", reps, menu[pi].kind, menu[pi].wrap, menu[pi].n, menu[pi].m, vharness::run::truncate(&esc(&menu[pi].bytes()), 60), if place == "rayon" { "rayon worker" } else { "thread" }, m),
                EXPECTED_HISTORY,
            );
        }
    });
    // two preludes in a row (order matters for a counter that is not restored): pairs over a small menu
    let small: Vec<usize> = (0..menu.len())
        .filter(|&i| {
            let p = &menu[i];
            (p.kind == "nest" && [127, 129].contains(&p.n)) || (p.kind == "open" && [1, 127, 128].contains(&p.n)) || (p.kind == "closers" && p.n == 2) || (p.kind == "string_open" && p.n == 100) || (p.kind == "inline_open" && p.n == 2 && p.wrap == "array")
        })
        .collect();
    let mut pairs = vec![];
    for &x in &small {
        for &y in &small {
            pairs.push((x, y));
        }
    }
    drive(pairs.len(), |c| {
        let (x, y) = pairs[c];
        let got = on_fresh("thread", || {
            let (bx, by) = (menu[x].bytes(), menu[y].bytes());
            menu[x].run(&bx);
            menu[y].run(&by);
            menu[x].run(&bx);
            run_history(None, &probes)
        });
        decodes.fetch_add(3 + probes.len() as u64, Ordering::Relaxed);
        if let Some((i, m)) = history_diff(&fresh, &got, &probes) {
            run.fail(
                None,
                json!({"kind": "history2", "part": "history_pairs", "first": menu[x].to_json(), "second": menu[y].to_json(),
                       "probes": probes[..=i].iter().map(|p| p.to_json()).collect::<Vec<_>>(), "probe_index": i}),
                &format!("after decoding prelude {:?}, {:?}, and the first again on the same thread: {}", menu[x].to_json().to_string(), menu[y].to_json().to_string(), m),
                EXPECTED_HISTORY,
            );
        }
    });
    run.eval(decodes.load(Ordering::Relaxed));
    run.nontrivial(cases.len() as u64 + pairs.len() as u64);
    run.add("history_preludes", menu.len() as u64);
    run.add("history_cases", cases.len() as u64);
    run.add("history_pair_cases", pairs.len() as u64);
    run.add("history_probes", probes.len() as u64);
    run.set("history", json!({"repetitions": reps_list, "places": PLACES, "prelude_kinds": PRELUDE_KINDS, "probes": probes.iter().map(|p| p.label()).collect::<Vec<_>>(),
                              "truncation_depths": "1..130 for arrays, dictionaries and alternating nests; 1..102 parenthesis levels; every prefix of a content stream with every token kind"}));
    let ex = &menu[menu.len() / 3];
    run.sample(json!({"part": "f-history", "prelude": ex.to_json(), "prelude_bytes": vharness::run::truncate(&esc(&ex.bytes()), 120), "then": probes[5].label()}));
}

// ---------------------------------------------------------------------------------------------
// part g: long operands, many operands, long operators, many operations

const LENGTHS: [usize; 21] = [63, 64, 65, 127, 128, 129, 255, 256, 257, 511, 512, 513, 1023, 1024, 1025, 4095, 4096, 4097, 65535, 65536, 65537];

/// One long case, rebuilt from (what, n, pattern).
#[derive(Clone, Debug)]
struct Long {
    what: &'static str,
    n: usize,
    pat: usize,
}

const LONG_KINDS: [&str; 9] = ["literal", "hexstring", "name", "array", "dict", "operands", "operator", "operations", "mixed_operands"];

impl Long {
    fn to_json(&self) -> Value {
        json!({"what": self.what, "n": self.n, "pat": self.pat})
    }
    fn from_json(v: &Value) -> Long {
        Long { what: static_of(v["what"].as_str().unwrap_or(""), &LONG_KINDS), n: v["n"].as_u64().unwrap_or(0) as usize, pat: v["pat"].as_u64().unwrap_or(0) as usize }
    }
    fn pattern(&self) -> Vec<u8> {
        let n = self.n;
        match self.pat {
            0 => vec![b'a'; n],
            1 => (0..n).map(|i| (i % 256) as u8).collect(),
            2 => (0..n).map(|i| b"a(b)c\\d\r\n"[i % 9]).collect(),
            3 => vec![b'('; n],
            4 => vec![b')'; n],
            // balanced, 100 levels deep, repeated
            _ => (0..n).map(|i| if (i / 100) % 2 == 0 { b'(' } else { b')' }).collect(),
        }
    }
    fn ops(&self) -> Vec<Operation> {
        let n = self.n;
        let kinds = operand_kinds();
        match self.what {
            "literal" => vec![op("Tj", vec![Object::String(self.pattern(), StringFormat::Literal)])],
            "hexstring" => vec![op("Tj", vec![Object::String(self.pattern(), StringFormat::Hexadecimal)])],
            "name" => vec![op("gs", vec![Object::Name(self.pattern())])],
            "array" => vec![op("TJ", vec![Object::Array((0..n).map(|i| kinds[i % kinds.len()].clone()).collect())])],
            "dict" => {
                let mut d = Dictionary::new();
                for i in 0..n {
                    d.set(format!("K{}", i).into_bytes(), kinds[i % kinds.len()].clone());
                }
                vec![op("DP", vec![Object::Name(b"T".to_vec()), Object::Dictionary(d)])]
            }
            "operands" => vec![op("scn", (0..n).map(|i| Object::Integer(i as i64 - 3)).collect())],
            "mixed_operands" => vec![op("scn", (0..n).map(|i| kinds[(i + self.pat) % kinds.len()].clone()).collect())],
            "operator" => {
                let alphabet = b"aZ*'\"Rx";
                let name: String = (0..n).map(|i| alphabet[(i + self.pat) % alphabet.len()] as char).collect();
                vec![op(&name, vec![Object::Integer(1)])]
            }
            _ => (0..n).map(|i| op(["q", "Tj", "re", "'"][i % 4], (0..i % 4).map(|k| kinds[(i + k) % kinds.len()].clone()).collect())).collect(),
        }
    }
}

fn part_g(run: &Run) {
    let mut cases: Vec<Long> = vec![];
    for &n in &LENGTHS {
        for pat in 0..6 {
            // the writer looks up every byte in its escape list: keep the all-delimiter patterns short
            if pat >= 2 && n > 4097 {
                continue;
            }
            cases.push(Long { what: "literal", n, pat });
        }
        for pat in 0..2 {
            cases.push(Long { what: "hexstring", n, pat });
            if n <= 4097 {
                cases.push(Long { what: "name", n, pat });
            }
        }
        if n <= 4097 {
            cases.push(Long { what: "array", n, pat: 0 });
            cases.push(Long { what: "dict", n, pat: 0 });
            cases.push(Long { what: "operands", n, pat: 0 });
            cases.push(Long { what: "mixed_operands", n, pat: 0 });
        }
        if n <= 1025 {
            cases.push(Long { what: "operator", n, pat: 0 });
        }
    }
    for n in 0..=48 {
        cases.push(Long { what: "operands", n, pat: 0 });
        for pat in 0..3 {
            cases.push(Long { what: "mixed_operands", n, pat });
        }
        if n >= 1 {
            for pat in 0..3 {
                cases.push(Long { what: "operator", n, pat });
            }
        }
    }
    for n in [1000usize, 10000, if run.thorough { 200000 } else { 20000 }] {
        cases.push(Long { what: "operations", n, pat: 0 });
    }
    // operator spellings that begin with a keyword are outside the domain (see part b)
    cases.retain(|c| c.what != "operator" || !keyword_prefixed(&c.ops()[0].operator));
    util::par_for(cases.len(), |i| {
        let c = &cases[i];
        run.eval(1);
        if let Some(m) = roundtrip(&c.ops()) {
            run.fail(None, json!({"kind": "long", "part": "long", "case": c.to_json()}), &format!("{} n={} pattern {}: {}", c.what, c.n, c.pat, vharness::run::truncate(&m, 500)), EXPECTED_OPS);
        }
    });
    run.nontrivial(cases.len() as u64);
    run.add("long_cases", cases.len() as u64);
    run.set("long_lengths", json!(LENGTHS));
    run.sample(json!({"part": "g-long", "case": cases[cases.len() / 2].to_json(), "kinds": LONG_KINDS}));
}

// ---------------------------------------------------------------------------------------------

fn main() {
    let run = Run::from_args("C14", "exploration");
    util::quiet_panics();
    util::init_pool();
    util::pin_schedule();
    if let Mode::Replay(path) = run.mode.clone() {
        replay(&run, &path);
    }
    run.rule(
        "units (one operation or one sequence of operations) are enumerated without repetition: all byte strings of length <=2 over \
         256 bytes and sharp k-tuples as literal string / hex string / name operands (top level, array element, dictionary key and \
         value); every operator of the domain x every tuple of 0..3 operand kinds; all operand trees with <=3 nodes; all sequences \
         over the operation menu up to the tier's length; listed and stratified reals; inline images = geometry x data pattern x \
         context; the nesting grid (a levels of arrays / dictionaries / alternating x a literal string with d balanced parenthesis levels, \
         inside, before or after the nest) through three decode entry points; long operands (strings, names, arrays, dictionaries, \
         operand lists, operators, operation lists at block-size lengths); history cases = prelude x repetitions x kind of thread, \
         each on a thread created for the case, compared with the outcomes on a thread that has done nothing else. Each unit is run alone and again inside a batch. A unit is non-trivial when it has an operand, a \
         non-alphanumeric operator byte, or >= 2 operations (two tokens adjacent); distinct by construction, counted once per unit",
    );
    run.assume("operands are direct objects other than Reference and Stream (not legal operands; the content parser has no rule for them); no NaN / infinite reals");
    run.assume("operators: spelled over the parser's documented alphabet (ASCII letters, '*', ''', '\"'), i.e. all ISO 32000 operators except d0 and d1; tokens beginning with null / true / false are excluded (lopdf's grammar reads the keyword as an operand and they correspond to no real operator); BI / ID / EI are inline-image syntax and occur only in part d");
    run.assume("inline images: unfiltered, colour-space names listed in image_data_stream (DeviceGray Gray DeviceRGB RGB DeviceRGBA RGBA DeviceCMYK CMYK), BPC in {1,2,4,8,16}, W 1..4, H 1..3, abbreviated or full keys, one white-space byte after ID and before EI");
    run.assume("arrays and dictionaries nested up to 127 levels are in the domain (found by experiment on the unchanged tree: lopdf's parser accepts 127 and rejects the 128th level, MAX_NESTING = 128; deeper operands are measured and recorded, not demanded); literal strings with any number of parenthesis levels are in the domain (the writer escapes the levels beyond the reader's MAX_BRACKET = 100)");
    run.assume("history independence: the preludes are arbitrary bytes handed to Content::decode (or Document::load_mem) whose result is ignored; only the later results for the fixed probe list are compared, with the results on a thread created for the purpose");
    // first: its cases run on threads of their own, so its replays reproduce whatever else leaks
    part_f(&run);
    part_a(&run);
    part_b(&run);
    part_c_trees(&run);
    part_c_sequences(&run);
    part_c_reals(&run);
    part_d(&run);
    part_e(&run);
    part_g(&run);
    // complete for the stated bounds; the data of long inline images is a pattern set, not all strings
    run.set("exhaustive_parts", json!({"byte_pairs": true, "sharp_tuples": true, "operators_x_operand_kinds": true, "trees_le3": true, "sequences": true, "inline_geometries": true, "inline_data_longer_than_bound": "pattern set",
                                       "nesting_grid": true, "history_menu_x_repetitions_x_places": true, "long_lengths": "listed lengths"}));
    run.exhaustive(true);
    run.finish();
}

fn replay(run: &Run, path: &std::path::Path) -> ! {
    let case: Value = vharness::run::read_replay(path);
    let res: Option<String> = match case["kind"].as_str() {
        Some("ops") => {
            let ops = ops_from_json(&case["ops"]);
            println!("operations: {}", ops.iter().map(show_op).collect::<Vec<_>>().join(" | "));
            if let Ok(b) = encode(&ops) {
                println!("encoded: {}", esc(&b));
            }
            let a = roundtrip(&ops);
            let b = roundtrip(&ops);
            if a != b {
                eprintln!("MACHINERY: replay not deterministic: {:?} vs {:?}", a, b);
                std::process::exit(3);
            }
            a
        }
        Some("inline") => {
            let bytes = unhex(case["bytes"].as_str().unwrap_or(""));
            let expect = ops_from_json(&case["expect"]);
            println!("bytes: {}", esc(&bytes));
            match check_image_bytes(&bytes, &expect) {
                Ok(()) => None,
                Err(ImgFail::FirstDecode(m)) => Some(m),
                Err(ImgFail::Reencode(_, m)) => Some(m),
            }
        }
        Some("ops_after") => {
            let before: Vec<Vec<Operation>> = case["before"].as_array().map(|a| a.iter().map(ops_from_json).collect()).unwrap_or_default();
            let ops = ops_from_json(&case["ops"]);
            println!("on a new thread: round trip of {} earlier units, then: {}", before.len(), ops.iter().map(show_op).collect::<Vec<_>>().join(" | "));
            on_fresh("thread", || {
                for b in &before {
                    let _ = roundtrip(b);
                }
                roundtrip(&ops)
            })
        }
        Some("shape") => {
            let sh = Shape::from_json(&case["shape"]);
            let entry = static_of(case["entry"].as_str().unwrap_or(""), &ENTRIES);
            println!("shape: {} via {}", sh.label(), entry);
            if let Ok(b) = encode(&sh.ops()) {
                println!("encoded: {}", esc(&b));
            }
            roundtrip_via(&sh.ops(), entry)
        }
        Some("shapes") => {
            let shapes: Vec<Shape> = case["shapes"].as_array().map(|a| a.iter().map(Shape::from_json).collect()).unwrap_or_default();
            on_fresh("thread", || shapes_batch(&shapes))
        }
        Some("long") => {
            let c = Long::from_json(&case["case"]);
            println!("long case: {} n={} pattern {}", c.what, c.n, c.pat);
            roundtrip(&c.ops()).map(|m| vharness::run::truncate(&m, 800))
        }
        Some("history") | Some("history2") => {
            let probes: Vec<Probe> = case["probes"].as_array().map(|a| a.iter().map(Probe::from_json).collect()).unwrap_or_default();
            let place = static_of(case["place"].as_str().unwrap_or(""), &PLACES);
            // reference: a thread that has done nothing else; then a new thread (of the recorded
            // kind) that first decodes the prelude(s)
            let fresh = on_fresh("thread", || run_history(None, &probes));
            let run_case = || {
                if case["kind"] == "history2" {
                    let (x, y) = (Prelude::from_json(&case["first"]), Prelude::from_json(&case["second"]));
                    on_fresh("thread", || {
                        let (bx, by) = (x.bytes(), y.bytes());
                        x.run(&bx);
                        y.run(&by);
                        x.run(&bx);
                        run_history(None, &probes)
                    })
                } else if case["prelude"].is_null() {
                    on_fresh(place, || run_history(None, &probes))
                } else {
                    let p = Prelude::from_json(&case["prelude"]);
                    let reps = case["reps"].as_u64().unwrap_or(1) as usize;
                    println!("prelude ({} x, on a new {}): {}", reps, place, vharness::run::truncate(&esc(&p.bytes()), 300));
                    on_fresh(place, || run_history(Some((&p, reps)), &probes))
                }
            };
            let a = run_case();
            let b = run_case();
            if a != b {
                eprintln!("MACHINERY: replay not deterministic");
                std::process::exit(3);
            }
            for (i, p) in probes.iter().enumerate() {
                println!("probe {}: {}", i, p.label());
            }
            history_diff(&fresh, &a, &probes).map(|x| x.1)
        }
        _ => {
            eprintln!("MACHINERY: unknown replay kind");
            std::process::exit(3);
        }
    };
    match &res {
        Some(m) => println!("observed: {}", m),
        None => println!("observed: round trip equal / same result as on a fresh thread"),
    }
    run.finish_replay(res.is_some())
}
