//! C19 - saving reports sink failures and ignores sink chunking (DESIGN §4 C19).
use lopdf::{Document, IncrementalDocument, Object, ObjectId};
use serde_json::{json, Value};
use std::collections::BTreeMap;
use vharness::sink::{FailKind, Script, ScriptSink};
use vharness::{cmp, docgen, strict, util, Mode, Run};

#[derive(Clone)]
enum Subject {
    Plain(Document),
    Inc(Box<IncrementalDocument>),
}

impl Subject {
    fn save<W: std::io::Write>(&mut self, w: &mut W) -> std::io::Result<()> {
        match self {
            Subject::Plain(d) => d.save_to(w),
            Subject::Inc(d) => d.save_to(w),
        }
    }
}

struct Config {
    label: String,
    subject: Subject,
    model: BTreeMap<ObjectId, Object>,
    trailer: lopdf::Dictionary,
    version: String,
    mark_required: bool,
    revisions: usize,
}

fn configs(n_docs: usize) -> Vec<Config> {
    let docs = docgen::start_docs();
    let mut out = vec![];
    for (i, d) in docs.iter().take(n_docs).enumerate() {
        for table in [true, false] {
            let mut doc = d.clone();
            util::set_xref(&mut doc, table);
            out.push(Config {
                label: format!("doc{} {} plain", i, if table { "table" } else { "stream" }),
                subject: Subject::Plain(doc.clone()),
                model: doc.objects.clone(),
                trailer: doc.trailer.clone(),
                version: doc.version.clone(),
                mark_required: true,
                revisions: 1,
            });
            // incremental: base saved healthily, then one revision replacing one object and adding one
            let base = util::save_bytes(&doc, table).expect("healthy base save");
            let loaded = util::load(&base).expect("healthy base load");
            let mut inc = IncrementalDocument::create_from(base, loaded);
            let mut model = doc.objects.clone();
            let first = *model.keys().next().unwrap();
            let repl = Object::Array(vec![Object::Integer(i as i64), Object::string_literal("replaced (x)\\")]);
            inc.new_document.set_object(first, repl.clone());
            model.insert(first, repl);
            let added = Object::Stream(lopdf::Stream::new(lopdf::Dictionary::new(), b"new\r\nstream".to_vec()));
            let id = inc.new_document.add_object(added.clone());
            model.insert(id, added);
            out.push(Config {
                label: format!("doc{} {} incremental", i, if table { "table" } else { "stream" }),
                subject: Subject::Inc(Box::new(inc)),
                model,
                trailer: doc.trailer.clone(),
                version: doc.version.clone(),
                mark_required: true,
                revisions: 2,
            });
        }
    }
    out
}

fn script_json(s: &Script) -> Value {
    json!({
        "chunks": s.chunks,
        "fail_at": s.fail_at.as_ref().map(|(p, k)| json!([p, match k { FailKind::Error => "error".to_string(), FailKind::Zero => "zero".to_string(), FailKind::Kind(i) => format!("kind{}", i) }])),
        "interrupt_calls": s.interrupt_calls,
        "fail_once": s.fail_once,
    })
}

fn script_from_json(v: &Value) -> Script {
    Script {
        chunks: v["chunks"].as_array().map(|a| a.iter().map(|x| x.as_u64().unwrap() as usize).collect()).unwrap_or_default(),
        fail_at: v["fail_at"].as_array().map(|a| {
            (a[0].as_u64().unwrap() as usize, match a[1].as_str() { Some("zero") => FailKind::Zero, Some(x) if x.starts_with("kind") => FailKind::Kind(x[4..].parse().unwrap_or(0)), _ => FailKind::Error })
        }),
        interrupt_calls: v["interrupt_calls"].as_array().map(|a| a.iter().map(|x| x.as_u64().unwrap() as usize).collect()).unwrap_or_default(),
        fail_once: v["fail_once"].as_bool().unwrap_or(false),
        fail_flush: false,
    }
}

/// Validate a healthy file: strict reader accepts it, lopdf loads it, content equals the model.
fn validate(bytes: &[u8], cfg: &Config) -> Result<(), String> {
    let opts = strict::Options { require_binary_mark: cfg.mark_required };
    let d = util::guard(|| strict::read(bytes, &opts)).map_err(|p| format!("strict reader bug: {}", p))??;
    if d.bytes_accounted != bytes.len() {
        return Err("strict reader did not account for every byte".into());
    }
    if d.revisions.len() != cfg.revisions {
        return Err(format!("expected {} revisions, found {}", cfg.revisions, d.revisions.len()));
    }
    if let Some(m) = cmp::diff_objects(&cfg.model, &d.objects) {
        return Err(format!("strict reader: {}", m));
    }
    if let Some(m) = cmp::diff_trailer(&cfg.trailer, &d.trailer) {
        return Err(format!("strict reader: {}", m));
    }
    let l = util::load(bytes)?;
    if let Some(m) = cmp::diff_trailer(&cfg.trailer, &l.trailer) {
        return Err(format!("lopdf loader: {}", m));
    }
    if l.version != cfg.version {
        return Err("version differs".into());
    }
    if let Some(m) = cmp::diff_objects(&cfg.model, &l.objects) {
        return Err(format!("lopdf loader: {}", m));
    }
    Ok(())
}

/// Run one script; Err(message) on a property violation.
fn run_script(cfg: &Config, healthy: &[u8], script: &Script) -> Result<(), String> {
    let mut subject = cfg.subject.clone();
    let mut sink = ScriptSink::new(script.clone());
    let res = util::guard(|| subject.save(&mut sink)).map_err(|p| format!("save panicked: {}", p))?;
    let must_fail = script.fail_at.as_ref().map(|(p, _)| *p < healthy.len()).unwrap_or(false);
    if sink.accepted.len() > healthy.len() || sink.accepted[..] != healthy[..sink.accepted.len()] {
        let k = sink.accepted.iter().zip(healthy.iter()).position(|(a, b)| a != b).unwrap_or(healthy.len().min(sink.accepted.len()));
        return Err(format!(
            "delivered bytes are not a prefix of the healthy output: first difference at offset {} (delivered {} bytes, healthy {})",
            k,
            sink.accepted.len(),
            healthy.len()
        ));
    }
    if must_fail {
        if res.is_ok() {
            return Err(format!(
                "sink failed after {} bytes but save returned Ok (sink reported {} failures)",
                sink.accepted.len(),
                sink.failures_reported
            ));
        }
        // a later save of the same (possibly touched) document to a healthy sink is valid
        let mut out = vec![];
        let r2 = util::guard(|| subject.save(&mut out)).map_err(|p| format!("second save panicked: {}", p))?;
        if let Err(e) = r2 {
            return Err(format!("save to a healthy sink after a failed save returned an error: {}", e));
        }
        validate(&out, cfg).map_err(|m| format!("file saved after a failed save is not valid: {}", m))?;
    } else {
        if let Err(e) = res {
            return Err(format!("save returned an error although the sink never failed: {}", e));
        }
        if sink.accepted != healthy {
            return Err(format!(
                "output under chunking/interruption differs from the healthy output ({} vs {} bytes)",
                sink.accepted.len(),
                healthy.len()
            ));
        }
    }
    Ok(())
}

fn main() {
    let run = Run::from_args("C19", "fault_enumeration");
    util::quiet_panics();
    util::init_pool();
    util::pin_schedule();
    let cfgs = configs(if run.thorough { 8 } else { 4 });
    if let Mode::Replay(path) = run.mode.clone() {
        let case = vharness::run::read_replay(&path);
        let all = configs(8);
        let cfg = all.iter().find(|c| Some(c.label.as_str()) == case["config"].as_str()).expect("config label");
        let mut s = cfg.subject.clone();
        let mut healthy = vec![];
        s.save(&mut healthy).unwrap();
        let r = if case["kind"].as_str() == Some("file") {
            file_cases().err()
        } else if case["kind"].as_str() == Some("path") {
            match path_save(cfg, case["existing"].as_u64().map(|k| k as usize)) {
                Err(e) => Some(e),
                Ok(Err(m)) => Some(m),
                Ok(Ok(b)) => (b != healthy).then(|| "file written by save(path) differs from the bytes save_to delivers".to_string()),
            }
        } else {
            run_script(cfg, &healthy, &script_from_json(&case["script"])).err()
        };
        match &r {
            Some(m) => println!("observed: {}", m),
            None => println!("observed: behaves as required"),
        }
        run.finish_replay(r.is_some());
    }
    run.rule(
        "for each (document x xref format x plain|incremental) configuration: every byte offset p of the healthy output as failure \
         point x {persistent hard error, persistent Ok(0), hard error that occurs once and then clears, each of 12 further io::ErrorKind values once-and-clearing (and persistent: a quarter of the offsets per kind in quick, all in thorough)}; every write-call index as a single Interrupted and as the start of a burst of k consecutive Interrupted results (k in {2, 17, 100}; ten lengths up to 1000 in thorough), 19 Interrupted results before every single-byte write; chunkings of 1..8 bytes per call and the cyclic \
         pattern 1,2,3; chunking x failure point combinations; save(path) of every configuration against the save_to bytes; non-trivial = failure strictly inside the output or a chunked/interrupted run; \
         scripts are distinct by construction",
    );
    run.assume("the fault-injecting sink in harness/src/sink.rs models a sink that accepts a prefix and then fails persistently; transient faults are single Interrupted results");
    let total_points = std::sync::atomic::AtomicU64::new(0);
    for cfg in &cfgs {
        let mut s = cfg.subject.clone();
        let mut healthy = vec![];
        if let Err(e) = s.save(&mut healthy) {
            eprintln!("MACHINERY: healthy save failed for {}: {}", cfg.label, e);
            std::process::exit(3);
        }
        if let Err(m) = validate(&healthy, cfg) {
            run.fail(None, json!({"config": cfg.label, "script": script_json(&Script::default())}), &m, "healthy output is valid");
            continue;
        }
        // the path-taking entry point writes the same bytes (a BufWriter over a File sits in between)
        run.eval(3);
        run.add("path_saves", 3);
        // (to a fresh path, over an existing shorter file and over an existing LONGER file)
        for existing in [None, Some(healthy.len() / 2), Some(healthy.len() + 1000)] {
        match path_save(cfg, existing) {
            Err(e) => {
                eprintln!("MACHINERY: {}", e);
                std::process::exit(3);
            }
            Ok(Err(m)) => run.fail(None, json!({"kind": "path", "config": cfg.label, "existing": existing}), &m, "save(path) returns Ok and the file holds exactly the bytes save_to delivers"),
            Ok(Ok(bytes)) => {
                if bytes != healthy {
                    let at = bytes.iter().zip(&healthy).position(|(a, b)| a != b).unwrap_or(bytes.len().min(healthy.len()));
                    run.fail(
                        None,
                        json!({"kind": "path", "config": cfg.label, "existing": existing}),
                        &format!("file written by save(path) over {} has {} bytes, save_to delivers {}; first difference at offset {}", match existing { None => "a fresh path".to_string(), Some(k) => format!("an existing file of {} bytes", k) }, bytes.len(), healthy.len(), at),
                        "save(path) returns Ok and the file holds exactly the bytes save_to delivers",
                    );
                }
            }
        }
        }
        // count write calls of a healthy run
        let mut probe = ScriptSink::new(Script::default());
        cfg.subject.clone().save(&mut probe).unwrap();
        let calls = probe.calls;
        let n = healthy.len();
        let mut scripts: Vec<Script> = vec![];
        for p in 0..n {
            for kind in [FailKind::Error, FailKind::Zero] {
                scripts.push(Script { fail_at: Some((p, kind)), ..Default::default() });
            }
        }
        for p in 0..n {
            // transient hard failure: the sink fails once at p and then accepts writes again
            scripts.push(Script { fail_at: Some((p, FailKind::Error)), fail_once: true, ..Default::default() });
        }
        // every io::ErrorKind of the menu at every offset, persistent and as a one-off (the sink recovers)
        for p in 0..n {
            for k in 0..vharness::sink::ERROR_KINDS.len() {
                scripts.push(Script { fail_at: Some((p, FailKind::Kind(k))), fail_once: true, ..Default::default() });
                if run.thorough || p % 4 == k % 4 {
                    scripts.push(Script { fail_at: Some((p, FailKind::Kind(k))), ..Default::default() });
                }
            }
        }
        let fail_scripts = scripts.len();
        for i in 0..calls {
            scripts.push(Script { interrupt_calls: vec![i], ..Default::default() });
        }
        // bursts: the sink answers Interrupted k times in a row before it accepts the write (still transient)
        let bursts: &[usize] = if run.thorough { &[2, 3, 15, 16, 17, 18, 33, 64, 100, 1000] } else { &[2, 17, 100] };
        for i in 0..calls {
            for k in bursts {
                scripts.push(Script { interrupt_calls: (i..i + k).collect(), ..Default::default() });
            }
        }
        // ... and before every write of a run chunked into single bytes
        scripts.push(Script { chunks: vec![1], interrupt_calls: (0..40 * n).filter(|c| c % 20 != 19).collect(), ..Default::default() });
        let mut chunkings: Vec<Vec<usize>> = (1..=8).map(|c| vec![c]).collect();
        chunkings.push(vec![1, 2, 3]);
        chunkings.push(vec![7, 1]);
        for c in &chunkings {
            scripts.push(Script { chunks: c.clone(), ..Default::default() });
        }
        // chunking x failure point (every offset for chunk sizes 1 and 3; all chunkings in thorough)
        let combo: Vec<&Vec<usize>> = if run.thorough { chunkings.iter().collect() } else { vec![&chunkings[0], &chunkings[2]] };
        for c in combo {
            for p in (0..n).step_by(if run.thorough { 1 } else { 3 }) {
                scripts.push(Script { chunks: c.clone(), fail_at: Some((p, FailKind::Error)), ..Default::default() });
            }
        }
        if run.thorough {
            // pairs of interrupted calls + interrupt under chunking
            for i in (0..calls).step_by(5) {
                for j in (i + 1..calls).step_by(7) {
                    scripts.push(Script { interrupt_calls: vec![i, j], ..Default::default() });
                }
            }
            for i in 0..calls.min(400) {
                scripts.push(Script { chunks: vec![2], interrupt_calls: vec![i, i + 1], ..Default::default() });
            }
        }
        total_points.fetch_add(n as u64, std::sync::atomic::Ordering::Relaxed);
        run.add("failure_points", fail_scripts as u64);
        run.add("interrupt_points", calls as u64);
        run.add("scripts", scripts.len() as u64);
        run.nontrivial(scripts.len() as u64 - 2);
        run.sample(json!({"config": cfg.label, "healthy_len": n, "write_calls": calls, "script": script_json(&scripts[scripts.len() / 2])}));
        util::par_for(scripts.len(), |i| {
            run.eval(1);
            if let Err(m) = run_script(cfg, &healthy, &scripts[i]) {
                // replay once more before reporting
                let again = run_script(cfg, &healthy, &scripts[i]);
                if again.as_ref().err() != Some(&m) {
                    eprintln!("MACHINERY: non-deterministic outcome for {} {:?}", cfg.label, scripts[i]);
                    std::process::exit(3);
                }
                run.fail(
                    None,
                    json!({"config": cfg.label, "script": script_json(&scripts[i])}),
                    &m,
                    "Err on sink failure, delivered bytes a prefix of the healthy output, identical bytes under chunking/Interrupted, later save valid",
                );
            }
        });
    }
    run.add("configs", cfgs.len() as u64);
    // file-based: errors that only surface at the final flush of the BufWriter
    run.eval(2);
    if let Err(m) = file_cases() {
        run.fail(None, json!({"kind": "file", "config": cfgs[0].label}), &m, "Document::save / IncrementalDocument::save to /dev/full return Err");
    }
    run.exhaustive(true);
    run.finish();
}

/// outer Err = machinery (scratch file); inner Err = the save failed or panicked
fn path_save(cfg: &Config, existing: Option<usize>) -> Result<Result<Vec<u8>, String>, String> {
    let p = util::scratch_path()?;
    if let Some(k) = existing {
        std::fs::write(&p, vec![b'#'; k]).map_err(|e| format!("scratch file: {}", e))?;
    }
    let mut s = cfg.subject.clone();
    let r = util::guard(|| match &mut s {
        Subject::Plain(d) => d.save(&p).map(|_| ()),
        Subject::Inc(d) => d.save(&p).map(|_| ()),
    });
    let out = match r {
        Ok(Ok(())) => Ok(std::fs::read(&p).map_err(|e| format!("reading back the scratch file: {}", e))?),
        Ok(Err(e)) => Err(format!("save(path) failed: {}", e)),
        Err(pn) => Err(format!("save(path) panicked: {}", pn)),
    };
    let _ = std::fs::remove_file(&p);
    Ok(out)
}

fn file_cases() -> Result<(), String> {
    if !std::path::Path::new("/dev/full").exists() {
        return Ok(());
    }
    let docs = docgen::start_docs();
    let mut d = docs[0].clone();
    match util::guard(|| d.save("/dev/full")) {
        Ok(Ok(_)) => return Err("Document::save(\"/dev/full\") returned Ok".into()),
        Ok(Err(_)) => {}
        Err(p) => return Err(format!("Document::save(\"/dev/full\") panicked: {}", p)),
    }
    let base = util::save_bytes(&docs[1], true)?;
    let loaded = util::load(&base)?;
    let mut inc = IncrementalDocument::create_from(base, loaded);
    inc.new_document.add_object(Object::Null);
    match util::guard(|| inc.save("/dev/full")) {
        Ok(Ok(_)) => Err("IncrementalDocument::save(\"/dev/full\") returned Ok".into()),
        Ok(Err(_)) => Ok(()),
        Err(p) => Err(format!("IncrementalDocument::save(\"/dev/full\") panicked: {}", p)),
    }
}
