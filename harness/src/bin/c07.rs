//! C07 - incremental updates: latest revision wins, history preserved (DESIGN §4 C07).
use lopdf::{Dictionary, Document, IncrementalDocument, Object, ObjectId, Stream};
use serde_json::{json, Value};
use std::collections::BTreeMap;
use vharness::choose::Chooser;
use vharness::refpdf::{self, FileSpec, Section, Style};
use vharness::{cmp, strict, util, Mode, Run};

fn name(s: &str) -> Object {
    Object::Name(s.as_bytes().to_vec())
}
fn dict(e: Vec<(&str, Object)>) -> Dictionary {
    let mut d = Dictionary::new();
    for (k, v) in e {
        d.set(k.as_bytes().to_vec(), v);
    }
    d
}

/// base documents: (objects, trailer, designated ids)
fn base(k: usize) -> (BTreeMap<ObjectId, Object>, Dictionary, Vec<ObjectId>) {
    let mut o = BTreeMap::new();
    let mut t = Dictionary::new();
    match k {
        0 => {
            for i in 1..=4u32 {
                o.insert((i, 0), Object::Dictionary(dict(vec![("Tag", Object::Integer(i as i64)), ("Rev", Object::Integer(0))])));
            }
            t.set("Root", Object::Reference((1, 0)));
            (o, t, vec![(1, 0), (2, 0), (4, 0)])
        }
        1 => {
            o.insert((1, 0), Object::Dictionary(dict(vec![("Type", name("Catalog")), ("Data", Object::Reference((2, 0)))])));
            o.insert((2, 0), Object::Stream(Stream::new(dict(vec![("Rev", Object::Integer(0))]), b"base stream\r\n".to_vec())));
            o.insert((3, 0), Object::Array(vec![Object::Integer(3), Object::string_literal("base")]));
            o.insert((5, 0), Object::Integer(5));
            t.set("Root", Object::Reference((1, 0)));
            t.set("Info", Object::Reference((3, 0)));
            (o, t, vec![(2, 0), (3, 0), (5, 0)])
        }
        _ => {
            o.insert((1, 0), Object::Dictionary(dict(vec![("Type", name("Catalog")), ("Pages", Object::Reference((2, 0)))])));
            o.insert(
                (2, 0),
                Object::Dictionary(dict(vec![("Type", name("Pages")), ("Kids", Object::Array(vec![Object::Reference((3, 0))])), ("Count", Object::Integer(1))])),
            );
            o.insert(
                (3, 0),
                Object::Dictionary(dict(vec![("Type", name("Page")), ("Parent", Object::Reference((2, 0))), ("Contents", Object::Reference((4, 0)))])),
            );
            o.insert((4, 0), Object::Stream(Stream::new(Dictionary::new(), b"BT (v0) Tj ET".to_vec())));
            t.set("Root", Object::Reference((1, 0)));
            (o, t, vec![(1, 0), (3, 0), (4, 0)])
        }
    }
}

/// A revision: which designated objects are replaced (bit mask), how many objects are added,
/// whether eligible objects are stored in an object stream (stream style only).
#[derive(Debug, Clone, Copy, PartialEq)]
struct Rev {
    mask: u8,
    add: u8,
    objstm: bool,
}

fn rev_menu(style: Style) -> Vec<Rev> {
    let mut v = vec![];
    for objstm in [false, true] {
        if objstm && style == Style::Table {
            continue;
        }
        for mask in 0..8u8 {
            for add in 0..3u8 {
                v.push(Rev { mask, add, objstm });
            }
        }
    }
    v
}

/// An object whose newest definition is `null` may be loaded as Null or not be present at all (an absent
/// object IS the null object, ISO 32000-1 7.3.10); anything else under that number is a stale definition.
fn diff_null_tolerant(expected: &BTreeMap<ObjectId, Object>, got: &BTreeMap<ObjectId, Object>) -> Option<String> {
    if expected.iter().any(|(id, o)| matches!(o, Object::Null) && !got.contains_key(id)) {
        let mut g = got.clone();
        for (id, o) in expected {
            if matches!(o, Object::Null) {
                g.entry(*id).or_insert(Object::Null);
            }
        }
        return cmp::diff_objects(expected, &g);
    }
    cmp::diff_objects(expected, got)
}

fn replacement(id: ObjectId, j: usize, was_stream: bool) -> Object {
    // an object may also be redefined as the null object (which is not the same as leaving the older definition)
    if !was_stream && (id.0 as usize + j) % 3 == 0 {
        return Object::Null;
    }
    let d = dict(vec![("Obj", Object::Integer(id.0 as i64)), ("Rev", Object::Integer(j as i64)), ("V", Object::string_literal(format!("r{}(", j)))]);
    if was_stream && j % 2 == 1 {
        Object::Stream(Stream::new(d, format!("stream of revision {}", j).into_bytes()))
    } else {
        Object::Dictionary(d)
    }
}

fn spec_of(bk: usize, style: Style, hist: &[Rev], container_base: bool) -> FileSpec {
    let (objects, trailer, designated) = base(bk);
    let mut next_new = objects.keys().map(|k| k.0).max().unwrap() + 1;
    let mut sections = vec![Section { objects: objects.clone(), trailer: trailer.clone(), objstm: Some(if container_base && style == Style::Stream { 1 } else { 0 }), omit_xref: vec![], extra_members: vec![] }];
    for (j, r) in hist.iter().enumerate() {
        let mut o = BTreeMap::new();
        for (b, id) in designated.iter().enumerate() {
            if r.mask & (1 << b) != 0 {
                o.insert(*id, replacement(*id, j + 1, matches!(objects[id], Object::Stream(_))));
            }
        }
        for _ in 0..r.add {
            o.insert((next_new, 0), Object::Dictionary(dict(vec![("New", Object::Integer(next_new as i64)), ("Rev", Object::Integer(j as i64 + 1))])));
            next_new += 1;
        }
        sections.push(Section { objects: o, trailer: trailer.clone(), objstm: Some(if r.objstm { 1 } else { 0 }), omit_xref: vec![], extra_members: vec![] });
    }
    FileSpec { version: "1.6".into(), mark: vec![0xe2, 0xe3, 0xcf, 0xd3], style, sections, helper_base: Some(500) }
}

fn hist_json(h: &[Rev]) -> Value {
    json!(h.iter().map(|r| json!([r.mask, r.add, r.objstm])).collect::<Vec<_>>())
}

/// Producer A: render the history with the reference writer and load the complete file.
fn check_a(bk: usize, style: Style, hist: &[Rev], container_base: bool, selfcheck: bool) -> Result<(), (bool, String)> {
    check_a_order(bk, style, hist, container_base, selfcheck, 0)
}

/// `member_order`: how object streams list their members (0 ascending, 1 descending, 2 rotated)
fn check_a_order(bk: usize, style: Style, hist: &[Rev], container_base: bool, selfcheck: bool, member_order: usize) -> Result<(), (bool, String)> {
    check_a_classes(bk, style, hist, container_base, selfcheck, member_order, None)
}

/// cross-reference spellings another producer may use in EVERY revision of a history (class-level deviations)
const XREF_CLASSES: [(&str, usize); 15] = [
    ("xs.w", 1), ("xs.w", 2), ("xs.w", 3), ("xs.w", 4), ("xs.w", 5), ("xs.index", 1), ("xs.index", 2), ("xs.filter", 1), ("xs.filter", 2),
    ("xref.sections", 1), ("xref.sections", 2), ("xref.sections", 3), ("xref.update_zero", 1), ("xref.entry_eol", 1), ("xref.entry_eol", 2),
];

fn check_a_classes(bk: usize, style: Style, hist: &[Rev], container_base: bool, selfcheck: bool, member_order: usize, extra: Option<usize>) -> Result<(), (bool, String)> {
    let spec = spec_of(bk, style, hist, container_base);
    let mut cl: Vec<(&str, usize)> = vec![];
    if member_order != 0 {
        cl.push(("os.member_order", member_order));
    }
    if let Some(x) = extra {
        cl.push(XREF_CLASSES[x]);
    }
    let mut ch = if cl.is_empty() { Chooser::new() } else { Chooser::with_classes(&cl) };
    let (bytes, lay) = refpdf::write(&spec, &mut ch);
    let expected = refpdf::expected_objects(&spec, &lay, spec.sections.len());
    if selfcheck {
        let d = util::guard(|| strict::read(&bytes, &strict::Options { require_binary_mark: true }))
            .map_err(|p| (true, format!("strict reader panicked: {}", p)))?
            .map_err(|e| (true, format!("strict reader rejects the reference history: {}", e)))?;
        let mut objs = d.objects.clone();
        cmp::normalise_lengths(&mut objs);
        if let Some(m) = cmp::diff_objects(&expected, &objs) {
            return Err((true, format!("strict reader recovers different objects: {}", m)));
        }
        if d.revisions.len() != spec.sections.len() {
            return Err((true, "strict reader sees a different number of revisions".into()));
        }
    }
    let loaded = util::load(&bytes);
    // the other public loaders (short reads, IncrementalDocument, path-taking functions, load_filtered
    // with a keep-all filter - a separate branch of the object-stream merge) must agree with load_mem
    match util::entry_point_agreement(&bytes, &loaded, true) {
        Ok(None) => {}
        Ok(Some(m)) => return Err((false, format!("entry points disagree: {}", m))),
        Err(e) => return Err((true, e)),
    }
    let doc = loaded.map_err(|e| (false, e))?;
    if let Some(m) = diff_null_tolerant(&expected, &doc.objects) {
        return Err((false, m));
    }
    if let Some(m) = cmp::diff_trailer(&spec.sections[0].trailer, &doc.trailer) {
        return Err((false, m));
    }
    Ok(())
}

/// Is the failure explained by the catalogued object-stream merge defect? Only if some object
/// number is stored in more than one object stream of the history, and the same history with
/// every revision stored plainly loads correctly.
fn classify_a(bk: usize, style: Style, hist: &[Rev], container_base: bool) -> Option<&'static str> {
    if style != Style::Stream {
        return None;
    }
    let spec = spec_of(bk, style, hist, container_base);
    let mut seen: BTreeMap<u32, usize> = BTreeMap::new();
    for s in &spec.sections {
        if s.objstm == Some(1) {
            for (id, o) in &s.objects {
                if id.1 == 0 && !matches!(o, Object::Stream(_)) {
                    *seen.entry(id.0).or_insert(0) += 1;
                }
            }
        }
    }
    if !seen.values().any(|c| *c > 1) {
        return None;
    }
    let plain: Vec<Rev> = hist.iter().map(|r| Rev { objstm: false, ..*r }).collect();
    if check_a(bk, style, &plain, false, false).is_ok() {
        Some("objstm-duplicate-merge")
    } else {
        None
    }
}

// ---------------------------------------------------------------------------------------------
// Producer B: the same edits replayed through IncrementalDocument

/// what follows the final %%EOF of the base file producer B starts from (index 0 = as lopdf writes it)
const TAILS: [&[u8]; 8] = [b"", b"\n", b"\r\n", b"\r", b"\n\n", b" \n", b"\n  ", b"\r\n\r\n"];

fn check_b(bk: usize, table: bool, hist: &[Rev]) -> Result<(), String> {
    check_b_tail(bk, table, hist, 0, 0)
}

/// `pad`: size of an additional stream object in the base file (offsets of the appended revisions then need
/// more digits / bytes: 2^24 and beyond)
fn check_b_tail(bk: usize, table: bool, hist: &[Rev], tail: usize, pad: usize) -> Result<(), String> {
    let (mut objects, trailer, designated) = base(bk);
    if pad > 0 {
        objects.insert((900, 0), Object::Stream(Stream::new(dict(vec![("Pad", Object::Integer(pad as i64))]), vec![b'p'; pad])));
    }
    let mut doc = Document::with_version("1.6");
    doc.objects = objects.clone();
    doc.trailer = trailer.clone();
    doc.max_id = objects.keys().map(|k| k.0).max().unwrap();
    let mut bytes = util::save_bytes(&doc, table)?;
    if tail != 0 {
        while bytes.ends_with(b"\n") || bytes.ends_with(b"\r") || bytes.ends_with(b" ") {
            bytes.pop();
        }
        bytes.extend_from_slice(TAILS[tail]);
    }
    let mut model = objects.clone();
    for (j, r) in hist.iter().enumerate() {
        let mut inc: IncrementalDocument = match util::guard(|| IncrementalDocument::load_from(bytes.as_slice())) {
            Ok(Ok(i)) => i,
            Ok(Err(e)) => return Err(format!("step {}: IncrementalDocument::load_from: {}", j, e)),
            Err(p) => return Err(p),
        };
        if let Some(m) = diff_null_tolerant(&model, &inc.get_prev_documents().objects) {
            return Err(format!("step {}: previous-revisions view differs from the model: {}", j, m));
        }
        let prev_digest = cmp::digest_doc(inc.get_prev_documents());
        let prev_startxref = inc.get_prev_documents().xref_start;
        let mut changed: Vec<u32> = vec![];
        for (b, id) in designated.iter().enumerate() {
            if r.mask & (1 << b) != 0 {
                // (an object whose newest definition is null may legitimately be absent from the loaded view)
                if !(matches!(model.get(id), Some(Object::Null)) && !inc.get_prev_documents().objects.contains_key(id)) {
                    inc.opt_clone_object_to_new_document(*id).map_err(|e| format!("step {}: clone {:?}: {}", j, id, e))?;
                }
                let newv = replacement(*id, j + 1, matches!(objects[id], Object::Stream(_)));
                inc.new_document.set_object(*id, newv.clone());
                model.insert(*id, newv);
                changed.push(id.0);
            }
        }
        for _ in 0..r.add {
            let o = Object::Dictionary(dict(vec![("NewRev", Object::Integer(j as i64 + 1))]));
            let id = inc.new_document.add_object(o.clone());
            if model.contains_key(&id) {
                return Err(format!("step {}: add_object returned id {:?} which already exists in the file", j, id));
            }
            model.insert(id, o);
            changed.push(id.0);
        }
        let mut out = vec![];
        match util::guard(|| inc.save_to(&mut out)) {
            Ok(Ok(())) => {}
            Ok(Err(e)) => return Err(format!("step {}: save error {}", j, e)),
            Err(p) => return Err(p),
        }
        // (1) previous bytes are an unchanged prefix
        if out.len() < bytes.len() || out[..bytes.len()] != bytes[..] {
            return Err(format!("step {}: saved file does not start with the previously loaded bytes", j));
        }
        // (3) the view of the previous revisions is unmodified
        if cmp::digest_doc(inc.get_prev_documents()) != prev_digest {
            return Err(format!("step {}: get_prev_documents() changed during save", j));
        }
        // (2) appended part: only new/replaced objects, one section pointing back
        let d = util::guard(|| strict::read(&out, &strict::Options { require_binary_mark: true }))
            .map_err(|p| format!("strict reader panicked: {}", p))?
            .map_err(|e| format!("step {}: strict reader rejects the incremental file: {}", j, e))?;
        if d.revisions.len() != j + 2 {
            return Err(format!("step {}: expected {} revisions, strict reader sees {}", j, j + 2, d.revisions.len()));
        }
        let newest = &d.revisions[0];
        match newest.trailer.get(b"Prev") {
            Ok(Object::Integer(p)) if *p as usize == prev_startxref && *p as usize == d.revisions[1].xref_offset => {}
            other => return Err(format!("step {}: Prev {:?} is not the previous startxref {}", j, other.ok(), prev_startxref)),
        }
        let mut listed: Vec<u32> = newest
            .entries
            .iter()
            .filter(|(n, e)| **n != 0 && !matches!(e, strict::Entry::Free { .. }) && Some(**n) != newest.xref_stream_id.map(|x| x.0))
            .map(|(n, _)| *n)
            .collect();
        listed.sort();
        changed.sort();
        if listed != changed {
            return Err(format!("step {}: appended section lists objects {:?}, edits touched {:?}", j, listed, changed));
        }
        for (off, _end) in d.object_extents.iter() {
            let is_new = newest.entries.values().any(|e| matches!(e, strict::Entry::InUse { offset, .. } if offset == off));
            if *off >= bytes.len() && !is_new {
                return Err(format!("step {}: object at offset {} in the appended part is not listed by the new section", j, off));
            }
        }
        // (4) reload yields the model
        let l = util::load(&out)?;
        if let Some(m) = diff_null_tolerant(&model, &l.objects) {
            return Err(format!("step {}: reload differs from the model: {}", j, m));
        }
        if let Some(m) = cmp::diff_trailer(&trailer, &l.trailer) {
            return Err(format!("step {}: {}", j, m));
        }
        // (5) the result is the input of the next step
        bytes = out;
    }
    Ok(())
}

// ---------------------------------------------------------------------------------------------
// Producer L: a base file laid out like a linearized PDF - its newest cross-reference section sits
// at the FRONT of the file (before the objects it lists) and chains through Prev to the main
// section at the end - followed by ordinary appended revisions.

fn table_section(entries: &BTreeMap<u32, (usize, u16)>, with_zero: bool) -> Vec<u8> {
    // maximal runs of consecutive numbers, 20-byte entries
    let mut nums: Vec<u32> = entries.keys().cloned().collect();
    if with_zero {
        nums.insert(0, 0);
    }
    let mut out = b"xref\n".to_vec();
    let mut i = 0;
    while i < nums.len() {
        let mut j = i;
        while j + 1 < nums.len() && nums[j + 1] == nums[j] + 1 {
            j += 1;
        }
        out.extend_from_slice(format!("{} {}\n", nums[i], j - i + 1).as_bytes());
        for n in &nums[i..=j] {
            if *n == 0 && with_zero {
                out.extend_from_slice(b"0000000000 65535 f \n");
            } else {
                let (off, gen) = entries[n];
                out.extend_from_slice(format!("{:010} {:05} n \n", off, gen).as_bytes());
            }
        }
        i = j + 1;
    }
    out
}

/// Returns (bytes, expected objects). Group A = the designated objects (listed by the front
/// section), group B = everything else (listed by the main section at the end).
fn linearized_history(bk: usize, hist: &[Rev]) -> (Vec<u8>, BTreeMap<ObjectId, Object>) {
    let (objects, trailer, designated) = base(bk);
    let mut model = objects.clone();
    let size = objects.keys().map(|k| k.0).max().unwrap() + 1;
    let a: Vec<ObjectId> = designated.clone();
    let b: Vec<ObjectId> = objects.keys().filter(|k| !a.contains(k)).cloned().collect();
    let mut f = b"%PDF-1.6\n%\xe2\xe3\xcf\xd3\n".to_vec();
    let front_off = f.len();
    // pass 1: sizes with placeholder offsets
    let mut a_entries: BTreeMap<u32, (usize, u16)> = a.iter().map(|id| (id.0, (0usize, id.1))).collect();
    let mut t1 = trailer.clone();
    t1.set("Size", Object::Integer(size as i64));
    let front_len = |a_entries: &BTreeMap<u32, (usize, u16)>, prev: usize| -> Vec<u8> {
        let mut v = table_section(a_entries, false);
        v.extend_from_slice(b"trailer\n");
        v.extend_from_slice(&refpdf::dict_bytes(&t1));
        // fixed-width Prev so that the layout does not depend on its value
        let text = String::from_utf8(v).unwrap().replacen(">>", &format!("/Prev {:010}>>", prev), 1);
        let mut v = text.into_bytes();
        v.extend_from_slice(b"\n");
        v
    };
    let mut pos = front_off + front_len(&a_entries, 0).len();
    let mut a_bytes = vec![];
    for id in &a {
        a_entries.insert(id.0, (pos + a_bytes.len(), id.1));
        a_bytes.extend_from_slice(&refpdf::indirect_bytes(*id, &objects[id]));
    }
    pos += a_bytes.len();
    let mut b_entries: BTreeMap<u32, (usize, u16)> = BTreeMap::new();
    let mut b_bytes = vec![];
    for id in &b {
        b_entries.insert(id.0, (pos + b_bytes.len(), id.1));
        b_bytes.extend_from_slice(&refpdf::indirect_bytes(*id, &objects[id]));
    }
    let main_off = pos + b_bytes.len();
    f.extend_from_slice(&front_len(&a_entries, main_off));
    f.extend_from_slice(&a_bytes);
    f.extend_from_slice(&b_bytes);
    assert_eq!(f.len(), main_off);
    f.extend_from_slice(&table_section(&b_entries, true));
    let mut t2 = Dictionary::new();
    t2.set("Size", Object::Integer(size as i64));
    f.extend_from_slice(b"trailer\n");
    f.extend_from_slice(&refpdf::dict_bytes(&t2));
    f.extend_from_slice(format!("\nstartxref\n{}\n%%EOF\n", front_off).as_bytes());
    // appended revisions
    let mut prev = front_off;
    let mut next_new = size;
    for (j, r) in hist.iter().enumerate() {
        let mut entries: BTreeMap<u32, (usize, u16)> = BTreeMap::new();
        for (bit, id) in designated.iter().enumerate() {
            if r.mask & (1 << bit) != 0 {
                let o = replacement(*id, j + 1, matches!(objects[id], Object::Stream(_)));
                entries.insert(id.0, (f.len(), id.1));
                f.extend_from_slice(&refpdf::indirect_bytes(*id, &o));
                model.insert(*id, o);
            }
        }
        for _ in 0..r.add {
            let id = (next_new, 0);
            next_new += 1;
            let o = Object::Dictionary(dict(vec![("New", Object::Integer(id.0 as i64)), ("Rev", Object::Integer(j as i64 + 1))]));
            entries.insert(id.0, (f.len(), 0));
            f.extend_from_slice(&refpdf::indirect_bytes(id, &o));
            model.insert(id, o);
        }
        let x = f.len();
        f.extend_from_slice(&table_section(&entries, entries.is_empty()));
        let mut t = trailer.clone();
        t.set("Size", Object::Integer(next_new as i64));
        t.set("Prev", Object::Integer(prev as i64));
        f.extend_from_slice(b"trailer\n");
        f.extend_from_slice(&refpdf::dict_bytes(&t));
        f.extend_from_slice(format!("\nstartxref\n{}\n%%EOF\n", x).as_bytes());
        prev = x;
    }
    (f, model)
}

/// Producer H: a HYBRID-REFERENCE base file (ISO 32000-1 7.5.8.4) - a classic table whose trailer names,
/// with XRefStm, a cross-reference stream holding the type-2 entries of objects kept in an object stream -
/// followed by ordinary Prev-chained table revisions. The compressed objects are never touched by the
/// revisions: they must keep coming from the base.
fn hybrid_history(bk: usize, hist: &[Rev]) -> (Vec<u8>, BTreeMap<ObjectId, Object>) {
    let (mut objects, trailer, designated) = base(bk);
    objects.insert((20, 0), Object::Dictionary(dict(vec![("Kind", name("Compressed")), ("N", Object::Integer(20)), ("Items", Object::Array(vec![Object::Integer(1), Object::Integer(2)]))])));
    objects.insert((21, 0), Object::string_literal("compressed twenty-one"));
    let mut model = objects.clone();
    let compressed: Vec<ObjectId> = objects.iter().filter(|(id, o)| !designated.contains(id) && id.1 == 0 && !matches!(o, Object::Stream(_))).map(|(id, _)| *id).collect();
    let cont_id = 30u32;
    let xs_id = 31u32;
    let size = 32u32;
    let mut f = b"%PDF-1.6\n%\xe2\xe3\xcf\xd3\n".to_vec();
    let mut entries: BTreeMap<u32, (usize, u16)> = BTreeMap::new();
    for (id, o) in &objects {
        if !compressed.contains(id) {
            entries.insert(id.0, (f.len(), id.1));
            f.extend_from_slice(&refpdf::indirect_bytes(*id, o));
        }
    }
    // object stream
    let mut index = String::new();
    let mut body: Vec<u8> = vec![];
    for id in &compressed {
        index.push_str(&format!("{} {} ", id.0, body.len()));
        let ind = refpdf::indirect_bytes(*id, &objects[id]);
        // indirect_bytes gives "n g obj\n<object>\nendobj\n": keep the object only
        let text = &ind[format!("{} {} obj\n", id.0, id.1).len()..ind.len() - b"\nendobj\n".len()];
        body.extend_from_slice(text);
        body.push(b'\n');
    }
    let mut data = index.clone().into_bytes();
    data.extend_from_slice(&body);
    entries.insert(cont_id, (f.len(), 0));
    f.extend_from_slice(format!("{} 0 obj\n<</Type /ObjStm/N {}/First {}/Length {}>>\nstream\n", cont_id, compressed.len(), index.len(), data.len()).as_bytes());
    f.extend_from_slice(&data);
    f.extend_from_slice(b"\nendstream\nendobj\n");
    // cross-reference stream for the compressed objects only
    let mut rows: Vec<u8> = vec![];
    let mut idx = String::new();
    for (i, id) in compressed.iter().enumerate() {
        rows.push(2);
        rows.extend_from_slice(&cont_id.to_be_bytes());
        rows.extend_from_slice(&(i as u16).to_be_bytes());
        idx.push_str(&format!("{} 1 ", id.0));
    }
    let xs_off = f.len();
    entries.insert(xs_id, (xs_off, 0));
    f.extend_from_slice(format!("{} 0 obj\n<</Type /XRef/Size {}/W [1 4 2]/Index [{}]/Length {}>>\nstream\n", xs_id, size, idx.trim_end(), rows.len()).as_bytes());
    f.extend_from_slice(&rows);
    f.extend_from_slice(b"\nendstream\nendobj\n");
    let base_x = f.len();
    f.extend_from_slice(&table_section(&entries, true));
    let mut t = trailer.clone();
    t.set("Size", Object::Integer(size as i64));
    t.set("XRefStm", Object::Integer(xs_off as i64));
    f.extend_from_slice(b"trailer\n");
    f.extend_from_slice(&refpdf::dict_bytes(&t));
    f.extend_from_slice(format!("\nstartxref\n{}\n%%EOF\n", base_x).as_bytes());
    // appended revisions (classic tables)
    let mut prev = base_x;
    let mut next_new = size;
    for (j, r) in hist.iter().enumerate() {
        let mut entries: BTreeMap<u32, (usize, u16)> = BTreeMap::new();
        for (bit, id) in designated.iter().enumerate() {
            if r.mask & (1 << bit) != 0 {
                let o = replacement(*id, j + 1, matches!(objects[id], Object::Stream(_)));
                entries.insert(id.0, (f.len(), id.1));
                f.extend_from_slice(&refpdf::indirect_bytes(*id, &o));
                model.insert(*id, o);
            }
        }
        for _ in 0..r.add {
            let id = (next_new, 0);
            next_new += 1;
            let o = Object::Dictionary(dict(vec![("New", Object::Integer(id.0 as i64)), ("Rev", Object::Integer(j as i64 + 1))]));
            entries.insert(id.0, (f.len(), 0));
            f.extend_from_slice(&refpdf::indirect_bytes(id, &o));
            model.insert(id, o);
        }
        let x = f.len();
        f.extend_from_slice(&table_section(&entries, entries.is_empty()));
        let mut t = trailer.clone();
        t.set("Size", Object::Integer(next_new as i64));
        t.set("Prev", Object::Integer(prev as i64));
        f.extend_from_slice(b"trailer\n");
        f.extend_from_slice(&refpdf::dict_bytes(&t));
        f.extend_from_slice(format!("\nstartxref\n{}\n%%EOF\n", x).as_bytes());
        prev = x;
    }
    (f, model)
}

fn check_h(bk: usize, hist: &[Rev]) -> Result<(), (bool, String)> {
    let (bytes, model) = hybrid_history(bk, hist);
    let loaded = util::load(&bytes);
    match util::entry_point_agreement(&bytes, &loaded, true) {
        Ok(None) => {}
        Ok(Some(m)) => return Err((false, format!("entry points disagree: {}", m))),
        Err(e) => return Err((true, e)),
    }
    let doc = loaded.map_err(|e| (false, e))?;
    if let Some(m) = diff_null_tolerant(&model, &doc.objects) {
        return Err((false, m));
    }
    let (_, trailer, _) = base(bk);
    if let Some(m) = cmp::diff_trailer(&trailer, &doc.trailer) {
        return Err((false, m));
    }
    Ok(())
}

fn check_l(bk: usize, hist: &[Rev]) -> Result<(), (bool, String)> {
    let (bytes, model) = linearized_history(bk, hist);
    // self-check: the strict reader follows the same chain (its Prev rule "points before the current
    // section" does not hold for the front section, so only the object recovery is compared)
    let loaded = util::load(&bytes);
    match util::entry_point_agreement(&bytes, &loaded, true) {
        Ok(None) => {}
        Ok(Some(m)) => return Err((false, format!("entry points disagree: {}", m))),
        Err(e) => return Err((true, e)),
    }
    let doc = loaded.map_err(|e| (false, e))?;
    if let Some(m) = diff_null_tolerant(&model, &doc.objects) {
        return Err((false, m));
    }
    let (_, trailer, _) = base(bk);
    if let Some(m) = cmp::diff_trailer(&trailer, &doc.trailer) {
        return Err((false, m));
    }
    Ok(())
}

fn enumerate(menu: &[Rev], k: usize) -> Vec<Vec<Rev>> {
    let mut out: Vec<Vec<Rev>> = vec![vec![]];
    let mut level: Vec<Vec<Rev>> = vec![vec![]];
    for _ in 0..k {
        let mut next = vec![];
        for h in &level {
            for r in menu {
                let mut h2 = h.clone();
                h2.push(*r);
                next.push(h2);
            }
        }
        out.extend(next.iter().cloned());
        level = next;
    }
    out
}

fn main() {
    let run = Run::from_args("C07", "model_checking");
    util::quiet_panics();
    util::init_pool();
    util::pin_schedule();
    if let Mode::Replay(path) = run.mode.clone() {
        let c = vharness::run::read_replay(&path);
        let hist: Vec<Rev> = c["history"]
            .as_array()
            .unwrap()
            .iter()
            .map(|r| Rev { mask: r[0].as_u64().unwrap() as u8, add: r[1].as_u64().unwrap() as u8, objstm: r[2].as_bool().unwrap() })
            .collect();
        let bk = c["base"].as_u64().unwrap() as usize;
        let table = c["style"].as_str() == Some("table");
        let res = if c["producer"].as_str() == Some("H") {
            check_h(bk, &hist).err().map(|e| e.1)
        } else if c["producer"].as_str() == Some("L") {
            check_l(bk, &hist).err().map(|e| e.1)
        } else if c["producer"].as_str() == Some("A") {
            check_a_classes(bk, if table { Style::Table } else { Style::Stream }, &hist, c["container_base"].as_bool().unwrap_or(false), true, c["member_order"].as_u64().unwrap_or(0) as usize, c["xref_class"].as_u64().map(|x| x as usize)).err().map(|e| e.1)
        } else {
            check_b_tail(bk, table, &hist, c["tail"].as_u64().unwrap_or(0) as usize, c["pad"].as_u64().unwrap_or(0) as usize).err()
        };
        match &res {
            Some(m) => println!("observed: {}", m),
            None => println!("observed: latest revision wins, history preserved"),
        }
        run.finish_replay(res.is_some());
    }
    run.rule(
        "all histories of <= k revisions (k=2 quick, 3 thorough) over 3 base documents x revision menu {8 subsets of 3 designated objects to \
         replace} x {0,1,2 added objects} x {plain, object stream} (stream files) x {xref table, xref stream}; producer A = reference writer \
         (every history prefix is itself a node of the tree and is loaded as a complete file; histories of <= 1 revision and every 8th longer one also with each of 15 cross-reference spelling classes - W widths incl. an absent type field, Index forms, filters, subsection forms - switched for all revisions; a replacement may be the null object), producer H = hand-written hybrid-reference base (classic table + XRefStm + object stream) followed by the same table revisions, producer L = linearized-like base, producer B = IncrementalDocument replay with reload \
         after every step, also on base files with 7 kinds of white space after the final %%EOF and with 127..130 (to 300 in thorough) appended revisions, and on base files of 70 KB and ~16 MiB (offsets beyond 2^16 and 2^24); a state is a history prefix, a transition appends one revision; non-trivial = at least one object redefined",
    );
    run.assume("no revision frees an object; hybrid-reference files only in the form of producer H (a hybrid BASE whose compressed objects are never redefined); the schedule is pinned (merge-order hook in Sorted mode), schedule independence is C08's subject");
    let k = if run.thorough { 3 } else { 2 };
    for bk in 0..3usize {
        for style in [Style::Table, Style::Stream] {
            let menu = rev_menu(style);
            let hs = enumerate(&menu, k);
            for container_base in [false, true] {
                if container_base && style == Style::Table {
                    continue;
                }
                run.add_states(hs.len() as u64);
                run.add_transitions(hs.len() as u64 - 1);
                util::par_for(hs.len(), |i| {
                    let h = &hs[i];
                    run.eval(1);
                    if h.iter().any(|r| r.mask != 0) {
                        run.nontrivial(1);
                    }
                    // histories that use object streams are also rendered with the members of every
                    // object stream listed in descending / rotated order
                    let orders: &[usize] = if style == Style::Stream && (container_base || h.iter().any(|r| r.objstm)) { &[0, 1, 2] } else { &[0] };
                    let mut outcome = Ok(());
                    let mut failing_order = 0;
                    for mo in orders {
                        if *mo > 0 {
                            run.eval(1);
                        }
                        outcome = check_a_order(bk, style, h, container_base, i % 16 == 0 || h.len() < 2, *mo);
                        if outcome.is_err() {
                            failing_order = *mo;
                            break;
                        }
                    }
                    // the same history with every cross-reference spelling class switched for all revisions
                    // (all histories of <= 1 revision, every 8th longer one; all of depth <= 2 in thorough)
                    let mut failing_class: Option<usize> = None;
                    if outcome.is_ok() && (h.len() <= 1 || i % 8 == 0 || (run.thorough && h.len() <= 2)) {
                        for x in 0..XREF_CLASSES.len() {
                            let applies = (style == Style::Stream) == XREF_CLASSES[x].0.starts_with("xs.");
                            if !applies {
                                continue;
                            }
                            run.eval(1);
                            outcome = check_a_classes(bk, style, h, container_base, true, 0, Some(x));
                            if outcome.is_err() {
                                failing_class = Some(x);
                                break;
                            }
                        }
                    }
                    match outcome {
                        Ok(()) => run.add_traces(1),
                        Err((true, m)) => {
                            eprintln!("MACHINERY: reference history self-check failed (base {} {:?} {:?}): {}", bk, style, h, m);
                            std::process::exit(3);
                        }
                        Err((false, m)) => {
                            let f = classify_a(bk, style, h, container_base);
                            run.fail(
                                f,
                                json!({"producer": "A", "base": bk, "style": if style == Style::Table {"table"} else {"stream"}, "container_base": container_base, "member_order": failing_order, "xref_class": failing_class, "history": hist_json(h)}),
                                &m,
                                "each object number resolves to the most recent revision that defines it",
                            );
                        }
                    }
                });
            }
            // producer L: linearized-like base (front section chaining to the main one) + appended revisions
            if style == Style::Table {
                let hl = enumerate(&menu, k);
                run.add_states(hl.len() as u64);
                run.add_transitions(hl.len() as u64 - 1);
                util::par_for(hl.len(), |i| {
                    run.eval(1);
                    match check_h(bk, &hl[i]) {
                        Ok(()) => run.add_traces(1),
                        Err((true, m)) => {
                            eprintln!("MACHINERY: {}", m);
                            std::process::exit(3);
                        }
                        Err((false, m)) => run.fail(
                            None,
                            json!({"producer": "H", "base": bk, "style": "table", "history": hist_json(&hl[i])}),
                            &m,
                            "objects kept in the object stream of a hybrid-reference base revision keep resolving after revisions are appended; replaced and added objects come from the newest revision",
                        ),
                    }
                    run.eval(1);
                    match check_l(bk, &hl[i]) {
                        Ok(()) => run.add_traces(1),
                        Err((_, m)) => run.fail(
                            None,
                            json!({"producer": "L", "base": bk, "style": "table", "history": hist_json(&hl[i])}),
                            &m,
                            "objects listed by a front cross-reference section that chains to the main section keep resolving after revisions are appended",
                        ),
                    }
                });
            }
            // producer B (IncrementalDocument): plain storage only, one walk per history
            let menu_b: Vec<Rev> = menu.iter().filter(|r| !r.objstm).cloned().collect();
            let hb = enumerate(&menu_b, k);
            run.add_states(hb.len() as u64);
            run.add_transitions(hb.len() as u64 - 1);
            util::par_for(hb.len(), |i| {
                let h = &hb[i];
                if h.is_empty() {
                    return;
                }
                run.eval(h.len() as u64);
                if h.iter().any(|r| r.mask != 0) {
                    run.nontrivial(1);
                }
                match check_b(bk, style == Style::Table, h) {
                    Ok(()) => run.add_traces(1),
                    Err(m) => run.fail(
                        None,
                        json!({"producer": "B", "base": bk, "style": if style == Style::Table {"table"} else {"stream"}, "history": hist_json(h)}),
                        &m,
                        "incremental save keeps the old bytes, appends only changed objects with a section pointing back, leaves the previous view untouched, reloads to the model",
                    ),
                }
            });
        }
    }
    // producer B on top of base files with every kind of white space after the final %%EOF, and long histories
    // (the Prev chain as a quantity: 1, 2, 127 .. 130, 300 appended revisions)
    {
        let one = |mask: u8, add: u8| Rev { mask, add, objstm: false };
        let mut cases: Vec<(usize, bool, Vec<Rev>, usize, usize)> = vec![];
        for bk in 0..3usize {
            for table in [true, false] {
                for tail in 1..TAILS.len() {
                    cases.push((bk, table, vec![one(1, 0), one(2, 1)], tail, 0));
                    cases.push((bk, table, vec![one(5, 1)], tail, 0));
                }
            }
        }
        let depths: &[usize] = if run.thorough { &[16, 64, 126, 127, 128, 129, 130, 131, 200, 300] } else { &[127, 128, 129, 130] };
        for (i, d) in depths.iter().enumerate() {
            // every revision replaces one of the designated objects in turn; nothing re-lists the other base objects
            let h: Vec<Rev> = (0..*d).map(|j| one(1 << (j % 3), (j % 5 == 0) as u8)).collect();
            cases.push((i % 3, i % 2 == 0, h, 0, 0));
        }
        // base files beyond 64 KiB and 16 MiB: the offsets of the appended revisions need 3 and 4 bytes in a
        // cross-reference stream and 6 / 9 digits in a table
        for (bk, pad) in [(0usize, 70_000usize), (1, 16_800_000), (2, 16_777_216 - 600)] {
            for table in [true, false] {
                cases.push((bk, table, vec![one(1, 0), one(6, 1)], 0, pad));
            }
        }
        run.add("producer_b_tail_and_depth_cases", cases.len() as u64);
        run.add_states(cases.iter().map(|c| c.2.len() as u64).sum());
        run.add_transitions(cases.iter().map(|c| c.2.len() as u64).sum());
        util::par_for(cases.len(), |i| {
            let (bk, table, h, tail, pad) = &cases[i];
            run.eval(h.len() as u64);
            run.nontrivial(1);
            match check_b_tail(*bk, *table, h, *tail, *pad) {
                Ok(()) => run.add_traces(1),
                Err(m) => run.fail(
                    None,
                    json!({"producer": "B", "base": bk, "style": if *table {"table"} else {"stream"}, "history": hist_json(h), "tail": tail, "pad": pad}),
                    &m,
                    "incremental save keeps the old bytes, appends only changed objects with a section pointing back, leaves the previous view untouched, reloads to the model",
                ),
            }
        });
    }
    run.sample(json!({"producer": "A", "base": 1, "style": "stream", "history": [[5, 1, true], [1, 0, false]], "meaning": "[replace-mask over 3 designated objects, objects added, stored in an object stream]"}));
    run.sample(json!({"producer": "B", "base": 2, "style": "table", "history": [[7, 2, false], [2, 1, false]]}));
    run.set("history_depth", json!(k));
    run.exhaustive(true);
    run.finish();
}
