//! C08 - loading is deterministic under every thread schedule (DESIGN §4 C08, hook H1).
use lopdf::verif_hooks::{self, MergeOrder};
use lopdf::{Dictionary, Document, Object, ObjectId, Stream};
use serde_json::{json, Value};
use std::collections::{BTreeMap, BTreeSet};
use vharness::choose::Chooser;
use vharness::gen::factorial;
use vharness::refpdf::{self, FileSpec, Section, Style};
use vharness::{cmp, util, Mode, Run};

const BUILD: &str = if cfg!(feature = "par") { "default" } else { "sequential" };

fn dict(e: Vec<(&str, Object)>) -> Dictionary {
    let mut d = Dictionary::new();
    for (k, v) in e {
        d.set(k.as_bytes().to_vec(), v);
    }
    d
}

/// A file descriptor: per container (revision) the bit mask of the 3 designated object numbers
/// it holds a copy of; `omit` = designated objects never listed in a cross-reference section;
/// `streams` = add a stream whose Length lives in an object stream and an empty stream.
#[derive(Debug, Clone, PartialEq)]
struct FileDesc {
    masks: Vec<u8>,
    omit: u8,
    streams: bool,
    /// containers additionally hold a stale second copy of the designated objects they store
    /// (the same number twice inside one object stream)
    dup_within: bool,
    /// every object stream has an indirect /Length stored in a further object stream (malformed but
    /// loadable): readers can resolve such containers only late, after the parallel phase
    late: bool,
}

fn desc_json(d: &FileDesc) -> Value {
    json!({"masks": d.masks, "omit": d.omit, "streams": d.streams, "dup_within": d.dup_within, "late": d.late})
}

fn desc_from(v: &Value) -> FileDesc {
    FileDesc {
        masks: v["masks"].as_array().unwrap().iter().map(|x| x.as_u64().unwrap() as u8).collect(),
        omit: v["omit"].as_u64().unwrap() as u8,
        streams: v["streams"].as_bool().unwrap(),
        dup_within: v["dup_within"].as_bool().unwrap_or(false),
        late: v["late"].as_bool().unwrap_or(false),
    }
}

const DESIGNATED: [u32; 3] = [2, 3, 5];

fn build(d: &FileDesc) -> Vec<u8> {
    let mut sections = vec![];
    let mut trailer = Dictionary::new();
    trailer.set("Root", Object::Reference((1, 0)));
    let omit: Vec<u32> = DESIGNATED.iter().enumerate().filter(|(b, _)| d.omit & (1 << b) != 0).map(|(_, n)| *n).collect();
    for (j, m) in d.masks.iter().enumerate() {
        let mut o: BTreeMap<ObjectId, Object> = BTreeMap::new();
        if j == 0 {
            o.insert((1, 0), Object::Dictionary(dict(vec![("Type", Object::Name(b"Catalog".to_vec()))])));
            if d.streams {
                o.insert((7, 0), Object::Stream(Stream::new(dict(vec![("K", Object::Integer(7))]), b"deferred length body".to_vec())));
                // a genuinely empty stream with a direct /Length 0 (its deferred read fails) next to
                // streams whose length is deferred: the order of the list matters to a sloppy loop
                o.insert((8, 0), Object::Stream(Stream::new(dict(vec![("VerifDirectLength", Object::Boolean(true))]), vec![])));
                o.insert((9, 0), Object::Stream(Stream::new(dict(vec![("K", Object::Integer(9))]), b"second deferred".to_vec())));
            }
        }
        for (b, n) in DESIGNATED.iter().enumerate() {
            if m & (1 << b) != 0 {
                o.insert(
                    (*n, 0),
                    Object::Dictionary(dict(vec![("Obj", Object::Integer(*n as i64)), ("Copy", Object::Integer(j as i64)), ("S", Object::string_literal(format!("c{}", j)))])),
                );
            }
        }
        let mut extra: Vec<(u32, Object)> = vec![];
        if d.dup_within {
            for (b, n) in DESIGNATED.iter().enumerate() {
                if m & (1 << b) != 0 {
                    extra.push((*n, Object::Dictionary(dict(vec![("Obj", Object::Integer(*n as i64)), ("StaleInContainer", Object::Integer(j as i64))]))));
                }
            }
            // padding members so that work splitting inside the container has something to split
            for q in 0..6u32 {
                extra.push((60 + q, Object::Integer(q as i64)));
            }
        }
        // a per-container marker object keeps every container non-empty and distinguishable
        o.insert((20 + j as u32, 0), Object::Array(vec![Object::Integer(j as i64)]));
        sections.push(Section { objects: o, trailer: trailer.clone(), objstm: Some(1), omit_xref: omit.clone(), extra_members: extra });
    }
    let spec = FileSpec { version: "1.7".into(), mark: vec![0xe2, 0xe3, 0xcf, 0xd3], style: Style::Stream, sections, helper_base: Some(100) };
    let mut cl: Vec<(&str, usize)> = vec![];
    if d.streams {
        cl.push(("stream.length", 3));
    }
    if d.late {
        cl.push(("os.length", 1));
    }
    let mut ch = if cl.is_empty() { Chooser::new() } else { Chooser::with_classes(&cl) };
    refpdf::write(&spec, &mut ch).0
}

fn files(thorough: bool) -> Vec<FileDesc> {
    let mut v = vec![];
    let kmax_full = if thorough { 4 } else { 3 };
    // all mask sequences (non-empty masks) for k <= kmax_full
    for k in 1..=kmax_full {
        let n = 7usize.pow(k as u32);
        for i in 0..n {
            let mut x = i;
            let mut masks = vec![];
            for _ in 0..k {
                masks.push((x % 7) as u8 + 1);
                x /= 7;
            }
            for omit in [0u8, 1] {
                v.push(FileDesc { masks: masks.clone(), omit, streams: (i + k) % 3 == 0, dup_within: false, late: false });
                if k <= 2 {
                    v.push(FileDesc { masks: masks.clone(), omit, streams: false, dup_within: true, late: false });
                    v.push(FileDesc { masks: masks.clone(), omit, streams: false, dup_within: false, late: true });
                }
            }
        }
    }
    // three late containers (3! orders of the deferred list), all mask sequences over {1,3,7}
    for i in 0..27usize {
        let mut x = i;
        let mut masks = vec![];
        for _ in 0..3 {
            masks.push([1u8, 3, 7][x % 3]);
            x /= 3;
        }
        v.push(FileDesc { masks, omit: 0, streams: i % 3 == 0, dup_within: false, late: true });
    }
    // larger k: masks from {1,3,7}
    let ks: Vec<usize> = if thorough { vec![5, 6] } else { vec![4] };
    for k in ks {
        let n = 3usize.pow(k as u32);
        for i in 0..n {
            let mut x = i;
            let mut masks = vec![];
            for _ in 0..k {
                masks.push([1u8, 3, 7][x % 3]);
                x /= 3;
            }
            v.push(FileDesc { masks: masks.clone(), omit: if i % 2 == 0 { 0 } else { 5 }, streams: i % 4 == 0, dup_within: i % 5 == 0, late: false });
        }
    }
    v
}

fn digest_of(r: &Result<Document, String>) -> (u64, String) {
    match r {
        Ok(d) => (cmp::digest_doc(d), String::new()),
        Err(e) => (vharness::run::fnv(e.as_bytes()) | 1 << 63, e.clone()),
    }
}

fn load_with(bytes: &[u8], mode: MergeOrder) -> Result<Document, String> {
    let prev = verif_hooks::set_thread_mode(Some(mode));
    let r = util::load(bytes);
    verif_hooks::set_thread_mode(prev);
    r
}

/// All block orders of one file; returns (distinct digests, loads run, blocks, zero-length items).
fn explore_file(bytes: &[u8]) -> (BTreeMap<u64, (u64, u64)>, u64, usize, usize) {
    let mut outcomes: BTreeMap<u64, (u64, u64)> = BTreeMap::new();
    // probe run to learn the number of blocks and zero-length streams
    let prev = verif_hooks::set_thread_mode(Some(MergeOrder::Sorted));
    let _ = util::load(bytes);
    let (k, z) = verif_hooks::last_counts();
    verif_hooks::set_thread_mode(prev);
    let mut loads = 0;
    for pb in 0..factorial(k) {
        for pi in 0..factorial(z) {
            let r = load_with(bytes, MergeOrder::Permutation { blocks: pb, items: pi });
            loads += 1;
            outcomes.entry(digest_of(&r).0).or_insert((pb, pi));
        }
    }
    (outcomes, loads, k, z)
}

fn wrap_object(body: &[u8]) -> Vec<u8> {
    let mut f = b"%PDF-1.4\n".to_vec();
    let off = f.len();
    f.extend_from_slice(b"1 0 obj\n");
    f.extend_from_slice(body);
    f.extend_from_slice(b"\nendobj\n");
    let x = f.len();
    f.extend_from_slice(format!("xref\n0 2\n0000000000 65535 f \n{:010} 00000 n \ntrailer\n<</Size 2/Root 1 0 R/Deep ", off).as_bytes());
    f.extend_from_slice(body);
    f.extend_from_slice(format!(">>\nstartxref\n{}\n%%EOF", x).as_bytes());
    f
}

/// a valid file with arrays nested `d` deep, in an object and in the trailer
fn deep_file(d: usize) -> Vec<u8> {
    let mut b = vec![b'['; d];
    b.extend_from_slice(b"1");
    b.extend(vec![b']'; d]);
    wrap_object(&b)
}

fn hostile_inputs() -> Vec<Vec<u8>> {
    let mut v = vec![deep_file(140), deep_file(129), deep_file(5000)];
    let mut dd = vec![];
    for _ in 0..200 {
        dd.extend_from_slice(b"<</A");
    }
    v.push(wrap_object(&dd));
    v.push(b"%PDF-1.4\n1 0 obj\n(unterminated\nendobj\nstartxref\n9\n%%EOF".to_vec());
    v.push(b"garbage".to_vec());
    let mut t = deep_file(10);
    t.truncate(t.len() - 30);
    v.push(t);
    v
}

/// classic table whose slots 3..3+n hold one copy and slots 41.. point at second copies that
/// still carry the numbers 3..3+n
fn misnumbered_file(n: usize) -> Vec<u8> {
    let mut f = b"%PDF-1.4\n".to_vec();
    let mut offs: BTreeMap<u32, usize> = BTreeMap::new();
    let mut put = |f: &mut Vec<u8>, slot: u32, num: u32, body: String| {
        offs.insert(slot, f.len());
        f.extend_from_slice(format!("{} 0 obj\n{}\nendobj\n", num, body).as_bytes());
    };
    put(&mut f, 1, 1, "<</Type/Catalog/Pages 2 0 R>>".into());
    put(&mut f, 2, 2, "<</Type/Pages/Kids[]/Count 0>>".into());
    for k in 0..n as u32 {
        // padding makes the first copies slow to parse so that workers really interleave
        let pad: String = (0..400).map(|i| format!("/K{} {}", i, i)).collect();
        put(&mut f, 3 + k, 3 + k, format!("<</Rev/Old/N {} {}>>", k, pad));
    }
    for k in 0..n as u32 {
        put(&mut f, 41 + k, 3 + k, format!("<</Rev/New/N {}>>", k));
    }
    let x = f.len();
    let max = 41 + n as u32;
    f.extend_from_slice(format!("xref\n0 {}\n0000000000 65535 f \n", max).as_bytes());
    for slot in 1..max {
        match offs.get(&slot) {
            Some(o) => f.extend_from_slice(format!("{:010} 00000 n \n", o).as_bytes()),
            None => f.extend_from_slice(b"0000000000 00000 f \n"),
        }
    }
    f.extend_from_slice(format!("trailer\n<</Size {}/Root 1 0 R>>\nstartxref\n{}\n%%EOF", max, x).as_bytes());
    f
}

/// Classic-table files with `n` entries in which two NEIGHBOURING entries are "trouble" objects whose
/// handling must not depend on how the table is split among workers: streams sharing one indirect
/// /Length object (valid, negative, self-referential, missing, beyond the file), or a stream next to an
/// object that does not parse. The pair sits at every position, so every split boundary is hit.
fn split_family() -> Vec<(String, Vec<u8>)> {
    let mut out = vec![];
    for n in [16u32, 33] {
        for kind in 0..10usize {
            for pos in 1..n - 1 {
                let len_id = n; // the shared length object is the last entry
                let mut f = b"%PDF-1.4\n".to_vec();
                let mut offs: Vec<usize> = vec![0; n as usize + 1];
                for id in 1..=n {
                    offs[id as usize] = f.len();
                    let body: String = if id == len_id {
                        match kind {
                            0 | 5 | 6 | 7 | 8 | 9 => "10".into(),
                            1 => "-1".into(),
                            2 => format!("{} 0 R", len_id),
                            3 => "(not a number)".into(),
                            _ => "4000000".into(),
                        }
                    } else if kind == 9 && id > 2 {
                        // every other object is a stream whose /Length names the length object with a WRONG generation,
                        // except the one at `pos`, which names it correctly
                        format!("<</Length {} {} R/Which {}>>\nstream\n0123456789\nendstream", len_id, if id == pos { 0 } else { 1 }, id)
                    } else if id == pos || id == pos + 1 {
                        let first = id == pos;
                        match (kind, first) {
                            // the same length object named with the right and with a wrong generation, in both orders
                            (7, true) | (8, false) => format!("<</Length {} 0 R/Which {}>>\nstream\n0123456789\nendstream", len_id, id),
                            (7, false) | (8, true) => format!("<</Length {} 1 R/Which {}>>\nstream\n0123456789\nendstream", len_id, id),
                            (5, true) => "(unterminated string".into(),
                            (6, true) => format!("<</Length {} 0 R>>\nstream\n0123456789\nendstream\nendobj\n{} 0 obj\n<</Length 99 0 R>>\nstream\nshadow\nendstream", len_id, id),
                            _ => format!("<</Length {} 0 R/Which {}>>\nstream\n0123456789\nendstream", len_id, id),
                        }
                    } else if id == 1 {
                        "<</Type/Catalog/Pages 2 0 R>>".into()
                    } else if id == 2 {
                        "<</Type/Pages/Kids[]/Count 0>>".into()
                    } else {
                        format!("<</N {}>>", id)
                    };
                    f.extend_from_slice(format!("{} 0 obj\n{}\nendobj\n", id, body).as_bytes());
                }
                let x = f.len();
                f.extend_from_slice(format!("xref\n0 {}\n0000000000 65535 f \n", n + 1).as_bytes());
                for id in 1..=n {
                    f.extend_from_slice(format!("{:010} 00000 n \n", offs[id as usize]).as_bytes());
                }
                f.extend_from_slice(format!("trailer\n<</Size {}/Root 1 0 R>>\nstartxref\n{}\n%%EOF", n + 1, x).as_bytes());
                out.push((format!("n={} kind={} pair at {}", n, kind, pos), f));
            }
        }
    }
    out
}

/// Encrypted files (RC4-128, empty user password, so the loader decrypts them itself) whose object streams
/// hold the same object numbers in several containers: the containers are expanded by the decryption
/// step, not by the parallel phase of the reader. Built by the reference writer; the container data are
/// then encrypted in place by the reference handler (RC4 keeps lengths, so no offset moves).
fn encrypted_family() -> Vec<(String, Vec<u8>)> {
    use vharness::refcrypt::{self as rc, MakeParams, Method};
    let mut out = vec![];
    let id0: Vec<u8> = (0u8..16).map(|i| i.wrapping_mul(29) ^ 0x3c).collect();
    for k in 2..=3usize {
        for i in 0..3usize.pow(k as u32) {
            let mut x = i;
            let mut masks = vec![];
            for _ in 0..k {
                masks.push([1u8, 3, 7][x % 3]);
                x /= 3;
            }
            let mp = MakeParams {
                v: 2,
                r: 3,
                key_bits: 128,
                write_length: true,
                p: -1340,
                encrypt_metadata: true,
                write_encrypt_metadata: false,
                cf: vec![],
                stmf: None,
                strf: None,
                file_key: [0; 32],
                u_tail: [0x44; 16],
                salts: [[1; 8], [2; 8], [3; 8], [4; 8]],
                perms_tail: [0; 4],
            };
            let up = rc::prep(3, "").expect("empty password");
            let op = rc::prep(3, "owner").expect("owner password");
            let (enc_dict, key) = rc::make(&mp, &id0, &up, &op);
            let mut sections = vec![];
            let mut trailer = Dictionary::new();
            trailer.set("Root", Object::Reference((1, 0)));
            trailer.set("Encrypt", Object::Reference((50, 1)));
            trailer.set("ID", Object::Array(vec![Object::String(id0.clone(), lopdf::StringFormat::Hexadecimal), Object::String(id0.clone(), lopdf::StringFormat::Hexadecimal)]));
            for (j, m) in masks.iter().enumerate() {
                let mut o: BTreeMap<ObjectId, Object> = BTreeMap::new();
                if j == 0 {
                    o.insert((1, 0), Object::Dictionary(dict(vec![("Type", Object::Name(b"Catalog".to_vec()))])));
                    // generation 1 keeps the encryption dictionary out of every object stream
                    o.insert((50, 1), Object::Dictionary(enc_dict.clone()));
                }
                for (b, n) in DESIGNATED.iter().enumerate() {
                    if m & (1 << b) != 0 {
                        o.insert((*n, 0), Object::Dictionary(dict(vec![("Obj", Object::Integer(*n as i64)), ("Copy", Object::Integer(j as i64)), ("N", Object::Name(format!("c{}", j).into_bytes()))])));
                    }
                }
                o.insert((20 + j as u32, 0), Object::Array(vec![Object::Integer(j as i64)]));
                sections.push(Section { objects: o, trailer: trailer.clone(), objstm: Some(1), omit_xref: vec![], extra_members: vec![] });
            }
            let spec = FileSpec { version: "1.7".into(), mark: vec![0xe2, 0xe3, 0xcf, 0xd3], style: Style::Stream, sections, helper_base: Some(100) };
            let (mut bytes, _) = refpdf::write(&spec, &mut Chooser::new());
            // encrypt every /Type /ObjStm container in place
            let mut from = 0usize;
            let mut n_enc = 0;
            while let Some(pos) = bytes[from..].windows(13).position(|w| w == b"/Type /ObjStm") .map(|p| p + from) {
                let head = bytes[..pos].windows(5).rposition(|w| w == b" obj\n").expect("container header");
                let mut s0 = head;
                while s0 > 0 && (bytes[s0 - 1].is_ascii_digit() || bytes[s0 - 1] == b' ') {
                    s0 -= 1;
                }
                let hdr = String::from_utf8_lossy(&bytes[s0..head]).to_string();
                let num: u32 = hdr.split_whitespace().next().unwrap().parse().unwrap();
                let st = bytes[pos..].windows(7).position(|w| w == b"stream\n").unwrap() + pos + 7;
                let lpos = bytes[pos..st].windows(8).position(|w| w == b"/Length ").unwrap() + pos + 8;
                let len: usize = String::from_utf8_lossy(&bytes[lpos..st]).chars().take_while(|c| c.is_ascii_digit()).collect::<String>().parse().unwrap();
                let okey = rc::object_key(&key, (num, 0), Method::Rc4);
                let enc = rc::rc4(&okey, &bytes[st..st + len]);
                bytes[st..st + len].copy_from_slice(&enc);
                n_enc += 1;
                from = st + len;
            }
            assert_eq!(n_enc, k, "every container encrypted");
            out.push((format!("encrypted RC4-128, containers {:?}", masks), bytes));
        }
    }
    out
}

/// Classic-table files holding object streams whose /N is SMALLER than the number of pairs in their index
/// block (lopdf merges the members of every object stream it meets, listed in the table or not): which
/// members are loaded must not depend on how the index block is split among workers.
fn objstm_n_family() -> Vec<(String, Vec<u8>)> {
    let mut out = vec![];
    for (containers, pairs, n) in [(3usize, 1500usize, 700i64), (2, 64, 10), (2, 300, 299), (1, 4000, 1), (2, 1500, 0), (2, 1500, -1), (2, 1500, 5000)] {
        let mut f = b"%PDF-1.5\n".to_vec();
        let mut offs = vec![];
        offs.push(f.len());
        f.extend_from_slice(b"1 0 obj\n<</Type/Catalog>>\nendobj\n");
        for c in 0..containers {
            let mut index = String::new();
            let mut body = String::new();
            for k in 0..pairs {
                index.push_str(&format!("{} {} ", 100 + c * pairs + k, body.len()));
                body.push_str(&format!("{} ", c * pairs + k));
            }
            let data = format!("{}{}", index, body);
            offs.push(f.len());
            f.extend_from_slice(format!("{} 0 obj\n<</Type/ObjStm/N {}/First {}/Length {}>>\nstream\n{}\nendstream\nendobj\n", 2 + c, n, index.len(), data.len(), data).as_bytes());
        }
        let x = f.len();
        f.extend_from_slice(format!("xref\n0 {}\n0000000000 65535 f \n", offs.len() + 1).as_bytes());
        for o in &offs {
            f.extend_from_slice(format!("{:010} 00000 n \n", o).as_bytes());
        }
        f.extend_from_slice(format!("trailer\n<</Size {}/Root 1 0 R>>\nstartxref\n{}\n%%EOF", offs.len() + 1, x).as_bytes());
        out.push((format!("objstm /N {} with {} pairs x {} containers", n, pairs, containers), f));
    }
    // three Flate-compressed object streams that inflate to 32 + 17 + 17 MiB (a 130 KB file): whatever limit a
    // reader puts on the total, which containers it keeps must not depend on the order in which workers finish
    {
        use std::io::Write;
        let mut f = b"%PDF-1.5\n".to_vec();
        let mut offs = vec![];
        offs.push(f.len());
        f.extend_from_slice(b"1 0 obj\n<</Type/Catalog>>\nendobj\n");
        for (c, mib) in [32usize, 17, 17].iter().enumerate() {
            let a = 10 + 2 * c;
            let first_obj = format!("<</Container {} /Member 0>>", c);
            let pad = mib << 20;
            let index = format!("{} 0 {} {} ", a, a + 1, first_obj.len() + pad);
            let mut enc = flate2::write::ZlibEncoder::new(Vec::new(), flate2::Compression::new(6));
            enc.write_all(index.as_bytes()).unwrap();
            enc.write_all(first_obj.as_bytes()).unwrap();
            let chunk = vec![b' '; 1 << 20];
            for _ in 0..*mib {
                enc.write_all(&chunk).unwrap();
            }
            enc.write_all(format!("[{} 1]", c).as_bytes()).unwrap();
            let data = enc.finish().unwrap();
            offs.push(f.len());
            f.extend_from_slice(format!("{} 0 obj\n<</Type/ObjStm/N 2/First {}/Filter/FlateDecode/Length {}>>\nstream\n", 2 + c, index.len(), data.len()).as_bytes());
            f.extend_from_slice(&data);
            f.extend_from_slice(b"\nendstream\nendobj\n");
        }
        let x = f.len();
        f.extend_from_slice(format!("xref\n0 {}\n0000000000 65535 f \n", offs.len() + 1).as_bytes());
        for o in &offs {
            f.extend_from_slice(format!("{:010} 00000 n \n", o).as_bytes());
        }
        f.extend_from_slice(format!("trailer\n<</Size {}/Root 1 0 R>>\nstartxref\n{}\n%%EOF", offs.len() + 1, x).as_bytes());
        out.push(("object streams inflating to 32 + 17 + 17 MiB".to_string(), f));
    }
    out
}

fn schedule_tree_nodes(k: usize) -> u64 {
    // number of ordered prefixes of k distinct blocks: sum_{j=0..k} k!/(k-j)!
    (0..=k).map(|j| factorial(k) / factorial(k - j)).sum()
}

fn main() {
    let args: Vec<String> = std::env::args().collect();
    let seq_child = args.windows(2).any(|w| w[0] == "--part" && w[1] == "seq");
    let run = Run::from_args("C08", "model_checking");
    util::quiet_panics();
    util::init_pool();
    if let Mode::Replay(path) = run.mode.clone() {
        let c = vharness::run::read_replay(&path);
        if let Some(h) = c.get("hex").and_then(|h| h.as_str()) {
            // a file given by its bytes: the pools of every size must agree (sequential build: run the
            // binary built without default features on the same replay file)
            let bytes = vharness::objjson::unhex(h);
            let mut seen: BTreeMap<u64, Vec<usize>> = BTreeMap::new();
            for t in [1usize, 2, 3, 4, 8, 16] {
                let pool = rayon::ThreadPoolBuilder::new().num_threads(t).build().unwrap();
                for _ in 0..20 {
                    seen.entry(pool.install(|| digest_of(&load_with(&bytes, MergeOrder::Sorted)).0)).or_default().push(t);
                }
            }
            println!("observed: {} distinct documents over pools of 1, 2, 3, 4, 8, 16 threads: {:?}", seen.len(), seen.iter().map(|(k, v)| (format!("{:016x}", k), v.iter().collect::<BTreeSet<_>>())).collect::<Vec<_>>());
            run.finish_replay(seen.len() != 1);
        }
        if let Some(h) = c.get("history") {
            let hostile = hostile_inputs();
            let fl = files(false);
            let subjects: Vec<Vec<u8>> = vec![deep_file(120), deep_file(60), build(&fl[fl.len() / 2]), build(&fl[1])];
            let subj = &subjects[h["subject"].as_u64().unwrap() as usize];
            let hs = &hostile[h["hostile"].as_u64().unwrap() as usize];
            let pool1 = rayon::ThreadPoolBuilder::new().num_threads(1).build().unwrap();
            let single = h["pool"].as_str() == Some("single-thread-pool");
            let load = |b: &[u8]| if single { pool1.install(|| digest_of(&load_with(b, MergeOrder::Sorted))) } else { digest_of(&load_with(b, MergeOrder::Sorted)) };
            let first = load(subj);
            let mut differs = false;
            for _ in 0..h["repetitions"].as_u64().unwrap() {
                let _ = load(hs);
                differs |= load(subj).0 != first.0;
            }
            println!("observed: the subject loads {} after the hostile loads", if differs { "DIFFERENTLY" } else { "identically" });
            run.finish_replay(differs);
        }
        let d = desc_from(&c["file"]);
        let bytes = build(&d);
        let (outcomes, loads, k, z) = explore_file(&bytes);
        println!("observed: {} distinct outcomes over {} orders ({} blocks, {} zero-length streams): {:?}", outcomes.len(), loads, k, z, outcomes);
        let _ = std::fs::write(path.with_extension("pdf"), &bytes);
        run.finish_replay(outcomes.len() != 1);
    }
    let fl = files(run.thorough);
    if seq_child {
        // sequential build: one load per file, digests reported to the parent
        let digests: Vec<String> = fl.iter().map(|d| format!("{:016x}", digest_of(&util::load(&build(d))).0)).collect();
        run.eval(fl.len() as u64);
        run.set("digests", json!(digests));
        let mut fam = split_family();
        fam.extend(encrypted_family());
        fam.extend(objstm_n_family());
        let sd: Vec<String> = fam.iter().map(|(_, b)| format!("{:016x}", digest_of(&util::load(b)).0)).collect();
        run.eval(sd.len() as u64);
        run.set("split_digests", json!(sd));
        run.finish_child();
    }
    run.rule(
        "files from the reference writer with k object-stream containers (k<=4 quick, <=6 thorough), every assignment of copies of 3 object \
         numbers to containers (all 7^k mask sequences for small k, {1,3,7}^k for large k), with and without cross-reference entries for the \
         duplicated number, with deferred-length and empty streams, and (k <= 3) with every container's own /Length stored in a further object stream so that the containers are resolved late; for every file ALL k! x z! orders of the merge blocks / zero-length list are \
         executed through hook H1 on the real Reader; plus a family of classic-table files (16 and 33 entries x 10 kinds of trouble pair - shared, invalid, cyclic, missing lengths, a length object named with a wrong generation - x every position; object streams whose /N is smaller than their index block) loaded on pools of 1, 2, 3, 4, 8, 16 threads and by the sequential build, and 36 RC4-encrypted files whose duplicated object numbers sit in object streams that the decryption step expands, which must all agree; non-trivial = file with a number stored in >= 2 containers or a split-family file; files distinct by construction",
    );
    run.assume("the two mutex-protected appends are the only schedule-visible actions of the parallel phase (DESIGN §3); rayon's collect() is order-preserving");
    let mut seq_split: Vec<String> = vec![];
    let seq_digests: Vec<String> = if let Ok(seq) = std::env::var("VERIF_SEQ_BIN") {
        let tier = if run.thorough { "thorough" } else { "quick" };
        let s = run.run_child(&seq, &["--part", "seq", "--tier", tier], "sequential_reader_build");
        seq_split = s["extras"]["split_digests"].as_array().map(|a| a.iter().map(|x| x.as_str().unwrap().to_string()).collect()).unwrap_or_default();
        s["extras"]["digests"].as_array().map(|a| a.iter().map(|x| x.as_str().unwrap().to_string()).collect()).unwrap_or_default()
    } else {
        run.assume("VERIF_SEQ_BIN not set: comparison with the sequential build skipped in this invocation");
        vec![]
    };
    let max_distinct = std::sync::atomic::AtomicU64::new(0);
    let dup_files = std::sync::atomic::AtomicU64::new(0);
    util::par_for(fl.len(), |i| {
        let d = &fl[i];
        let bytes = build(d);
        let (outcomes, loads, k, z) = explore_file(&bytes);
        run.eval(loads);
        run.add_traces(loads);
        run.add_states(schedule_tree_nodes(k) * schedule_tree_nodes(z).max(1));
        run.add_transitions((schedule_tree_nodes(k) - 1) * factorial(z).max(1) + (schedule_tree_nodes(z) - 1));
        let has_dup = (0..3).any(|b| d.masks.iter().filter(|m| *m & (1 << b) != 0).count() > 1);
        if has_dup {
            run.nontrivial(1);
            dup_files.fetch_add(1, std::sync::atomic::Ordering::Relaxed);
        }
        max_distinct.fetch_max(outcomes.len() as u64, std::sync::atomic::Ordering::Relaxed);
        if k != d.masks.len() && !d.late {
            eprintln!("MACHINERY: hook saw {} blocks for a file with {} containers ({:?})", k, d.masks.len(), d);
            std::process::exit(3);
        }
        if outcomes.len() != 1 {
            let orders: Vec<Value> = outcomes.iter().map(|(dg, (pb, pi))| json!({"digest": format!("{:016x}", dg), "blocks_perm": pb, "items_perm": pi})).collect();
            run.fail(
                Some("objstm-duplicate-merge"),
                json!({"file": desc_json(d), "build": BUILD, "orders": orders}),
                &format!("{} distinct documents over {} completion orders", outcomes.len(), loads),
                "the same document for every completion order",
            );
        } else if let Some(sd) = seq_digests.get(i) {
            let dg = format!("{:016x}", outcomes.keys().next().unwrap());
            if *sd != dg {
                run.fail(
                    None,
                    json!({"file": desc_json(d), "build": "default vs sequential"}),
                    &format!("default build digest {} != sequential build digest {}", dg, sd),
                    "the result equals that of loading with parallelism disabled",
                );
            }
        }
        if i % 997 == 0 {
            run.sample(json!({"file": desc_json(d), "blocks": k, "zero_length_streams": z, "orders_executed": loads, "distinct_outcomes": outcomes.len()}));
        }
    });
    run.set("files", json!(fl.len()));
    run.set("files_with_duplicates", json!(dup_files.load(std::sync::atomic::Ordering::Relaxed)));
    run.set("max_distinct_digests_per_file", json!(max_distinct.load(std::sync::atomic::Ordering::Relaxed)));
    run.set("compared_with_sequential_build", json!(seq_digests.len()));
    // supplementary, labelled sampling: free-running loads on pools of 1,2,3,4,8,16 threads
    let mut free_loads = 0u64;
    let sample_files: Vec<&FileDesc> = fl.iter().filter(|d| d.masks.len() >= 3).step_by(fl.len() / 12 + 1).collect();
    for threads in [1usize, 2, 3, 4, 8, 16] {
        let pool = rayon::ThreadPoolBuilder::new().num_threads(threads).build().unwrap();
        for d in &sample_files {
            let bytes = build(d);
            let mut seen = BTreeSet::new();
            let reps = if run.thorough { 200 } else { 40 };
            for _ in 0..reps {
                let dg = pool.install(|| digest_of(&load_with(&bytes, MergeOrder::Passthrough)).0);
                seen.insert(dg);
                free_loads += 1;
            }
            if seen.len() != 1 {
                run.fail(
                    Some("objstm-duplicate-merge"),
                    json!({"file": desc_json(d), "free_running_threads": threads}),
                    &format!("{} distinct documents in {} free-running loads on {} threads", seen.len(), reps, threads),
                    "the same document on every load",
                );
            }
        }
    }
    // files whose cross-reference table has two in-use slots that lead to copies of the same object
    // (the second slot points at a copy that still carries the old number): which copy survives must
    // not depend on the pool (supplementary sampling, the hook does not control this order)
    {
        let f = misnumbered_file(8);
        let reference = rayon::ThreadPoolBuilder::new().num_threads(1).build().unwrap().install(|| digest_of(&load_with(&f, MergeOrder::Passthrough)).0);
        for threads in [2usize, 3, 4, 8, 16] {
            let pool = rayon::ThreadPoolBuilder::new().num_threads(threads).build().unwrap();
            let mut seen = BTreeSet::new();
            let reps = if run.thorough { 200 } else { 60 };
            for _ in 0..reps {
                seen.insert(pool.install(|| digest_of(&load_with(&f, MergeOrder::Passthrough)).0));
                free_loads += 1;
            }
            if seen.len() != 1 || !seen.contains(&reference) {
                run.fail(
                    None,
                    json!({"file": "misnumbered xref: 8 slots pointing at second copies", "free_running_threads": threads, "hex": vharness::objjson::hex(&f)}),
                    &format!("{} distinct documents in {} free-running loads on {} threads (1-thread reference {:016x})", seen.len(), reps, threads, reference),
                    "the same document on every load, equal to the single-thread result",
                );
            }
        }
    }
    // split independence: the result must not depend on how rayon divides the cross-reference table among
    // workers. Pools of different sizes split the table differently (deterministically), and the sequential
    // build does not split at all: all must agree on every file of the family.
    {
        let mut fam = split_family();
        let enc = encrypted_family();
        // the encrypted files must really be decrypted and expanded by the loader, or they test nothing
        match util::load(&enc[0].1) {
            Ok(d) if !d.is_encrypted() && d.objects.contains_key(&(2, 0)) => {}
            other => {
                eprintln!("MACHINERY: the encrypted family is not decrypted on load: {:?}", other.map(|d| d.objects.keys().cloned().collect::<Vec<_>>()));
                std::process::exit(3);
            }
        }
        run.set("encrypted_family_files", json!(enc.len()));
        fam.extend(enc);
        fam.extend(objstm_n_family());
        let pools: Vec<(usize, rayon::ThreadPool)> = [1usize, 2, 3, 4, 8, 16].iter().map(|t| (*t, rayon::ThreadPoolBuilder::new().num_threads(*t).build().unwrap())).collect();
        let mut loads = 0u64;
        for (i, (label, bytes)) in fam.iter().enumerate() {
            let mut seen: BTreeMap<u64, Vec<String>> = BTreeMap::new();
            // (files of the encrypted family are loaded 8 times per pool: the order in which a parallel
            // decryption step would finish is not under the hook's control - this repetition is SAMPLING)
            let reps = if label.starts_with("encrypted") || label.starts_with("objstm /N") || label.contains("kind=9") { 8 } else { 1 };
            for (t, pool) in &pools {
                for _ in 0..reps {
                    let dg = pool.install(|| digest_of(&load_with(bytes, MergeOrder::Sorted)).0);
                    let e = seen.entry(dg).or_default();
                    let name = format!("pool({})", t);
                    if !e.contains(&name) {
                        e.push(name);
                    }
                    loads += 1;
                }
            }
            let dg = digest_of(&load_with(bytes, MergeOrder::Sorted)).0;
            seen.entry(dg).or_default().push("global pool".into());
            loads += 1;
            if let Some(sd) = seq_split.get(i) {
                let v = u64::from_str_radix(sd, 16).unwrap_or(0);
                seen.entry(v).or_default().push("sequential build".into());
            }
            run.eval(pools.len() as u64 + 1);
            run.nontrivial(1);
            if seen.len() != 1 {
                run.fail(
                    None,
                    json!({"split_family": label, "hex": vharness::objjson::hex(bytes)}),
                    &format!("{} distinct documents: {:?}", seen.len(), seen.values().collect::<Vec<_>>()),
                    "the same document whatever the pool size, equal to the sequential build's",
                );
            }
        }
        run.set("split_family_files", json!(fam.len()));
        run.set("split_family_loads", json!(loads));
        run.set("split_family_compared_with_sequential_build", json!(seq_split.len()));
    }
    run.set("supplementary_free_running_loads_SAMPLING", json!(free_loads));
    // history independence: loading the same bytes gives the same document whatever was loaded
    // before on the same thread (rejected inputs must not leave state behind)
    {
        let hostile: Vec<Vec<u8>> = hostile_inputs();
        let subjects: Vec<Vec<u8>> = vec![deep_file(120), deep_file(60), build(&fl[fl.len() / 2]), build(&fl[1])];
        let mut hist_loads = 0u64;
        let pool1 = rayon::ThreadPoolBuilder::new().num_threads(1).build().unwrap();
        for (si, subj) in subjects.iter().enumerate() {
            for (pname, pool) in [("calling-thread+global-pool", None), ("single-thread-pool", Some(&pool1))] {
                let load = |b: &[u8]| -> (u64, String) {
                    match pool {
                        Some(p) => p.install(|| digest_of(&load_with(b, MergeOrder::Sorted))),
                        None => digest_of(&load_with(b, MergeOrder::Sorted)),
                    }
                };
                let first = load(subj);
                for (hi, h) in hostile.iter().enumerate() {
                    for rep in 0..40 {
                        let _ = load(h);
                        let again = load(subj);
                        hist_loads += 2;
                        if again.0 != first.0 {
                            run.fail(
                                None,
                                json!({"history": {"subject": si, "hostile": hi, "repetitions": rep + 1, "pool": pname}}),
                                &format!("after {} loads of hostile input #{} the same bytes load differently ({})", rep + 1, hi, again.1),
                                "loading the same bytes always produces the same document",
                            );
                            break;
                        }
                    }
                }
            }
        }
        run.set("history_independence_loads", json!(hist_loads));
    }
    run.exhaustive(true);
    run.finish();
}
