//! C17 - bookmarks become a well-formed outline that reads back (DESIGN §4 C17).
//!
//! A case is an *insertion sequence*: for every `add_bookmark` call the parent (index of an
//! earlier call or none), the title and the page target (0 = the zero page `(0,0)`), plus the
//! number of pages of the document and the gap between the largest object number and `max_id`.
//! The forest shape and the sibling order follow from the sequence (siblings = insertion order).
use lopdf::{Bookmark, Dictionary, Document, Object, ObjectId};
use serde_json::{json, Value};
use std::collections::{BTreeMap, BTreeSet};
use std::sync::atomic::{AtomicU64, Ordering};
use vharness::objjson::{esc, show};
use vharness::{cmp, util, Mode, Run};

// ---------------------------------------------------------------------------------------------
// title menu

const MENU: [(&str, &str); 13] = [
    ("ascii", "Chapter 1"),
    ("ascii_parens_backslash", "Sec (1) \\ )x(("),
    ("empty", ""),
    ("latin1", "Caf\u{e9}"),
    ("cjk", "\u{76ee}\u{6b21}"),
    ("astral", "\u{1F600} smile"),
    ("utf16_bytes_0D0A", "\u{0D0A}x\u{0A0D}"),
    ("starts_with_FEFF", "\u{FEFF}Intro"),
    // two supplementary entries (not in the menu of DESIGN §4, same oracle)
    ("ascii_controls", "a\tb\r\nc\rd\ne\u{7f}"),
    ("utf16_bytes_parens_backslash", "\u{2829}\u{5C28}\u{295C}"),
    // an opening parenthesis that is never closed, FOLLOWED by a byte that needs an escape (ASCII and as UTF-16 bytes)
    ("unclosed_paren_then_backslash", "Paths (C:\\tmp and others"),
    ("utf16_bytes_28_then_5C", "\u{5728}\u{5C0F}\u{57CE}"),
    ("unclosed_paren_then_cr_lf", "a(b\rc\nd"),
];

// ---------------------------------------------------------------------------------------------
// case

#[derive(Debug, Clone)]
struct Ins {
    parent: Option<usize>,
    title: String,
    /// 0 = zero page (0,0); p >= 1 = page number p of the document
    page: usize,
}

#[derive(Debug, Clone)]
struct Case {
    n_pages: usize,
    gap: u32,
    ins: Vec<Ins>,
    /// deep families are written out as their generator parameters instead of the insertion list
    desc: Option<Value>,
}

impl Case {
    fn children(&self) -> (Vec<usize>, Vec<Vec<usize>>) {
        let mut roots = vec![];
        let mut ch = vec![vec![]; self.ins.len()];
        for (k, i) in self.ins.iter().enumerate() {
            match i.parent {
                None => roots.push(k),
                Some(p) => ch[p].push(k),
            }
        }
        (roots, ch)
    }

    /// nested-parentheses picture of the forest, e.g. "(()())()"
    fn shape(&self) -> String {
        fn rec(k: usize, ch: &[Vec<usize>], out: &mut String) {
            out.push('(');
            for c in &ch[k] {
                rec(*c, ch, out);
            }
            out.push(')');
        }
        let (roots, ch) = self.children();
        let mut s = String::new();
        for r in roots {
            rec(r, &ch, &mut s);
        }
        s
    }

    /// preorder list of (insertion index, depth)
    fn preorder(&self) -> Vec<(usize, usize)> {
        fn rec(k: usize, d: usize, ch: &[Vec<usize>], out: &mut Vec<(usize, usize)>) {
            out.push((k, d));
            for c in &ch[k] {
                rec(*c, d + 1, ch, out);
            }
        }
        let (roots, ch) = self.children();
        let mut out = vec![];
        for r in roots {
            rec(r, 0, &ch, &mut out);
        }
        out
    }

    /// page number every bookmark points to after `adjust_zero_pages`: its own page, or (zero
    /// page) that of its first child, recursively. None outside the domain.
    fn fixed_pages(&self) -> Option<Vec<usize>> {
        let (_, ch) = self.children();
        let mut out = vec![0usize; self.ins.len()];
        for k in (0..self.ins.len()).rev() {
            out[k] = if self.ins[k].page != 0 {
                self.ins[k].page
            } else {
                // children are inserted after their parent, so they are already resolved
                let first = ch[k].first()?;
                out[*first]
            };
            if out[k] == 0 {
                return None;
            }
        }
        Some(out)
    }

    /// the domain of the property (DESIGN §4 C17)
    fn in_domain(&self) -> Result<(), String> {
        if !(1..=16).contains(&self.n_pages) {
            return Err("number of pages outside 1..16".into());
        }
        let mut titles = BTreeSet::new();
        for (k, i) in self.ins.iter().enumerate() {
            if let Some(p) = i.parent {
                if p >= k {
                    return Err(format!("insertion {}: parent {} is not an earlier insertion", k, p));
                }
            }
            if i.page > self.n_pages {
                return Err(format!("insertion {}: page {} > number of pages", k, i.page));
            }
            if !titles.insert(i.title.clone()) {
                return Err(format!("insertion {}: title repeated", k));
            }
        }
        // zero-page bookmarks have a descendant with a page; a zero-page bookmark without
        // children has none, so by induction every zero-page bookmark has a first child that
        // ends up with a page
        if self.fixed_pages().is_none() {
            return Err("a zero-page bookmark has no descendant with a page".into());
        }
        Ok(())
    }

    fn to_json(&self) -> Value {
        if let Some(d) = &self.desc {
            return d.clone();
        }
        json!({
            "n_pages": self.n_pages,
            "max_id_gap": self.gap,
            "shape": self.shape(),
            "insertions": self.ins.iter().map(|i| json!({
                "parent": i.parent,
                "title": i.title,
                "title_utf16": i.title.encode_utf16().map(|u| format!("{:04X}", u)).collect::<Vec<_>>().join(" "),
                "page": i.page,
            })).collect::<Vec<_>>(),
        })
    }

    fn from_json(v: &Value) -> Option<Case> {
        if let Some(f) = v["family"].as_str() {
            return deep_case(f, v["depth"].as_u64()? as usize, v["zero"].as_str()?, v["order"].as_str()?, v["max_id_gap"].as_u64().unwrap_or(0) as u32);
        }
        let mut ins = vec![];
        for i in v["insertions"].as_array()? {
            ins.push(Ins {
                parent: i["parent"].as_u64().map(|p| p as usize),
                title: i["title"].as_str()?.to_string(),
                page: i["page"].as_u64()? as usize,
            });
        }
        Some(Case { n_pages: v["n_pages"].as_u64()? as usize, gap: v["max_id_gap"].as_u64().unwrap_or(0) as u32, ins, desc: None })
    }
}

// ---------------------------------------------------------------------------------------------
// enumeration

/// all ordered forests with n nodes, as parent arrays over preorder indices
fn forests(n: usize) -> Vec<Vec<Option<usize>>> {
    fn rec(i: usize, n: usize, cur: &mut Vec<Option<usize>>, out: &mut Vec<Vec<Option<usize>>>) {
        if i == n {
            out.push(cur.clone());
            return;
        }
        // node i is a new root, or a child of node i-1 or of one of its ancestors
        cur.push(None);
        rec(i + 1, n, cur, out);
        cur.pop();
        if i > 0 {
            let mut a = Some(i - 1);
            while let Some(x) = a {
                cur.push(Some(x));
                rec(i + 1, n, cur, out);
                cur.pop();
                a = cur[x];
            }
        }
    }
    let mut out = vec![];
    rec(0, n, &mut vec![], &mut out);
    out
}

/// every insertion order compatible with parent-before-child and with the sibling order
fn orders(parents: &[Option<usize>]) -> Vec<Vec<usize>> {
    let n = parents.len();
    let mut prev_sib: Vec<Option<usize>> = vec![None; n];
    for i in 0..n {
        prev_sib[i] = (0..i).rev().find(|j| parents[*j] == parents[i]);
    }
    fn rec(parents: &[Option<usize>], prev_sib: &[Option<usize>], placed: &mut Vec<usize>, out: &mut Vec<Vec<usize>>) {
        let n = parents.len();
        if placed.len() == n {
            out.push(placed.clone());
            return;
        }
        for i in 0..n {
            if placed.contains(&i) {
                continue;
            }
            let ok = |x: Option<usize>| x.map(|p| placed.contains(&p)).unwrap_or(true);
            if ok(parents[i]) && ok(prev_sib[i]) {
                placed.push(i);
                rec(parents, prev_sib, placed, out);
                placed.pop();
            }
        }
    }
    let mut out = vec![];
    rec(parents, &prev_sib, &mut vec![], &mut out);
    out
}

/// all page assignments (by preorder index): leaves 1..=p, inner nodes 0..=p
fn page_assignments(parents: &[Option<usize>], p: usize) -> Vec<Vec<usize>> {
    let n = parents.len();
    let inner: Vec<bool> = (0..n).map(|i| parents.iter().any(|q| *q == Some(i))).collect();
    let mut out: Vec<Vec<usize>> = vec![vec![]];
    for i in 0..n {
        let lo = if inner[i] { 0 } else { 1 };
        let mut next = vec![];
        for a in &out {
            for t in lo..=p {
                let mut b = a.clone();
                b.push(t);
                next.push(b);
            }
        }
        out = next;
    }
    out
}

fn make_case(parents: &[Option<usize>], order: &[usize], rot: usize, pages: &[usize], n_pages: usize, gap: u32) -> Case {
    let pos = |node: usize| order.iter().position(|x| *x == node).unwrap();
    let ins = order
        .iter()
        .map(|&node| Ins { parent: parents[node].map(pos), title: MENU[(rot + node) % MENU.len()].1.to_string(), page: pages[node] })
        .collect();
    Case { n_pages, gap, ins, desc: None }
}

/// The enumeration for forests with exactly n bookmarks.
fn cases_for(n: usize, counters: &mut (u64, u64)) -> Vec<Case> {
    let mut out = vec![];
    if n == 0 {
        for p in 1..=3 {
            for gap in [0u32, 3] {
                out.push(Case { n_pages: p, gap, ins: vec![], desc: None });
            }
        }
        counters.0 += 1;
        counters.1 += 1;
        return out;
    }
    for f in forests(n) {
        counters.0 += 1;
        let ords = orders(&f);
        counters.1 += ords.len() as u64;
        for p in 1..=3usize {
            let pas = page_assignments(&f, p);
            for o in &ords {
                for pa in &pas {
                    for rot in 0..MENU.len() {
                        for gap in [0u32, 3] {
                            out.push(make_case(&f, o, rot, pa, p, gap));
                        }
                    }
                }
            }
        }
    }
    out
}

// ---------------------------------------------------------------------------------------------
// deep families ("any depth and fan-out")

const DEEP_DEPTHS: [usize; 9] = [8, 32, 63, 64, 65, 66, 70, 128, 200];
const DEEP_ZERO: [&str; 3] = ["none", "every_third_parent", "all_parents"];

fn deep_title(i: usize) -> String {
    // menu entry + unique suffix: distinct, and every kind of title occurs at every depth range
    format!("{}#{}", MENU[i % MENU.len()].1, i)
}

/// family "chain": d bookmarks, each the only child of the previous one (d levels).
/// family "chain_leaves": the same chain with one leaf sibling at every level; order "level" adds
///   the two bookmarks of a level together (the leaf before the chain bookmark on odd levels, after
///   it on even levels), order "chain_first" adds the whole chain and then the leaves top-down.
/// family "under_third": three top-level bookmarks, a chain of d bookmarks under the last (d+1 levels).
/// Pages: bookmark i (creation index) -> page (i mod 3) + 1 of 3 pages; `zero` turns bookmarks that
/// have children into zero-page bookmarks (none / those with i mod 3 == 1 / all).
fn deep_case(family: &str, d: usize, zero: &str, order: &str, gap: u32) -> Option<Case> {
    if d == 0 || d > 100_000 || !DEEP_ZERO.contains(&zero) {
        return None;
    }
    // (parent, is_inner) in insertion order
    let mut nodes: Vec<(Option<usize>, bool)> = vec![];
    match (family, order) {
        ("chain", "level") => {
            for l in 0..d {
                nodes.push((if l == 0 { None } else { Some(l - 1) }, l + 1 < d));
            }
        }
        ("chain_leaves", "level") => {
            let mut chain_prev: Option<usize> = None;
            for l in 0..d {
                let inner = l + 1 < d;
                if l % 2 == 1 {
                    nodes.push((chain_prev, false));
                    nodes.push((chain_prev, inner));
                    chain_prev = Some(nodes.len() - 1);
                } else {
                    nodes.push((chain_prev, inner));
                    nodes.push((chain_prev, false));
                    chain_prev = Some(nodes.len() - 2);
                }
            }
        }
        ("chain_leaves", "chain_first") => {
            for l in 0..d {
                nodes.push((if l == 0 { None } else { Some(l - 1) }, l + 1 < d));
            }
            for l in 0..d {
                nodes.push((if l == 0 { None } else { Some(l - 1) }, false));
            }
        }
        ("under_third", "level") => {
            nodes.push((None, false));
            nodes.push((None, false));
            nodes.push((None, true));
            for l in 0..d {
                nodes.push((Some(2 + l), l + 1 < d));
            }
        }
        _ => return None,
    }
    let ins = nodes
        .iter()
        .enumerate()
        .map(|(i, (parent, inner))| {
            let z = *inner && match zero {
                "all_parents" => true,
                "every_third_parent" => i % 3 == 1,
                _ => false,
            };
            Ins { parent: *parent, title: deep_title(i), page: if z { 0 } else { i % 3 + 1 } }
        })
        .collect();
    let desc = json!({"family": family, "depth": d, "zero": zero, "order": order, "max_id_gap": gap, "n_pages": 3,
        "meaning": "generated by deep_case() in c17.rs: titles = menu[i mod 13] + '#i', page = (i mod 3) + 1, i = insertion index"});
    Some(Case { n_pages: 3, gap, ins, desc: Some(desc) })
}

fn deep_cases() -> Vec<Case> {
    let mut out = vec![];
    for (family, order) in [("chain", "level"), ("chain_leaves", "level"), ("chain_leaves", "chain_first"), ("under_third", "level")] {
        for d in DEEP_DEPTHS {
            for zero in DEEP_ZERO {
                out.push(deep_case(family, d, zero, order, if d % 2 == 0 { 0 } else { 3 }).unwrap());
            }
        }
    }
    out
}

// ---------------------------------------------------------------------------------------------
// depth probe: how deep a single chain may be before the recursive code runs out of stack.
// Runs in a child process, on a thread with a stated stack size; the harness side is iterative.

const PROBE_MAX_DEPTH: usize = 1 << 17;
const STACK_FINDING: &str = "outline-recursion-stack-overflow";

fn stage(s: &str) {
    use std::io::Write;
    println!("STAGE {}", s);
    let _ = std::io::stdout().flush();
}

/// Run `f` on a fresh thread with `kib` KiB of stack.
fn on_stack<T: Send + 'static>(kib: usize, f: impl FnOnce() -> T + Send + 'static) -> T {
    match std::thread::Builder::new().stack_size(kib << 10).spawn(f).unwrap().join() {
        Ok(v) => v,
        Err(_) => {
            println!("DEEP-FAIL panic");
            std::process::exit(1)
        }
    }
}

const BIG_STACK_KIB: usize = 1 << 20;

/// child side: `--part deep <depth> <zero: none|all_parents> <stack KiB> <which>`.
/// Every stage runs on its own thread. `which` = "all": every stage gets `stack KiB`; otherwise
/// only the named stage (adjust_zero_pages | build_outline | get_toc) does and the others get 1 GiB,
/// which isolates the depth limit of that stage.
fn deep_child(d: usize, zero: bool, stack_kib: usize, which: String) -> ! {
    util::quiet_panics();
    let kib = |st: &str| if which == "all" || which == st { stack_kib } else { BIG_STACK_KIB };
    let (mut doc, cat, page_ids) = build_doc(3, 0);
    stage("add_bookmark");
    let mut prev: Option<u32> = None;
    let mut titles = Vec::with_capacity(d);
    for i in 0..d {
        let inner = i + 1 < d;
        let page = if zero && inner { (0, 0) } else { page_ids[i % 3] };
        let t = deep_title(i);
        prev = Some(doc.add_bookmark(Bookmark::new(t.clone(), [0.0, 0.0, 0.0], 0, page), prev));
        titles.push(t);
    }
    stage("adjust_zero_pages");
    let doc = on_stack(kib("adjust_zero_pages"), move || {
        doc.adjust_zero_pages();
        doc
    });
    stage("build_outline");
    let (mut doc, root) = on_stack(kib("build_outline"), move || {
        let mut doc = doc;
        let r = doc.build_outline();
        (doc, r)
    });
    let res: Result<(), String> = (|| {
        let root = root.ok_or("build_outline returned None")?;
        match doc.get_object_mut(cat) {
            Ok(Object::Dictionary(c)) => c.set("Outlines", Object::Reference(root)),
            _ => return Err("catalog missing".to_string()),
        }
        stage("get_toc");
        let toc = on_stack(kib("get_toc"), move || doc.get_toc().map_err(|e| format!("get_toc: {}", e)))?;
        stage("compare");
        if toc.toc.len() != d {
            return Err(format!("get_toc returned {} entries for a chain of {} bookmarks", toc.toc.len(), d));
        }
        for (i, e) in toc.toc.iter().enumerate() {
            let page = if zero { (d - 1) % 3 + 1 } else { i % 3 + 1 };
            if e.title != titles[i] || e.level != i + 1 || e.page != page {
                return Err(format!("get_toc entry {} is ({:?}, {}, {}), expected ({:?}, {}, {})", i, e.title, e.level, e.page, titles[i], i + 1, page));
            }
        }
        stage("done");
        Ok(())
    })();
    match res {
        Ok(()) => {
            println!("DEEP-OK");
            std::process::exit(0)
        }
        Err(m) => {
            println!("DEEP-FAIL {}", m);
            std::process::exit(1)
        }
    }
}

#[derive(Debug, Clone, PartialEq)]
enum Probe {
    Ok,
    /// the property fails without a crash (wrong table of contents, error, panic)
    Fail(String),
    /// the process died by a signal; (signal, last stage reached, stack overflow message seen)
    Crash(i32, String, bool),
}

fn probe_once(d: usize, zero: bool, stack_kib: usize, which: &str) -> Probe {
    use std::os::unix::process::ExitStatusExt;
    let exe = std::env::current_exe().unwrap();
    let out = std::process::Command::new(exe)
        .args(["--part", "deep", &d.to_string(), if zero { "all_parents" } else { "none" }, &stack_kib.to_string(), which])
        .output()
        .unwrap_or_else(|e| {
            eprintln!("MACHINERY: cannot start the probe child: {}", e);
            std::process::exit(3);
        });
    let so = String::from_utf8_lossy(&out.stdout).to_string();
    let se = String::from_utf8_lossy(&out.stderr).to_string();
    let last_stage = so.lines().filter_map(|l| l.strip_prefix("STAGE ")).last().unwrap_or("").to_string();
    if let Some(sig) = out.status.signal() {
        return Probe::Crash(sig, last_stage, se.contains("overflowed its stack"));
    }
    if out.status.code() == Some(0) && so.contains("DEEP-OK") {
        return Probe::Ok;
    }
    let msg = so.lines().find_map(|l| l.strip_prefix("DEEP-FAIL ")).unwrap_or("child ended without a verdict").to_string();
    Probe::Fail(format!("{} (stage {}, exit {:?})", msg, last_stage, out.status.code()))
}

fn probe_case_json(d: usize, zero: bool, stack_kib: usize, which: &str) -> Value {
    json!({"probe": true, "family": "chain", "depth": d, "zero": if zero { "all_parents" } else { "none" }, "order": "level", "stack_kib": stack_kib, "limited_stage": which,
        "meaning": "single chain of `depth` bookmarks: add_bookmark x depth, adjust_zero_pages, build_outline, get_toc in a child process; every stage on its own thread; the stage named by limited_stage (all = every stage) has `stack_kib` KiB of stack, the others 1 GiB"})
}

/// Doubling then bisection for one configuration. Returns (largest depth seen passing, first failing depth and outcome).
fn probe_config(run: &Run, zero: bool, stack_kib: usize, which: &str) -> Value {
    let mut ok = 200usize;
    let mut bad: Option<(usize, Probe)> = None;
    let mut children = 0u64;
    let base = probe_once(ok, zero, stack_kib, which);
    children += 1;
    if base != Probe::Ok {
        run.fail(None, probe_case_json(ok, zero, stack_kib, which), &format!("{:?}", base), "a chain of 200 bookmarks reads back");
        return json!({"zero_page_parents": zero, "stack_kib": stack_kib, "limited_stage": which, "largest_depth_ok": 0});
    }
    let mut d = 256usize;
    while d <= PROBE_MAX_DEPTH {
        children += 1;
        match probe_once(d, zero, stack_kib, which) {
            Probe::Ok => ok = d,
            p => {
                bad = Some((d, p));
                break;
            }
        }
        d *= 2;
    }
    if let Some((mut hi, mut p)) = bad.clone() {
        while hi - ok > 1 {
            let mid = ok + (hi - ok) / 2;
            children += 1;
            match probe_once(mid, zero, stack_kib, which) {
                Probe::Ok => ok = mid,
                q => {
                    hi = mid;
                    p = q;
                }
            }
        }
        bad = Some((hi, p));
    }
    run.add("probe_child_processes", children);
    run.eval(children);
    match &bad {
        None => json!({"zero_page_parents": zero, "stack_kib": stack_kib, "limited_stage": which, "largest_depth_ok": ok, "first_failing_depth": Value::Null, "probed_up_to": PROBE_MAX_DEPTH}),
        Some((hi, p)) => {
            // classification: a catalogued stack overflow only if the child died by a signal with the
            // runtime's stack-overflow message, and the same configuration passes at depth 200 (checked above)
            let (fid, observed) = match p {
                Probe::Crash(sig, st, true) => (Some(STACK_FINDING), format!("child process died with signal {} (\"has overflowed its stack\") during stage {}; depth {} passes", sig, st, ok)),
                Probe::Crash(sig, st, false) => (None, format!("child process died with signal {} during stage {}", sig, st)),
                Probe::Fail(m) => (None, m.clone()),
                Probe::Ok => unreachable!(),
            };
            run.fail(fid, probe_case_json(*hi, zero, stack_kib, which), &observed, "a chain of any depth is turned into an outline and read back");
            json!({"zero_page_parents": zero, "stack_kib": stack_kib, "limited_stage": which, "largest_depth_ok": ok, "first_failing_depth": hi, "outcome": observed})
        }
    }
}

// ---------------------------------------------------------------------------------------------
// document under test

fn nm(s: &str) -> Object {
    Object::Name(s.as_bytes().to_vec())
}

/// Catalog -> Pages -> n pages. Kids lists the pages in *reverse* order of their object numbers,
/// so page number and object number order disagree. Returns (doc, catalog id, page id by page number - 1).
fn build_doc(n_pages: usize, gap: u32) -> (Document, ObjectId, Vec<ObjectId>) {
    let mut doc = Document::with_version("1.5");
    let pages_id = doc.new_object_id();
    let mut ids = vec![];
    for i in 0..n_pages {
        let mut d = Dictionary::new();
        d.set("Type", nm("Page"));
        d.set("Parent", Object::Reference(pages_id));
        d.set("MediaBox", Object::Array(vec![0.into(), 0.into(), 595.into(), (800 + i as i64).into()]));
        ids.push(doc.add_object(Object::Dictionary(d)));
    }
    ids.reverse();
    let mut p = Dictionary::new();
    p.set("Type", nm("Pages"));
    p.set("Kids", Object::Array(ids.iter().map(|i| Object::Reference(*i)).collect()));
    p.set("Count", Object::Integer(n_pages as i64));
    doc.objects.insert(pages_id, Object::Dictionary(p));
    let mut c = Dictionary::new();
    c.set("Type", nm("Catalog"));
    c.set("Pages", Object::Reference(pages_id));
    let cat = doc.add_object(Object::Dictionary(c));
    doc.trailer.set("Root", Object::Reference(cat));
    doc.max_id += gap;
    (doc, cat, ids)
}

// ---------------------------------------------------------------------------------------------
// oracle

/// Decode a PDF text string: UTF-16BE after FE FF; UTF-8 after EF BB BF (PDF 2.0); otherwise
/// PDFDocEncoding restricted to the part that coincides with ASCII / Latin-1.
fn decode_text(b: &[u8]) -> Result<String, String> {
    if b.len() >= 2 && b[0] == 0xFE && b[1] == 0xFF {
        let rest = &b[2..];
        if rest.len() % 2 != 0 {
            return Err("UTF-16BE text string of odd length".into());
        }
        let units: Vec<u16> = rest.chunks(2).map(|c| ((c[0] as u16) << 8) | c[1] as u16).collect();
        return String::from_utf16(&units).map_err(|_| "invalid UTF-16".to_string());
    }
    if b.len() >= 3 && b[..3] == [0xEF, 0xBB, 0xBF] {
        return String::from_utf8(b[3..].to_vec()).map_err(|_| "invalid UTF-8".to_string());
    }
    let mut s = String::new();
    for &c in b {
        if c < 0x80 || (c >= 0xA1 && c != 0xAD) {
            s.push(c as char);
        } else {
            return Err(format!("byte {:#04x} of an unmarked text string is outside the ASCII/Latin-1 part of PDFDocEncoding", c));
        }
    }
    Ok(s)
}

fn dict_of<'a>(doc: &'a Document, id: ObjectId, what: &str) -> Result<&'a Dictionary, String> {
    match doc.objects.get(&id) {
        Some(Object::Dictionary(d)) => Ok(d),
        Some(o) => Err(format!("{} {:?} is not a dictionary: {}", what, id, show(o))),
        None => Err(format!("{} {:?} does not exist", what, id)),
    }
}

fn ref_of(d: &Dictionary, key: &str, who: &str) -> Result<Option<ObjectId>, String> {
    match d.get(key.as_bytes()) {
        Err(_) => Ok(None),
        Ok(Object::Reference(id)) => Ok(Some(*id)),
        Ok(o) => Err(format!("{}: /{} is not a reference: {}", who, key, show(o))),
    }
}

struct Ctx<'a> {
    doc: &'a Document,
    case: &'a Case,
    ch: Vec<Vec<usize>>,
    created: &'a BTreeSet<ObjectId>,
    target: Vec<ObjectId>,
    seen: BTreeSet<ObjectId>,
}

impl Ctx<'_> {
    /// `owner` (outline root or item) must link exactly the items `kids`, in this order.
    fn check_level(&mut self, owner: ObjectId, kids: &[usize], who: &str) -> Result<(), String> {
        let od = dict_of(self.doc, owner, who)?;
        let first = ref_of(od, "First", who)?;
        let last = ref_of(od, "Last", who)?;
        if kids.is_empty() {
            if first.is_some() || last.is_some() {
                return Err(format!("{} has no children but carries First/Last", who));
            }
            return Ok(());
        }
        let mut cur = first.ok_or(format!("{} has {} children but no /First", who, kids.len()))?;
        let mut prev: Option<ObjectId> = None;
        for (pos, &k) in kids.iter().enumerate() {
            let short = if who.len() > 240 { format!("[level {}] ...{}", who.matches(" > ").count() + 1, &who[who.char_indices().rev().nth(160).map(|x| x.0).unwrap_or(0)..]) } else { who.to_string() };
            let me = format!("{} > child {} (insertion {}, {:?})", short, pos, k, self.case.ins[k].title);
            if !self.created.contains(&cur) {
                return Err(format!("{}: linked object {:?} was not created by build_outline", me, cur));
            }
            if !self.seen.insert(cur) {
                return Err(format!("{}: object {:?} is linked twice", me, cur));
            }
            let d = dict_of(self.doc, cur, &me)?;
            if ref_of(d, "Parent", &me)? != Some(owner) {
                return Err(format!("{}: /Parent is {:?}, expected {:?}", me, d.get(b"Parent").ok().map(show), owner));
            }
            if ref_of(d, "Prev", &me)? != prev {
                return Err(format!("{}: /Prev is {:?}, expected {:?}", me, d.get(b"Prev").ok().map(show), prev));
            }
            // title
            match d.get(b"Title") {
                Ok(Object::String(b, _)) => match decode_text(b) {
                    Ok(t) if t == self.case.ins[k].title => {}
                    Ok(t) => return Err(format!("{}: /Title bytes \"{}\" decode to {:?}, expected {:?}", me, esc(b), t, self.case.ins[k].title)),
                    Err(e) => return Err(format!("{}: /Title bytes \"{}\": {}", me, esc(b), e)),
                },
                other => return Err(format!("{}: /Title is {:?}", me, other.ok().map(show))),
            }
            // destination
            let dest = match d.get(b"A") {
                Ok(a) => {
                    let ad = match a {
                        Object::Reference(aid) => {
                            if !self.created.contains(aid) {
                                return Err(format!("{}: action object {:?} was not created by build_outline", me, aid));
                            }
                            dict_of(self.doc, *aid, &format!("{} action", me))?
                        }
                        Object::Dictionary(ad) => ad,
                        o => return Err(format!("{}: /A is {}", me, show(o))),
                    };
                    match ad.get(b"S") {
                        Ok(Object::Name(n)) if n == b"GoTo" => {}
                        other => return Err(format!("{}: action /S is {:?}, expected /GoTo", me, other.ok().map(show))),
                    }
                    ad.get(b"D").map_err(|_| format!("{}: action has no /D", me))?
                }
                Err(_) => d.get(b"Dest").map_err(|_| format!("{}: neither /A nor /Dest", me))?,
            };
            let dest = match dest {
                Object::Reference(r) => self.doc.objects.get(r).ok_or(format!("{}: destination {:?} missing", me, r))?,
                o => o,
            };
            match dest {
                Object::Array(a) if !a.is_empty() => {
                    if a[0] != Object::Reference(self.target[k]) {
                        return Err(format!("{}: destination page is {}, expected reference to {:?} (page number {})", me, show(&a[0]), self.target[k], self.page_no(k)));
                    }
                }
                o => return Err(format!("{}: destination is {}", me, show(o))),
            }
            let kids_k = self.ch[k].clone();
            self.check_level(cur, &kids_k, &me)?;
            prev = Some(cur);
            let next = ref_of(d, "Next", &me)?;
            if pos + 1 == kids.len() {
                if next.is_some() {
                    return Err(format!("{}: last sibling has /Next {:?}", me, next));
                }
            } else {
                cur = next.ok_or(format!("{}: /Next missing, {} more siblings expected", me, kids.len() - pos - 1))?;
            }
        }
        if last != prev {
            return Err(format!("{}: /Last is {:?}, expected the last child {:?}", who, last, prev));
        }
        Ok(())
    }

    fn page_no(&self, k: usize) -> usize {
        self.case.fixed_pages().map(|f| f[k]).unwrap_or(0)
    }
}

type TocModel = Vec<(String, usize, usize)>;

fn toc_of(doc: &Document, what: &str) -> Result<TocModel, String> {
    match util::guard(|| doc.get_toc()) {
        Ok(Ok(t)) => Ok(t.toc.iter().map(|e| (e.title.clone(), e.level, e.page)).collect()),
        Ok(Err(e)) => Err(format!("get_toc {}: error {}", what, e)),
        Err(p) => Err(format!("get_toc {}: {}", what, p)),
    }
}

fn cmp_toc(expected: &TocModel, got: &TocModel, what: &str) -> Result<(), String> {
    if expected == got {
        return Ok(());
    }
    let i = (0..expected.len().max(got.len())).find(|i| expected.get(*i) != got.get(*i)).unwrap();
    let listing = if got.len() <= 8 { format!(" {:?}", got) } else { String::new() };
    Err(format!(
        "get_toc {}: entry {} is {:?}, expected {:?} (title, level, page); got {} entries{}, expected {} entries",
        what,
        i,
        got.get(i),
        expected.get(i),
        got.len(),
        listing,
        expected.len()
    ))
}

struct Outcome {
    digest: u64,
    /// iteration order of the pending-bookmark table in this execution
    table_order: Vec<u32>,
}

/// One execution of the case. `full` = also get_toc and the two save+load round trips.
fn execute(case: &Case, full: bool) -> Result<Outcome, String> {
    let (mut doc, cat, page_ids) = build_doc(case.n_pages, case.gap);
    let fixed = case.fixed_pages().ok_or("case outside the domain")?;
    let mut bids: Vec<u32> = vec![];
    for (k, i) in case.ins.iter().enumerate() {
        let page = if i.page == 0 { (0, 0) } else { page_ids[i.page - 1] };
        let b = Bookmark::new(i.title.clone(), [0.0, 0.5, 1.0], (k % 4) as u32, page);
        let parent = i.parent.map(|p| bids[p]);
        let id = util::guard(|| doc.add_bookmark(b, parent))?;
        if bids.contains(&id) {
            return Err(format!("add_bookmark returned the id {} twice", id));
        }
        bids.push(id);
    }
    util::guard(|| doc.adjust_zero_pages())?;
    let table_order: Vec<u32> = doc.bookmark_table.keys().cloned().collect();
    let before = doc.objects.clone();
    let old_max = doc.max_id;
    let root = util::guard(|| doc.build_outline())?;
    if case.ins.is_empty() {
        if root.is_some() || doc.objects.len() != before.len() || doc.max_id != old_max {
            return Err(format!("no bookmarks: build_outline returned {:?} / changed the document", root));
        }
        return Ok(Outcome { digest: cmp::digest_doc(&doc), table_order });
    }
    let root = root.ok_or("build_outline returned None for a non-empty forest")?;
    // fresh identifiers
    for (id, o) in &before {
        match doc.objects.get(id) {
            Some(n) if cmp::digest_obj(n) == cmp::digest_obj(o) => {}
            _ => return Err(format!("object {:?} that existed before build_outline was replaced or removed", id)),
        }
    }
    let created: BTreeSet<ObjectId> = doc.objects.keys().filter(|k| !before.contains_key(k)).cloned().collect();
    for id in &created {
        if id.0 <= old_max {
            return Err(format!("created object {:?} is not above the previous max_id {}", id, old_max));
        }
    }
    let largest = created.iter().map(|i| i.0).max().unwrap_or(0);
    if doc.max_id < largest {
        return Err(format!("max_id is {} after build_outline but object {} was created", doc.max_id, largest));
    }
    if !created.contains(&root) {
        return Err(format!("returned outline id {:?} is not among the created objects {:?}", root, created));
    }
    // links, titles, destinations
    let (roots, ch) = case.children();
    let target: Vec<ObjectId> = fixed.iter().map(|p| page_ids[*p - 1]).collect();
    let mut ctx = Ctx { doc: &doc, case, ch, created: &created, target, seen: BTreeSet::new() };
    ctx.seen.insert(root);
    ctx.check_level(root, &roots, "outline root")?;
    if ctx.seen.len() != case.ins.len() + 1 {
        return Err(format!("{} items linked, {} bookmarks added", ctx.seen.len() - 1, case.ins.len()));
    }
    // attach as README.md / examples/merge.rs do
    match doc.get_object_mut(cat) {
        Ok(Object::Dictionary(d)) => d.set("Outlines", Object::Reference(root)),
        _ => return Err("MACHINERY catalog missing".into()),
    }
    let digest = cmp::digest_doc(&doc);
    if full {
        let expected: TocModel = case.preorder().iter().map(|(k, d)| (case.ins[*k].title.clone(), d + 1, fixed[*k])).collect();
        cmp_toc(&expected, &toc_of(&doc, "on the built document")?, "on the built document")?;
        for table in [true, false] {
            let what = if table { "after save (xref table) + load" } else { "after save (xref stream) + load" };
            let bytes = util::save_bytes(&doc, table).map_err(|e| format!("{}: {}", what, e))?;
            let l = util::load(&bytes).map_err(|e| format!("{}: {}", what, e))?;
            cmp_toc(&expected, &toc_of(&l, what)?, what)?;
        }
    }
    Ok(Outcome { digest, table_order })
}

/// The verdict for one case: a full execution, then a second construction whose document digest
/// must be identical (independence from HashMap iteration order).
fn check_case(case: &Case) -> (Result<(), String>, bool) {
    let a = match execute(case, true) {
        Ok(o) => o,
        Err(e) => return (Err(e), false),
    };
    match execute(case, false) {
        Ok(b) => {
            let differed = a.table_order != b.table_order;
            if a.digest != b.digest {
                (Err(format!("two executions of the same case give different documents (digest {:016x} vs {:016x})", a.digest, b.digest)), differed)
            } else {
                (Ok(()), differed)
            }
        }
        Err(e) => (Err(format!("second execution: {}", e)), false),
    }
}

const EXPECTED: &str = "fresh ids above max_id; First/Last/Next/Prev/Parent consistent with the forest in insertion order; Title decodes to the title; destination = target page; get_toc == preorder (title, depth+1, page number) on the built document and after save+load in both formats; same document on a second execution";

fn main() {
    let args: Vec<String> = std::env::args().collect();
    if let Some(i) = args.windows(2).position(|w| w[0] == "--part" && w[1] == "deep") {
        let num = |k: usize| args.get(i + k).and_then(|s| s.parse::<usize>().ok());
        match (num(2), args.get(i + 3).map(|s| s.as_str()), num(4)) {
            (Some(d), Some(z), Some(kib)) if d >= 1 && d <= PROBE_MAX_DEPTH => deep_child(d, z == "all_parents", kib, args.get(i + 5).cloned().unwrap_or("all".into())),
            _ => {
                eprintln!("MACHINERY: bad --part deep arguments");
                std::process::exit(3);
            }
        }
    }
    let run = Run::from_args("C17", "exploration");
    util::quiet_panics();
    util::init_pool();
    util::pin_schedule();
    if let Mode::Replay(path) = run.mode.clone() {
        let c = vharness::run::read_replay(&path);
        if c["probe"].as_bool() == Some(true) {
            let d = c["depth"].as_u64().unwrap_or(0) as usize;
            let zero = c["zero"].as_str() == Some("all_parents");
            let kib = c["stack_kib"].as_u64().unwrap_or(8192) as usize;
            if d == 0 || d > PROBE_MAX_DEPTH {
                eprintln!("MACHINERY: probe depth outside 1..{}", PROBE_MAX_DEPTH);
                std::process::exit(3);
            }
            let which = c["limited_stage"].as_str().unwrap_or("all").to_string();
            let a = probe_once(d, zero, kib, &which);
            let b = probe_once(d, zero, kib, &which);
            if a != b {
                eprintln!("MACHINERY: replay not deterministic: {:?} vs {:?}", a, b);
                std::process::exit(3);
            }
            println!("observed: {:?}", a);
            run.finish_replay(a != Probe::Ok);
        }
        let Some(case) = Case::from_json(&c) else {
            eprintln!("MACHINERY: replay case does not parse");
            std::process::exit(3);
        };
        if let Err(e) = case.in_domain() {
            eprintln!("MACHINERY: replay case is outside the domain of C17: {}", e);
            std::process::exit(3);
        }
        // The harness side of a case is deterministic; the only nondeterminism left is lopdf's own
        // HashMap iteration order, which the property says must not matter. The case is therefore
        // executed several times: any failing execution is a failure of the case.
        let mut results: Vec<Result<(), String>> = (0..2).map(|_| check_case(&case).0).collect();
        // 64 further constructions (each with freshly seeded HashMaps) must give one digest
        let digests: BTreeSet<u64> = (0..64).filter_map(|_| execute(&case, false).ok().map(|o| o.digest)).collect();
        results.push(if digests.len() > 1 {
            Err(format!("64 further executions of the same case give {} different documents (digests {:016x?})", digests.len(), digests))
        } else {
            Ok(())
        });
        let fails: Vec<&String> = results.iter().filter_map(|r| r.as_ref().err()).collect();
        match fails.first() {
            Some(m) if fails.len() == results.len() => println!("observed: {}", m),
            Some(m) => println!("observed: verdict varies between executions of the same case ({} of {} fail), first failure: {}", fails.len(), results.len(), m),
            None => println!("observed: well-formed outline, table of contents reads back ({} bookmarks, shape {})", case.ins.len(), vharness::run::truncate(&case.shape(), 80)),
        }
        run.finish_replay(!fails.is_empty());
    }
    let nmax = if run.thorough { 4 } else { 3 };
    run.rule(&format!(
        "complete product, in a fixed order, of: every ordered forest with n <= {nmax} bookmarks (Catalan(n) shapes) x every insertion order that puts a parent \
         before its children and keeps the order of siblings (roots included) x page count P in 1..3 x every page assignment (leaf: page 1..P; bookmark with \
         children: page 1..P or the zero page (0,0)) x title rotation r in 0..{m} (the bookmark with preorder index i gets menu entry (r+i) mod {m}; menu = \
         {names:?}) x max_id gap in {{0,3}} (max_id = largest object number + gap before build_outline). Pages tree: /Kids lists the P pages in reverse order of \
         their object numbers. adjust_zero_pages() is called in every case. A case is non-trivial when its forest has >= 2 bookmarks; cases are distinct by \
         construction (distinct descriptor tuples). Both tiers add {deep} deep-family cases (same oracle): families {{single chain of d levels; the same chain with a \
         leaf sibling at every level, in two insertion orders (level by level with the leaf before the chain bookmark on odd levels, or whole chain first then the \
         leaves); three top-level bookmarks with a chain of d under the last}} x d in {depths:?} x zero-page parents {{none, every third, all}}, titles = menu \
         entry (i mod {m}) + '#i', page (i mod 3)+1 of 3, max_id gap 0 for even d and 3 for odd d. Supplementary depth probe (not part of the enumeration): single \
         chains in child processes, doubling from 256 to {pmax} then bisection, to find where recursion exhausts an 8 MiB / 2 MiB stack. Quick additionally runs the n = 4 cases whose index = VERIF_SEED mod 97 (mod 97).",
        nmax = nmax,
        deep = deep_cases().len(),
        depths = DEEP_DEPTHS,
        pmax = PROBE_MAX_DEPTH,
        m = MENU.len(),
        names = MENU.iter().map(|m| m.0).collect::<Vec<_>>()
    ));
    run.assume("domain of the property: distinct titles; parents named in add_bookmark exist; a bookmark with the zero page has children (hence, by induction, a descendant with a page), expected page of a zero-page bookmark = page of its first child after the fix-up (doc comment of adjust_zero_pages)");
    run.assume("text strings are decoded by the harness as UTF-16BE after FE FF, UTF-8 after EF BB BF, otherwise the ASCII/Latin-1 part of PDFDocEncoding; /Count, /C, /F and /Type of outline objects are not part of the statement and not checked");
    run.assume("max_id is required to be >= the largest created object number (not necessarily equal); action dictionaries may be direct or indirect, /Dest is accepted in place of /A");
    run.assume("loads are done with the merge-order hook in Sorted mode (schedule independence is C08's subject); save/load themselves are C01's subject and trusted here only as transport");

    let mut counters = (0u64, 0u64);
    let mut cases: Vec<Case> = vec![];
    let mut by_n = vec![];
    for n in 0..=nmax {
        let c = cases_for(n, &mut counters);
        by_n.push(c.len());
        cases.extend(c);
    }
    let deep = deep_cases();
    run.set("deep_family_cases", json!(deep.len()));
    run.set("deep_depths", json!(DEEP_DEPTHS));
    cases.extend(deep);
    let bound_cases = cases.len();
    if !run.thorough {
        let r = (run.seed % 97) as usize;
        let mut dummy = (0u64, 0u64);
        let extra: Vec<Case> = cases_for(4, &mut dummy).into_iter().enumerate().filter(|(i, _)| i % 97 == r).map(|x| x.1).collect();
        run.set("seed_slice", json!(format!("n=4 cases with index mod 97 == {}: {} cases (supplementary, not part of the quick bound)", r, extra.len())));
        cases.extend(extra);
    }
    run.set("forests", json!(counters.0));
    run.set("orders", json!(counters.1));
    run.set("cases_by_bookmark_count", json!(by_n));
    run.set("title_menu", json!(MENU.iter().map(|m| json!({"name": m.0, "utf16": m.1.encode_utf16().map(|u| format!("{:04X}", u)).collect::<Vec<_>>().join(" ")})).collect::<Vec<_>>()));

    let order_differed = AtomicU64::new(0);
    let zero_page_cases = AtomicU64::new(0);
    let nontrivial = AtomicU64::new(0);
    let max_depth = AtomicU64::new(0);
    util::par_for(cases.len(), |i| {
        let case = &cases[i];
        if let Err(e) = case.in_domain() {
            eprintln!("MACHINERY: enumerated case outside the domain: {} {}", e, case.to_json());
            std::process::exit(3);
        }
        run.eval(1);
        if case.ins.len() >= 2 {
            nontrivial.fetch_add(1, Ordering::Relaxed);
        }
        if case.ins.iter().any(|x| x.page == 0) {
            zero_page_cases.fetch_add(1, Ordering::Relaxed);
        }
        let d = case.preorder().iter().map(|x| x.1 as u64 + 1).max().unwrap_or(0);
        max_depth.fetch_max(d, Ordering::Relaxed);
        let (res, differed) = check_case(case);
        if differed {
            order_differed.fetch_add(1, Ordering::Relaxed);
        }
        if let Err(m) = res {
            run.fail(None, case.to_json(), &m, EXPECTED);
        }
    });
    run.nontrivial(nontrivial.load(Ordering::Relaxed));
    run.add("build_outline_calls", 2 * cases.len() as u64);
    run.add("get_toc_calls", 3 * cases.iter().filter(|c| !c.ins.is_empty()).count() as u64);
    run.add("save_load_round_trips", 2 * cases.iter().filter(|c| !c.ins.is_empty()).count() as u64);
    run.add("cases_with_zero_page_parent", zero_page_cases.load(Ordering::Relaxed));
    run.add("cases_where_bookmark_table_iteration_order_differed_between_the_two_executions", order_differed.load(Ordering::Relaxed));
    run.set("max_levels", json!(max_depth.load(Ordering::Relaxed)));
    run.set("cases_in_bound", json!(bound_cases));
    // samples: first non-empty, one per size, the largest/last
    let mut shown = BTreeMap::new();
    for c in cases[..bound_cases].iter() {
        if c.desc.is_none() && !c.ins.is_empty() && !shown.contains_key(&c.ins.len()) {
            shown.insert(c.ins.len(), ());
            run.sample(c.to_json());
        }
    }
    if let Some(c) = cases[..bound_cases].iter().rev().find(|c| c.desc.is_none() && c.ins.iter().any(|i| i.page == 0) && c.preorder().iter().any(|x| x.1 >= 2)) {
        run.sample(c.to_json());
    }
    if let Some(c) = cases[..bound_cases].iter().find(|c| c.desc.as_ref().map(|d| d["family"] == "chain_leaves" && d["depth"] == 66).unwrap_or(false)) {
        run.sample(c.to_json());
    }
    run.sample(cases[bound_cases - 1].to_json());
    // depth probe (supplementary to the enumeration above): where does recursion run out of stack?
    let mut probes = vec![];
    for (zero, kib, which) in [
        (false, 8192usize, "all"),
        (true, 8192, "all"),
        (false, 2048, "all"),
        (true, 8192, "adjust_zero_pages"),
        (false, 8192, "build_outline"),
        (false, 8192, "get_toc"),
    ] {
        // the per-stage limits need children with > 60,000 levels (1-2 s each): thorough tier only
        if which != "all" && !run.thorough {
            continue;
        }
        probes.push(probe_config(&run, zero, kib, which));
    }
    run.set("depth_probe", json!(probes));
    run.exhaustive(true);
    run.finish();
}
