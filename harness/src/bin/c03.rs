//! C03 - saved files are valid PDF for a strict, independent reader (DESIGN §4 C03).
use lopdf::{Document, IncrementalDocument, Object, ObjectId};
use serde_json::{json, Value};
use std::collections::BTreeMap;
use vharness::gen::{all_upto2, tuples, SHARP};
use vharness::objjson::{doc_from_json, doc_to_json, obj_from_json, obj_to_json};
use vharness::rt::{self, check_doc_with, check_items_with, check_single_with, strict_reader};
use vharness::{cmp, docgen, strict, util, Mode, Run};

fn main() {
    let run = Run::from_args("C03", "exploration");
    util::quiet_panics();
    util::init_pool();
    util::pin_schedule();
    if let Mode::Replay(path) = run.mode.clone() {
        replay(&run, &path);
    }
    run.rule(
        "documents from the C01 enumerators (byte carriers, token-adjacency arrays/dictionaries, object trees, parametric \
         families, stratified reals, id/generation/version/mark/trailer menus) x {xref table, xref stream} x {Document::save_to, Document::save(path) over a fresh and over an existing longer file (file-level documents), \
         IncrementalDocument::save_to chained 1..3 times on top of lopdf's own file and of a base file written by the reference writer whose cross-reference stream does not hold the highest object number; the resulting multi-revision file loaded and saved in full}; each file is read by the independent strict reader, which must accept \
         it, account for every byte and recover the saved objects; non-trivial = file with >= 2 objects or a non-default \
         file-level field; items are distinct by construction",
    );
    run.assume("strict reader written from ISO 32000-1 7.2-7.5 in harness/src/strict.rs is the oracle; object numbers <= 3,000,000");
    let t = run.thorough;
    // plain save
    let mut lists: Vec<(String, Vec<Object>)> = vec![];
    let bytes: Vec<Vec<u8>> = all_upto2().into_iter().filter(|b| t || b.len() <= 1 || (b[0] as usize * 256 + b[1] as usize) % 16 == (run.seed % 16) as usize || docgen_sharp(b)).collect();
    lists.push(("carriers_bytes".into(), bytes.iter().flat_map(|b| docgen::carrier_items(b)).collect()));
    let sharp_len = if t { 3 } else { 2 };
    lists.push((format!("carriers_sharp{}", sharp_len), tuples(&SHARP, sharp_len).flat_map(|b| docgen::carrier_items(&b)).collect()));
    lists.push(("adjacency".into(), docgen::adjacency_items(!t)));
    lists.push(("trees".into(), docgen::tree_items()));
    lists.push(("families".into(), docgen::family_items()));
    lists.push(("reals".into(), real_items()));
    for (name, items) in &lists {
        run.add(&format!("items_{}", name), items.len() as u64);
        run.nontrivial(items.len() as u64);
        let chunk = 1500;
        util::par_for(items.len().div_ceil(chunk), |c| {
            let lo = c * chunk;
            let hi = (lo + chunk).min(items.len());
            for table in [true, false] {
                run.eval((hi - lo) as u64);
                run.add("files_plain", 1);
                for (i, m) in check_items_with(&items[lo..hi], table, strict_reader) {
                    run.fail(
                        None,
                        json!({"kind": "item", "part": name, "table": table, "item": obj_to_json(&items[lo + i])}),
                        &m,
                        "strict reader accepts the saved file and recovers the object",
                    );
                }
            }
        });
    }
    run.sample(json!({"part": "plain", "item": obj_to_json(&lists[2].1[777]), "formats": ["table", "stream"]}));
    let docs = docgen::file_level_docs();
    run.nontrivial(docs.len() as u64);
    util::par_for(docs.len(), |i| {
        for table in [true, false] {
            run.eval(1);
            run.add("files_plain", 1);
            if let Some(m) = check_doc_with(&docs[i].0, table, strict_reader) {
                run.fail(
                    None,
                    json!({"kind": "doc", "part": docs[i].1, "table": table, "doc": doc_to_json(&docs[i].0)}),
                    &m,
                    "strict reader accepts the saved file and recovers the document",
                );
            }
            // the path-taking entry point, writing over an existing longer file (and a fresh path)
            for existing in [Some(100_000usize), None] {
                run.eval(1);
                run.add("files_saved_by_path", 1);
                match rt::check_doc_path_with(&docs[i].0, table, strict_reader, existing) {
                    Err(e) => {
                        eprintln!("MACHINERY: {}", e);
                        std::process::exit(3);
                    }
                    Ok(Some(m)) => run.fail(
                        None,
                        json!({"kind": "doc_path", "part": docs[i].1, "table": table, "existing": existing, "doc": doc_to_json(&docs[i].0)}),
                        &m,
                        "strict reader accepts the file written by save(path) and recovers the document",
                    ),
                    Ok(None) => {}
                }
            }
        }
    });
    run.sample(json!({"part": "file_level", "label": docs[100].1, "doc": doc_to_json(&docs[100].0)}));
    if t {
        // the same boundary family at 2^24 (16 MiB files; thorough only, regenerated on replay)
        let cases: Vec<(usize, bool, bool)> = [0usize, 1, 2, 40, 200].iter().flat_map(|d| [(*d, true, true), (*d, true, false), (*d, false, true), (*d, false, false)]).collect();
        run.nontrivial(cases.len() as u64);
        util::par_for(cases.len(), |i| {
            let (delta, big_last, table) = cases[i];
            run.eval(1);
            run.add("files_boundary_2p24", 1);
            if let Some(m) = check_doc_with(&docgen::boundary_doc(24, delta, big_last), table, strict_reader) {
                run.fail(None, json!({"kind": "boundary", "log2": 24, "delta": delta, "big_last": big_last, "table": table}), &m, "strict reader accepts the saved file and recovers the document");
            }
        });
    }
    incremental(&run);
    resave(&run);
    run.exhaustive(true);
    run.finish();
}

fn docgen_sharp(b: &[u8]) -> bool {
    b.iter().all(|c| SHARP.contains(c))
}

fn real_items() -> Vec<Object> {
    let mut v = vec![];
    for e in (0..255u32).step_by(3) {
        let mut arr = vec![];
        for m in [0u32, 1, 0x400000, 0x7fffff, 0x2aaaaa] {
            for s in 0..2u32 {
                arr.push(Object::Real(f32::from_bits((s << 31) | (e << 23) | m)));
            }
        }
        v.push(Object::Array(arr));
    }
    v
}

// ---------------------------------------------------------------------------------------------
// incremental saves

#[derive(Clone)]
struct Edit {
    /// indices into the sorted list of existing ids to replace
    replace: Vec<usize>,
    add: usize,
}

fn edit_menu() -> Vec<Edit> {
    let mut v = vec![];
    for replace in [vec![], vec![0], vec![1], vec![0, 2]] {
        for add in 0..3usize {
            v.push(Edit { replace: replace.clone(), add });
        }
    }
    v
}

fn payload(k: usize) -> Object {
    let pool = docgen::adjacency_items(true);
    let trees = docgen::tree_items();
    if k % 2 == 0 {
        pool[(k * 7919 + 13) % pool.len()].clone()
    } else {
        trees[(k * 104729 + 7) % trees.len()].clone()
    }
}

/// Apply a chain of edits through IncrementalDocument; returns the final bytes and the model, or
/// an error message. `case` lists the payload indices so the chain can be replayed.
fn run_fresh_incremental(constructor: usize, table: bool) -> Result<(), String> {
    let mut inc = match constructor {
        0 => IncrementalDocument::new(),
        1 => IncrementalDocument::default(),
        _ => IncrementalDocument::create_from(Vec::new(), Document::new()),
    };
    inc.new_document.version = "1.5".into();
    util::set_xref(&mut inc.new_document, table);
    let mut model: BTreeMap<ObjectId, Object> = BTreeMap::new();
    for k in 0..4usize {
        let o = payload(k);
        let id = inc.new_document.add_object(o.clone());
        model.insert(id, o);
    }
    let root = *model.keys().next().unwrap();
    inc.new_document.trailer.set("Root", Object::Reference(root));
    let mut out = vec![];
    match util::guard(|| inc.save_to(&mut out)) {
        Ok(Ok(())) => {}
        Ok(Err(e)) => return Err(format!("save error: {}", e)),
        Err(p) => return Err(p),
    }
    let opts = strict::Options { require_binary_mark: true };
    let d = util::guard(|| strict::read(&out, &opts)).map_err(|p| format!("strict reader bug: {}", p))??;
    if d.bytes_accounted != out.len() {
        return Err(format!("accounted {} of {} bytes", d.bytes_accounted, out.len()));
    }
    if d.version != "1.5" {
        return Err(format!("version: expected \"1.5\" got {:?}", d.version));
    }
    if let Some(m) = cmp::diff_objects(&model, &d.objects) {
        return Err(m);
    }
    Ok(())
}

fn run_chain(base: &Document, table: bool, chain: &[(Edit, usize)]) -> Result<(), String> {
    let bytes = util::save_bytes(base, table)?;
    run_chain_from(bytes, base, chain)
}

/// A base file as ANOTHER producer writes it (reference writer): the cross-reference stream / helper
/// objects take the first unused object number, so the highest-numbered object of the file is a
/// regular object (lopdf's own files always end with the cross-reference stream as highest number).
fn foreign_base(base: &Document, table: bool) -> Vec<u8> {
    use vharness::refpdf::{FileSpec, Section, Style};
    let used: std::collections::BTreeSet<u32> = base.objects.keys().map(|k| k.0).collect();
    let gap = (1u32..).find(|n| !used.contains(n)).unwrap();
    let spec = FileSpec {
        version: base.version.clone(),
        mark: base.binary_mark.clone(),
        style: if table { Style::Table } else { Style::Stream },
        sections: vec![Section { objects: base.objects.clone(), trailer: base.trailer.clone(), objstm: Some(0), omit_xref: vec![], extra_members: vec![] }],
        helper_base: Some(gap),
    };
    vharness::refpdf::write(&spec, &mut vharness::choose::Chooser::new()).0
}

fn run_chain_from(mut bytes: Vec<u8>, base: &Document, chain: &[(Edit, usize)]) -> Result<(), String> {
    let mut model: BTreeMap<ObjectId, Object> = base.objects.clone();
    check_file(&bytes, base, &model, 1)?;
    for (step, (edit, seed)) in chain.iter().enumerate() {
        let prev_len = bytes.len();
        let loaded = util::load(&bytes)?;
        let mut inc = IncrementalDocument::create_from(bytes.clone(), loaded);
        let ids: Vec<ObjectId> = model.keys().cloned().collect();
        let mut k = *seed;
        for r in &edit.replace {
            if ids.is_empty() {
                break;
            }
            let id = ids[*r % ids.len()];
            let o = payload(k);
            k += 1;
            inc.new_document.set_object(id, o.clone());
            model.insert(id, o);
        }
        for _ in 0..edit.add {
            let o = payload(k);
            k += 1;
            let id = inc.new_document.add_object(o.clone());
            if model.contains_key(&id) {
                return Err(format!("add_object in incremental step {} returned existing id {:?}", step, id));
            }
            model.insert(id, o);
        }
        let mut out = vec![];
        match util::guard(|| inc.save_to(&mut out)) {
            Ok(Ok(())) => {}
            Ok(Err(e)) => return Err(format!("incremental save error: {}", e)),
            Err(p) => return Err(p),
        }
        if out.len() < prev_len || out[..prev_len] != bytes[..] {
            return Err(format!("incremental save step {} does not keep the previous bytes as a prefix", step));
        }
        bytes = out;
        check_file(&bytes, base, &model, step + 2)?;
    }
    // the multi-revision file loaded as a plain Document and saved IN FULL: one revision, no trace of the
    // loaded file's cross-reference chain (Prev, XRefStm) may survive in the new trailer
    let loaded = util::load(&bytes)?;
    for table in [true, false] {
        let full = util::save_bytes(&loaded, table).map_err(|e| format!("full save of the loaded multi-revision file: {}", e))?;
        check_file(&full, base, &model, 1).map_err(|e| format!("full save ({}) of the loaded {}-revision file: {}", if table { "table" } else { "stream" }, chain.len() + 1, e))?;
    }
    Ok(())
}

fn check_file(bytes: &[u8], base: &Document, model: &BTreeMap<ObjectId, Object>, revisions: usize) -> Result<(), String> {
    let opts = strict::Options { require_binary_mark: base.binary_mark.len() >= 4 };
    let d = util::guard(|| strict::read(bytes, &opts)).map_err(|p| format!("strict reader bug: {}", p))??;
    if d.bytes_accounted != bytes.len() {
        return Err(format!("accounted {} of {} bytes", d.bytes_accounted, bytes.len()));
    }
    if d.revisions.len() != revisions {
        return Err(format!("expected {} revisions in the Prev chain, strict reader found {}", revisions, d.revisions.len()));
    }
    if d.version != base.version {
        return Err(format!("version: expected {:?} got {:?}", base.version, d.version));
    }
    if let Some(m) = cmp::diff_objects(model, &d.objects) {
        return Err(m);
    }
    if let Some(m) = cmp::diff_trailer(&base.trailer, &d.trailer) {
        return Err(m);
    }
    Ok(())
}

fn incremental(run: &Run) {
    let bases = docgen::start_docs();
    let menu = edit_menu();
    let depth = if run.thorough { 3 } else { 2 };
    // all chains of edits of length 1..depth over the menu (menu^depth), per base and format
    let mut chains: Vec<Vec<(Edit, usize)>> = vec![];
    for a in 0..menu.len() {
        chains.push(vec![(menu[a].clone(), a)]);
        for b in 0..menu.len() {
            chains.push(vec![(menu[a].clone(), a), (menu[b].clone(), 100 + b)]);
            if depth >= 3 {
                for c in (0..menu.len()).step_by(2) {
                    chains.push(vec![(menu[a].clone(), a), (menu[b].clone(), 100 + b), (menu[c].clone(), 200 + c)]);
                }
            }
        }
    }
    let nb = if run.thorough { bases.len() } else { 4 };
    run.add("incremental_chains", (chains.len() * nb * 2) as u64);
    run.nontrivial((chains.len() * nb * 2) as u64);
    util::par_for(chains.len(), |ci| {
        for (bi, base) in bases.iter().take(nb).enumerate() {
            for table in [true, false] {
                run.eval(chains[ci].len() as u64 + 1);
                run.add("files_incremental", chains[ci].len() as u64);
                if let Err(m) = run_chain(base, table, &chains[ci]) {
                    let c: Vec<Value> = chains[ci].iter().map(|(e, s)| json!({"replace": e.replace, "add": e.add, "seed": s})).collect();
                    run.fail(
                        None,
                        json!({"kind": "incremental", "base": bi, "table": table, "chain": c}),
                        &m,
                        "every incrementally saved file is accepted by the strict reader, keeps the old bytes as a prefix and yields the model objects",
                    );
                }
                // the same chain on top of a base file written by another producer
                run.eval(chains[ci].len() as u64 + 1);
                run.add("files_incremental_foreign_base", chains[ci].len() as u64);
                if let Err(m) = run_chain_from(foreign_base(base, table), base, &chains[ci]) {
                    let c: Vec<Value> = chains[ci].iter().map(|(e, s)| json!({"replace": e.replace, "add": e.add, "seed": s})).collect();
                    run.fail(
                        None,
                        json!({"kind": "incremental", "foreign": true, "base": bi, "table": table, "chain": c}),
                        &m,
                        "every incrementally saved file is accepted by the strict reader, keeps the old bytes as a prefix and yields the model objects",
                    );
                }
            }
        }
    });
    // an IncrementalDocument that has NO previous revision (new / default): its save is the whole file and must be
    // a valid one-revision file. (create_from(empty bytes, empty Document) claims a previous revision that does not
    // exist and gets a /Prev 0 - a misuse of that constructor, not explored.)
    for (ci, table) in [(0usize, true), (0, false), (1, true), (1, false)] {
        run.eval(1);
        run.add("files_incremental_without_previous", 1);
        if let Err(m) = run_fresh_incremental(ci, table) {
            run.fail(None, json!({"kind": "fresh_incremental", "constructor": ci, "table": table}), &m, "an incremental document without a previous revision saves as a valid file (header, binary comment, one revision)");
        }
    }
    run.sample(json!({"part": "incremental", "base": 1, "table": false, "chain": [{"replace": [0, 2], "add": 2, "seed": 11}, {"replace": [1], "add": 1, "seed": 105}]}));
}

// ---------------------------------------------------------------------------------------------
// repeated saves of the SAME Document value (the writer keeps state in it: max_id, trailer)

use vharness::rt::{run_resave_with, resave_sequences, RESAVE_OPS};

fn run_resave(base: &Document, ops: &[usize]) -> Result<u64, String> {
    run_resave_with(base, ops, strict_reader)
}

fn resave(run: &Run) {
    let bases = docgen::start_docs();
    let depth = if run.thorough { 5 } else { 4 };
    let seqs = resave_sequences(depth);
    let nb = if run.thorough { 6 } else { 3 };
    run.add("resave_sequences", (seqs.len() * nb) as u64);
    run.nontrivial((seqs.len() * nb) as u64);
    util::par_for(seqs.len(), |i| {
        for (bi, base) in bases.iter().take(nb).enumerate() {
            match run_resave(base, &seqs[i]) {
                Ok(n) => {
                    run.eval(n);
                    run.add("files_resave", n);
                }
                Err(m) => run.fail(
                    None,
                    json!({"kind": "resave", "base": bi, "ops": seqs[i].iter().map(|o| RESAVE_OPS[*o]).collect::<Vec<_>>()}),
                    &m,
                    "every save of the same Document value is a valid file that recovers the document as it is at that moment",
                ),
            }
        }
    });
    run.sample(json!({"part": "resave", "base": 0, "ops": ["save_stream", "renumber", "save_stream"]}));
}

fn replay(run: &Run, path: &std::path::Path) -> ! {
    let case = vharness::run::read_replay(path);
    let table = case["table"].as_bool().unwrap_or(true);
    let res: Option<String> = match case["kind"].as_str() {
        Some("item") => check_single_with(&obj_from_json(&case["item"]), table, strict_reader),
        Some("doc") => check_doc_with(&doc_from_json(&case["doc"]), table, strict_reader),
        Some("doc_path") => match rt::check_doc_path_with(&doc_from_json(&case["doc"]), table, strict_reader, case["existing"].as_u64().map(|k| k as usize)) {
            Ok(r) => r,
            Err(e) => Some(e),
        },
        Some("boundary") => check_doc_with(
            &docgen::boundary_doc(case["log2"].as_u64().unwrap() as u32, case["delta"].as_u64().unwrap() as usize, case["big_last"].as_bool().unwrap()),
            table,
            strict_reader,
        ),
        Some("fresh_incremental") => run_fresh_incremental(case["constructor"].as_u64().unwrap() as usize, table).err(),
        Some("resave") => {
            let bases = docgen::start_docs();
            let base = &bases[case["base"].as_u64().unwrap() as usize];
            let ops: Vec<usize> = case["ops"].as_array().unwrap().iter().map(|o| RESAVE_OPS.iter().position(|x| Some(*x) == o.as_str()).unwrap()).collect();
            run_resave(base, &ops).err()
        }
        Some("incremental") => {
            let bases = docgen::start_docs();
            let base = &bases[case["base"].as_u64().unwrap() as usize];
            let chain: Vec<(Edit, usize)> = case["chain"]
                .as_array()
                .unwrap()
                .iter()
                .map(|c| {
                    (
                        Edit {
                            replace: c["replace"].as_array().unwrap().iter().map(|x| x.as_u64().unwrap() as usize).collect(),
                            add: c["add"].as_u64().unwrap() as usize,
                        },
                        c["seed"].as_u64().unwrap() as usize,
                    )
                })
                .collect();
            if case["foreign"].as_bool() == Some(true) {
                run_chain_from(foreign_base(base, table), base, &chain).err()
            } else {
                run_chain(base, table, &chain).err()
            }
        }
        _ => {
            eprintln!("MACHINERY: unknown replay kind");
            std::process::exit(3)
        }
    };
    match &res {
        Some(m) => println!("observed: {}", m),
        None => println!("observed: strict reader accepts and recovers the content"),
    }
    let _ = rt::paren_depth(b"");
    run.finish_replay(res.is_some())
}
