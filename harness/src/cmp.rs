//! Structural comparison used by the round-trip oracles (DESIGN §2.6). Deliberately no stricter
//! than the property statements.
use crate::objjson::{esc, show};
use lopdf::{Dictionary, Document, Object, ObjectId};
use std::collections::BTreeMap;

/// Trailer keys that are cross-reference bookkeeping (ignored when comparing trailers).
pub const XREF_BOOKKEEPING: [&[u8]; 9] = [
    b"Size", b"Prev", b"XRefStm", b"W", b"Index", b"Length", b"Filter", b"DecodeParms", b"Type",
];

/// An integral real may come back as an integer. The writer prints the shortest decimal that
/// denotes the f32 (e.g. 33619968f32 prints as "33619970"), so the integer read back is the one
/// whose nearest f32 is the original value; that is what "the integer of the same value" can mean
/// for a single-precision real, and `as_float()` returns the identical f32.
fn real_int_eq(r: f32, i: i64) -> bool {
    r.is_finite() && r.fract() == 0.0 && (i as f32) == r
}

/// Compare `expected` with `actual`; returns the first difference as "path: expected X got Y".
pub fn diff_obj(expected: &Object, actual: &Object, path: &str) -> Option<String> {
    match (expected, actual) {
        (Object::Null, Object::Null) => None,
        (Object::Boolean(a), Object::Boolean(b)) if a == b => None,
        (Object::Integer(a), Object::Integer(b)) if a == b => None,
        (Object::Real(a), Object::Real(b)) if a == b => None,
        (Object::Real(a), Object::Integer(b)) if real_int_eq(*a, *b) => None,
        (Object::Integer(a), Object::Real(b)) if real_int_eq(*b, *a) => None,
        (Object::Name(a), Object::Name(b)) if a == b => None,
        (Object::String(a, _), Object::String(b, _)) if a == b => None,
        (Object::Reference(a), Object::Reference(b)) if a == b => None,
        (Object::Array(a), Object::Array(b)) => {
            if a.len() != b.len() {
                return Some(format!(
                    "{}: array length expected {} got {} (expected {} got {})",
                    path,
                    a.len(),
                    b.len(),
                    show(expected),
                    show(actual)
                ));
            }
            for (i, (x, y)) in a.iter().zip(b.iter()).enumerate() {
                if let Some(d) = diff_obj(x, y, &format!("{}[{}]", path, i)) {
                    return Some(d);
                }
            }
            None
        }
        (Object::Dictionary(a), Object::Dictionary(b)) => diff_dict(a, b, path, &[]),
        (Object::Stream(a), Object::Stream(b)) => {
            if let Some(d) = diff_dict(&a.dict, &b.dict, &format!("{}.dict", path), &[]) {
                return Some(d);
            }
            if a.content != b.content {
                return Some(format!(
                    "{}: stream body differs: expected {} bytes {{{}}} got {} bytes {{{}}}",
                    path,
                    a.content.len(),
                    esc(&a.content[..a.content.len().min(40)]),
                    b.content.len(),
                    esc(&b.content[..b.content.len().min(40)])
                ));
            }
            None
        }
        _ => Some(format!("{}: expected {} got {}", path, show(expected), show(actual))),
    }
}

pub fn diff_dict(a: &Dictionary, b: &Dictionary, path: &str, ignore: &[&[u8]]) -> Option<String> {
    for (k, v) in a.iter() {
        if ignore.contains(&k.as_slice()) {
            continue;
        }
        match b.get(k) {
            Ok(w) => {
                if let Some(d) = diff_obj(v, w, &format!("{}/{}", path, esc(k))) {
                    return Some(d);
                }
            }
            Err(_) => return Some(format!("{}: key /{} missing (expected value {})", path, esc(k), show(v))),
        }
    }
    for (k, v) in b.iter() {
        if ignore.contains(&k.as_slice()) {
            continue;
        }
        if !a.has(k) {
            return Some(format!("{}: unexpected key /{} with value {}", path, esc(k), show(v)));
        }
    }
    None
}

fn is_structural(o: &Object) -> bool {
    matches!(o.type_name(), Ok(b"XRef") | Ok(b"ObjStm"))
}

/// Compare object maps: every expected object present and equal; extra objects in `actual` are
/// tolerated only if they are cross-reference streams / object-stream containers (bookkeeping).
pub fn diff_objects(
    expected: &BTreeMap<ObjectId, Object>, actual: &BTreeMap<ObjectId, Object>,
) -> Option<String> {
    for (id, o) in expected {
        if is_structural(o) && !actual.contains_key(id) {
            // containers kept in memory by a loader are not written again by the writer
            continue;
        }
        match actual.get(id) {
            None => return Some(format!("object {} {} missing after load (was {})", id.0, id.1, crate::run::truncate(&show(o), 200))),
            Some(p) => {
                if let Some(d) = diff_obj(o, p, &format!("obj({} {})", id.0, id.1)) {
                    return Some(d);
                }
            }
        }
    }
    for (id, o) in actual {
        if !expected.contains_key(id) && !is_structural(o) {
            return Some(format!("unexpected object {} {} after load: {}", id.0, id.1, crate::run::truncate(&show(o), 200)));
        }
    }
    None
}

pub fn diff_trailer(expected: &Dictionary, actual: &Dictionary) -> Option<String> {
    diff_dict(expected, actual, "trailer", &XREF_BOOKKEEPING)
}

/// Whole-document comparison: version, objects, trailer.
pub fn diff_docs(expected: &Document, actual: &Document) -> Option<String> {
    if expected.version != actual.version {
        return Some(format!("version: expected {:?} got {:?}", expected.version, actual.version));
    }
    if let Some(d) = diff_objects(&expected.objects, &actual.objects) {
        return Some(d);
    }
    diff_trailer(&expected.trailer, &actual.trailer)
}

/// Canonical digest of (version, objects, trailer, max_id) - order-insensitive in dictionaries.
pub fn digest_doc(doc: &Document) -> u64 {
    let mut buf = Vec::new();
    buf.extend_from_slice(doc.version.as_bytes());
    buf.push(0);
    buf.extend_from_slice(&doc.max_id.to_be_bytes());
    for (id, o) in &doc.objects {
        buf.extend_from_slice(&id.0.to_be_bytes());
        buf.extend_from_slice(&id.1.to_be_bytes());
        canon(o, &mut buf);
    }
    buf.push(0xfe);
    canon_dict(&doc.trailer, &mut buf);
    crate::run::fnv(&buf)
}

pub fn digest_obj(o: &Object) -> u64 {
    let mut buf = Vec::new();
    canon(o, &mut buf);
    crate::run::fnv(&buf)
}

pub fn canon(o: &Object, out: &mut Vec<u8>) {
    match o {
        Object::Null => out.push(b'z'),
        Object::Boolean(b) => out.extend_from_slice(if *b { b"T" } else { b"F" }),
        Object::Integer(i) => {
            out.push(b'I');
            out.extend_from_slice(&i.to_be_bytes());
        }
        Object::Real(r) => {
            if r.is_finite() && r.fract() == 0.0 && r.abs() < 16777216.0 {
                // small integral reals digest like the integer of the same value
                out.push(b'I');
                out.extend_from_slice(&(*r as i64).to_be_bytes());
            } else {
                out.push(b'r');
                out.extend_from_slice(&r.to_bits().to_be_bytes());
            }
        }
        Object::Name(n) => {
            out.push(b'n');
            out.extend_from_slice(&(n.len() as u32).to_be_bytes());
            out.extend_from_slice(n);
        }
        Object::String(s, _) => {
            out.push(b's');
            out.extend_from_slice(&(s.len() as u32).to_be_bytes());
            out.extend_from_slice(s);
        }
        Object::Array(a) => {
            out.push(b'[');
            for x in a {
                canon(x, out);
            }
            out.push(b']');
        }
        Object::Dictionary(d) => canon_dict(d, out),
        Object::Stream(s) => {
            out.push(b'S');
            canon_dict(&s.dict, out);
            out.extend_from_slice(&(s.content.len() as u32).to_be_bytes());
            out.extend_from_slice(&s.content);
        }
        Object::Reference(id) => {
            out.push(b'R');
            out.extend_from_slice(&id.0.to_be_bytes());
            out.extend_from_slice(&id.1.to_be_bytes());
        }
    }
}

pub fn canon_dict(d: &Dictionary, out: &mut Vec<u8>) {
    let mut entries: Vec<(&Vec<u8>, &Object)> = d.iter().collect();
    entries.sort_by(|a, b| a.0.cmp(b.0));
    out.push(b'<');
    for (k, v) in entries {
        out.extend_from_slice(&(k.len() as u32).to_be_bytes());
        out.extend_from_slice(k);
        canon(v, out);
    }
    out.push(b'>');
}

/// A stream's Length may be written as an indirect reference; readers that keep the reference
/// are compared after replacing it by the actual content length (the strict reader has already
/// verified that the referenced integer equals the number of bytes).
pub fn normalise_lengths(objects: &mut BTreeMap<ObjectId, Object>) {
    for o in objects.values_mut() {
        if let Object::Stream(s) = o {
            if matches!(s.dict.get(b"Length"), Ok(Object::Reference(_))) {
                let n = s.content.len() as i64;
                s.dict.set("Length", Object::Integer(n));
            }
        }
    }
}
