//! Choice recorder and deviation-bounded exploration (DESIGN §2.2).
//!
//! Generators with syntactic freedom call `choose(class, n)`; option 0 is the plainest spelling.
//! The explorer first runs the generator with all zeros, reads back the choice points it met,
//! and then re-runs it with every vector that has at most d non-zero entries.
use std::collections::BTreeMap;

#[derive(Debug, Clone, PartialEq)]
pub struct Point {
    pub class: &'static str,
    pub n: usize,
    pub taken: usize,
}

#[derive(Debug, Clone, Default)]
pub struct Chooser {
    /// forced option at the i-th choice point of this execution
    pub at_point: BTreeMap<usize, usize>,
    /// forced option for every point of a class (instance-level forcing wins)
    pub at_class: BTreeMap<String, usize>,
    pub log: Vec<Point>,
    /// expected (class, n) of the points of the prefix, from the default run; a mismatch is a
    /// machinery error (the generator is not deterministic in its choices)
    pub expect: Vec<(&'static str, usize)>,
    pub diverged: Option<String>,
}

impl Chooser {
    pub fn new() -> Self {
        Self::default()
    }

    pub fn with_point(i: usize, opt: usize) -> Self {
        let mut c = Self::default();
        c.at_point.insert(i, opt);
        c
    }

    pub fn with_classes(v: &[(&str, usize)]) -> Self {
        let mut c = Self::default();
        for (k, o) in v {
            c.at_class.insert(k.to_string(), *o);
        }
        c
    }

    /// Choose one of `n` options (n >= 1) at a point of class `class`.
    pub fn choose(&mut self, class: &'static str, n: usize) -> usize {
        let i = self.log.len();
        if let Some((ec, en)) = self.expect.get(i) {
            // only the prefix before the first forced point is guaranteed identical
            let first_forced = self.at_point.keys().next().copied().unwrap_or(usize::MAX);
            if i <= first_forced && self.at_class.is_empty() && (*ec != class || *en != n) && self.diverged.is_none() {
                self.diverged = Some(format!("choice point {}: expected ({}, {}) got ({}, {})", i, ec, en, class, n));
            }
        }
        let mut taken = 0;
        if let Some(o) = self.at_point.get(&i) {
            taken = *o;
        } else if let Some(o) = self.at_class.get(class) {
            taken = *o;
        }
        if taken >= n {
            taken = 0;
        }
        self.log.push(Point { class, n, taken });
        taken
    }

    /// A switch that is NOT a choice point of the exploration (it produces malformed files and is only
    /// meant to be set on purpose through `with_classes`): true iff the class is forced to a non-zero option.
    pub fn switch(&self, class: &str) -> bool {
        self.at_class.get(class).map(|o| *o != 0).unwrap_or(false)
    }

    /// non-zero choices actually taken, as (point index, class, option)
    pub fn deviations(&self) -> Vec<(usize, &'static str, usize)> {
        self.log.iter().enumerate().filter(|(_, p)| p.taken != 0).map(|(i, p)| (i, p.class, p.taken)).collect()
    }

    pub fn classes_seen(&self) -> BTreeMap<&'static str, usize> {
        let mut m = BTreeMap::new();
        for p in &self.log {
            let e = m.entry(p.class).or_insert(0);
            *e = (*e).max(p.n);
        }
        m
    }
}
