//! Reference civil-date arithmetic and reference PDF date formatting for C18 (DESIGN §4 C18).
//!
//! Written from scratch with integer arithmetic on the proleptic Gregorian calendar; nothing in
//! this module calls chrono, jiff or time. Instants are whole seconds since 1970-01-01T00:00:00Z,
//! offsets are whole minutes east of UTC.
//!
//! Reference formatting (ISO 32000-1 §7.9.4, with the trailing apostrophe every lopdf writer emits):
//!   offset form  `D:YYYYMMDDHHmmSS+HH'mm'`   (sign `+` for offsets >= 0, `-` otherwise, also for -00'30')
//!   Z form       `D:YYYYMMDDHHmmSSZ`

pub const SECS_PER_DAY: i64 = 86_400;
/// Number of days from 0001-01-01 to 1970-01-01.
const DAYS_0001_TO_1970: i64 = 719_162;
const DAYS_PER_400Y: i64 = 146_097;
const DAYS_PER_100Y: i64 = 36_524;
const DAYS_PER_4Y: i64 = 1_461;

#[derive(Debug, Clone, Copy, PartialEq, Eq)]
pub struct Civil {
    pub year: i64,
    pub month: i64,
    pub day: i64,
    pub hour: i64,
    pub minute: i64,
    pub second: i64,
}

pub fn is_leap(y: i64) -> bool {
    (y.rem_euclid(4) == 0 && y.rem_euclid(100) != 0) || y.rem_euclid(400) == 0
}

pub fn days_in_month(y: i64, m: i64) -> i64 {
    match m {
        1 | 3 | 5 | 7 | 8 | 10 | 12 => 31,
        4 | 6 | 9 | 11 => 30,
        2 => {
            if is_leap(y) {
                29
            } else {
                28
            }
        }
        _ => panic!("month out of range: {}", m),
    }
}

/// Days from 1970-01-01 to the proleptic Gregorian date y-m-d (negative before 1970).
pub fn days_from_civil(y: i64, m: i64, d: i64) -> i64 {
    // whole years before y, counted from year 1 (floor division keeps year <= 0 correct)
    let p = y - 1;
    let mut days = 365 * p + p.div_euclid(4) - p.div_euclid(100) + p.div_euclid(400);
    for mm in 1..m {
        days += days_in_month(y, mm);
    }
    days + (d - 1) - DAYS_0001_TO_1970
}

/// Inverse of `days_from_civil`.
pub fn civil_from_days(z: i64) -> (i64, i64, i64) {
    let n = z + DAYS_0001_TO_1970; // days since 0001-01-01
    let c400 = n.div_euclid(DAYS_PER_400Y);
    let mut r = n.rem_euclid(DAYS_PER_400Y);
    // the last day of a 400-year cycle belongs to the fourth century of the cycle
    let c100 = (r / DAYS_PER_100Y).min(3);
    r -= c100 * DAYS_PER_100Y;
    let c4 = r / DAYS_PER_4Y; // at most 24
    r -= c4 * DAYS_PER_4Y;
    // the last day of a 4-year cycle belongs to its fourth year
    let c1 = (r / 365).min(3);
    r -= c1 * 365;
    let year = 1 + 400 * c400 + 100 * c100 + 4 * c4 + c1;
    let mut month = 1;
    loop {
        let dm = days_in_month(year, month);
        if r < dm {
            break;
        }
        r -= dm;
        month += 1;
    }
    (year, month, r + 1)
}

/// The civil date-time in UTC of an instant.
pub fn civil_from_epoch(secs: i64) -> Civil {
    let days = secs.div_euclid(SECS_PER_DAY);
    let sod = secs.rem_euclid(SECS_PER_DAY);
    let (year, month, day) = civil_from_days(days);
    Civil { year, month, day, hour: sod / 3600, minute: sod % 3600 / 60, second: sod % 60 }
}

/// The instant at which UTC shows the civil date-time `c`.
pub fn epoch_from_civil(c: &Civil) -> i64 {
    days_from_civil(c.year, c.month, c.day) * SECS_PER_DAY + c.hour * 3600 + c.minute * 60 + c.second
}

pub fn ymdhms(year: i64, month: i64, day: i64, hour: i64, minute: i64, second: i64) -> i64 {
    epoch_from_civil(&Civil { year, month, day, hour, minute, second })
}

/// Local civil date-time shown at `instant` by a clock `offset_min` minutes east of UTC.
pub fn local_civil(instant: i64, offset_min: i32) -> Civil {
    civil_from_epoch(instant + offset_min as i64 * 60)
}

/// C18 domain: the local civil year lies in 0001..=9999.
pub fn in_domain(instant: i64, offset_min: i32) -> bool {
    let y = local_civil(instant, offset_min).year;
    (1..=9999).contains(&y)
}

fn push_num(out: &mut String, v: i64, width: usize) {
    let s = v.to_string();
    for _ in s.len()..width {
        out.push('0');
    }
    out.push_str(&s);
}

/// `+HH'mm'` / `-HH'mm'` (with `trailing` = false: `+HH'mm`, the spelling of ISO 32000-1).
pub fn offset_suffix(offset_min: i32, trailing: bool) -> String {
    let mut out = String::new();
    out.push(if offset_min < 0 { '-' } else { '+' });
    let a = (offset_min as i64).abs();
    push_num(&mut out, a / 60, 2);
    out.push('\'');
    push_num(&mut out, a % 60, 2);
    if trailing {
        out.push('\'');
    }
    out
}

/// Digits of a civil date-time cut after `fields` fields (1 = YYYY .. 6 = YYYYMMDDHHmmSS).
pub fn digits(c: &Civil, fields: usize) -> String {
    let mut out = String::new();
    push_num(&mut out, c.year, 4);
    for (i, v) in [c.month, c.day, c.hour, c.minute, c.second].iter().enumerate() {
        if i + 2 <= fields {
            push_num(&mut out, *v, 2);
        }
    }
    out
}

/// Reference offset form `D:YYYYMMDDHHmmSS+HH'mm'`; None outside the domain.
pub fn format_offset_form(instant: i64, offset_min: i32) -> Option<String> {
    if !in_domain(instant, offset_min) || offset_min.abs() >= 24 * 60 {
        return None;
    }
    let c = local_civil(instant, offset_min);
    Some(format!("D:{}{}", digits(&c, 6), offset_suffix(offset_min, true)))
}

/// Reference Z form `D:YYYYMMDDHHmmSSZ`; None outside the domain.
pub fn format_z_form(instant: i64) -> Option<String> {
    if !in_domain(instant, 0) {
        return None;
    }
    Some(format!("D:{}Z", digits(&civil_from_epoch(instant), 6)))
}

/// ISO-8601 rendering for evidence and messages (not part of any oracle).
pub fn iso(instant: i64, offset_min: i32) -> String {
    let c = local_civil(instant, offset_min);
    let a = offset_min.abs();
    format!(
        "{:04}-{:02}-{:02}T{:02}:{:02}:{:02}{}{:02}:{:02}",
        c.year,
        c.month,
        c.day,
        c.hour,
        c.minute,
        c.second,
        if offset_min < 0 { '-' } else { '+' },
        a / 60,
        a % 60
    )
}

/// POSIX `TZ` value for a fixed zone `offset_min` minutes east of UTC. POSIX counts the offset
/// westwards, so the sign is inverted: +05:30 is spelled `XXX-05:30`.
pub fn posix_tz(offset_min: i32) -> String {
    let a = offset_min.abs();
    format!("XXX{}{:02}:{:02}", if offset_min > 0 { '-' } else { '+' }, a / 60, a % 60)
}

/// Self-check of the reference against facts that do not come from this module: published
/// anchor values, the 400-year period, day-by-day succession over years 0000..=10000.
/// Returns a description of the first discrepancy.
pub fn self_check() -> Result<u64, String> {
    let anchors: [((i64, i64, i64, i64, i64, i64), i64); 8] = [
        ((1970, 1, 1, 0, 0, 0), 0),
        ((2023, 11, 14, 22, 13, 20), 1_700_000_000),
        ((2001, 9, 9, 1, 46, 40), 1_000_000_000),
        ((2038, 1, 19, 3, 14, 7), 2_147_483_647),
        ((1901, 12, 13, 20, 45, 52), -2_147_483_648),
        ((2000, 3, 1, 0, 0, 0), 951_868_800),
        ((1, 1, 1, 0, 0, 0), -62_135_596_800),
        ((9999, 12, 31, 23, 59, 59), 253_402_300_799),
    ];
    for ((y, mo, d, h, mi, s), e) in anchors {
        let got = ymdhms(y, mo, d, h, mi, s);
        if got != e {
            return Err(format!("anchor {}-{}-{} {}:{}:{} gives {} not {}", y, mo, d, h, mi, s, got, e));
        }
        let c = civil_from_epoch(e);
        if (c.year, c.month, c.day, c.hour, c.minute, c.second) != (y, mo, d, h, mi, s) {
            return Err(format!("civil_from_epoch({}) = {:?}", e, c));
        }
    }
    // succession: walk every day of years 0000..=10000 with an independent year/month/day counter
    let (mut y, mut m, mut d) = (0i64, 1i64, 1i64);
    let mut z = days_from_civil(0, 1, 1);
    let mut n = 0u64;
    while y <= 10000 {
        if civil_from_days(z) != (y, m, d) {
            return Err(format!("civil_from_days({}) = {:?}, counter says {}-{}-{}", z, civil_from_days(z), y, m, d));
        }
        if days_from_civil(y, m, d) != z {
            return Err(format!("days_from_civil({}-{}-{}) = {}, counter says {}", y, m, d, days_from_civil(y, m, d), z));
        }
        d += 1;
        if d > days_in_month(y, m) {
            d = 1;
            m += 1;
            if m > 12 {
                m = 1;
                y += 1;
            }
        }
        z += 1;
        n += 1;
    }
    if days_from_civil(2400, 1, 1) - days_from_civil(2000, 1, 1) != DAYS_PER_400Y {
        return Err("400-year period".into());
    }
    if format_offset_form(1_700_000_000, 330).as_deref() != Some("D:20231115034320+05'30'") {
        return Err(format!("format +05:30: {:?}", format_offset_form(1_700_000_000, 330)));
    }
    if format_offset_form(0, -30).as_deref() != Some("D:19691231233000-00'30'") {
        return Err(format!("format -00:30: {:?}", format_offset_form(0, -30)));
    }
    if format_z_form(-62_135_596_800).as_deref() != Some("D:00010101000000Z") {
        return Err(format!("format Z: {:?}", format_z_form(-62_135_596_800)));
    }
    if format_offset_form(-62_135_596_800, -1).is_some() || format_offset_form(253_402_300_799, 1).is_some() {
        return Err("domain bound".into());
    }
    if posix_tz(330) != "XXX-05:30" || posix_tz(-30) != "XXX+00:30" || posix_tz(0) != "XXX+00:00" {
        return Err("posix_tz".into());
    }
    Ok(n)
}

#[cfg(test)]
mod tests {
    #[test]
    fn reference_self_check() {
        assert!(super::self_check().is_ok(), "{:?}", super::self_check());
    }
}
